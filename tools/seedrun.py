#!/usr/bin/env python3
"""Development helper: apply a seeded patch to /repo, run the given checks through ./check, undo the patch.
usage: seedrun.py <patch.diff> <ID> [<ID>...]"""
import subprocess, sys, os
patch = sys.argv[1]; ids = sys.argv[2:]
dirty = subprocess.run(['git', '-C', '/repo', 'status', '--porcelain', '--untracked-files=no'], capture_output=True, text=True).stdout.strip()
if dirty:
    print("repo dirty, refusing:", dirty); sys.exit(3)
r = subprocess.run(['git', '-C', '/repo', 'apply', patch])
if r.returncode != 0:
    print("PATCH DOES NOT APPLY"); sys.exit(3)
try:
    for i in ids:
        r = subprocess.run(['./check', i], cwd='/verif', capture_output=True, text=True)
        v = [l for l in r.stdout.splitlines() if l.startswith('VIOLATION')]
        detail = [l for l in r.stderr.splitlines() if l.startswith('violation in')]
        print(i, 'CAUGHT' if r.returncode == 1 and v else 'MISSED (exit %d)' % r.returncode, (detail[0][:260] if detail else ''), flush=True)
finally:
    subprocess.run(['git', '-C', '/repo', 'checkout', '--', '.'])
