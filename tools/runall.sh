#!/bin/bash
# run every check's quick command (development helper); prints one line per property
cd /verif
for i in $(seq -w 1 19); do
  id=C$i
  s=$(date +%s)
  out=$(./check $id --tier ${1:-quick} 2>&1); code=$?
  e=$(date +%s)
  echo "$id exit=$code $((e-s))s $(echo "$out" | grep -c '^VIOLATION') violations $(echo "$out" | grep -c '^KNOWN-FINDING') known"
done
