#!/usr/bin/env python3
"""Sensitivity test helper (development only): apply a textual mutation to /repo, rebuild lv-par, run checks, revert.
usage: mut.py <file> <old> <new> <ID> [<ID>...]    (env MUT_SEQ=1 to also build/run the seq config through ./check)"""
import subprocess, sys, os
f, old, new = sys.argv[1:4]
ids = sys.argv[4:]
path = os.path.join('/repo', f)
s = open(path).read()
if s.count(old) < 1:
    print("MUTATION SITE NOT FOUND"); sys.exit(3)
dirty = subprocess.run(['git', '-C', '/repo', 'status', '--porcelain', '--untracked-files=no'], capture_output=True, text=True).stdout.strip()
if dirty:
    print("repo dirty, refusing:", dirty); sys.exit(3)
open(path, 'w').write(s.replace(old, new, 1))
try:
    for i in ids:
        if os.environ.get('MUT_SEQ'):
            r = subprocess.run(['./check', i], cwd='/verif', capture_output=True, text=True)
        else:
            e = dict(os.environ, CARGO_TARGET_DIR='/verif/target-par', CARGO_NET_OFFLINE='true')
            b = subprocess.run(['cargo', 'build', '--release', '--offline', '--quiet', '--features', 'par'], cwd='/verif/harness', env=e, capture_output=True, text=True)
            if b.returncode != 0:
                print(i, "MUTANT DOES NOT COMPILE", b.stderr[-800:]); continue
            r = subprocess.run(['/verif/target-par/release/lv', 'check', i], cwd='/verif', capture_output=True, text=True, env=dict(os.environ, VERIF_PART='mut'))
        v = [l for l in r.stdout.splitlines() if l.startswith('VIOLATION')]
        detail = [l for l in r.stderr.splitlines() if l.startswith('violation in')]
        print(i, 'CAUGHT' if r.returncode == 1 and v else 'MISSED (exit %d)' % r.returncode, (detail[0][:300] if detail else ''))
finally:
    subprocess.run(['git', '-C', '/repo', 'checkout', '--', f])
