#!/bin/bash
# Offline setup: build the harness configurations (optimised parallel, optimised sequential, unoptimised worker) from files on disk.
set -e
cd /verif/harness
export CARGO_NET_OFFLINE=true
unset RUSTFLAGS
CARGO_TARGET_DIR=/verif/target-par cargo build --release --offline --features par
CARGO_TARGET_DIR=/verif/target-seq cargo build --release --offline
CARGO_TARGET_DIR=/verif/target-dbg cargo build --offline --features par
echo setup ok
