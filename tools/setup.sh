#!/bin/bash
# Offline setup: build both harness configurations from files on disk.
set -e
cd /verif/harness
export CARGO_NET_OFFLINE=true
unset RUSTFLAGS
CARGO_TARGET_DIR=/verif/target-par cargo build --release --offline --features par
CARGO_TARGET_DIR=/verif/target-seq cargo build --release --offline
echo setup ok
