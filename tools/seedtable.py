#!/usr/bin/env python3
"""Development helper: regenerate seeded/README.md from seeded/*/meta.json."""
import glob, json, os
rows = []
for m in sorted(glob.glob('/verif/seeded/*/meta.json')):
    rows.append(json.load(open(m)))
out = ["# Seeded changes", "",
       "Each directory holds a change to lopdf written by an independent author who saw only the text of one property",
       "(`patch.diff`), a demonstration through the public API (`demo.rs`), the author's notes and `meta.json`.",
       "Every change compiles, leaves the outcome of the existing suite as it is, and makes the demonstration fail;",
       "this was confirmed in a scratch worktree with `tools/seedverify.sh` before the change was kept.",
       "None of them is ever committed to lopdf. To run the checks against one:",
       "", "    tools/seedrun.py seeded/<id>/patch.diff <ID> [<ID>...]", "",
       "(applies the patch to /repo, runs `./check <ID>` at the quick tier, and reverts /repo).", "",
       "| id | property | change | caught by (quick tier) | also ran, silent |", "|---|---|---|---|---|"]
caught = 0
for r in rows:
    c = ', '.join(r['caught_by']) or '**none**'
    caught += 1 if r['caught_by'] else 0
    ch = r['change'].replace('|', '/')
    if len(ch) > 140:
        ch = ch[:137] + '...'
    out.append("| %s | %s | %s | %s | %s |" % (r['id'], r['property'], ch, c, ', '.join(r.get('also_ran_not_caught', []))))
out += ["", "%d of %d seeded changes are caught by the check of their own property or a neighbouring one." % (caught, len(rows)), ""]
notes = [r for r in rows if r.get('note')]
if notes:
    out.append("Notes:")
    for r in notes:
        out.append("- %s: %s" % (r['id'], r['note']))
    out.append("")
open('/verif/seeded/README.md', 'w').write('\n'.join(out))
print('\n'.join(out[13:]))
