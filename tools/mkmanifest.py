#!/usr/bin/env python3
"""Maintenance tool: regenerate MANIFEST.json from the table below (kept valid at all times)."""
import json, subprocess
ALL = ["C%02d" % i for i in range(1, 20)]
CHECKS = {
 "C01": ("exploration", "generated-input search: random documents x both xref formats x both reader builds, round trip compared under a canonical comparator, plus exhaustive byte-pair sweeps of the shared lexers; finds counterexamples, does not prove absence",
         "trusted: the CANON comparator and the document generator's domain exclusions (structural object types, bookkeeping trailer keys)",
         "property-based testing (proptest), round-trip oracle, exhaustive byte-pair enumeration"),
 "C14": ("exploration", "generated operation sequences over the documented operator alphabet with nested hostile operands, decode(encode(x)) compared with x; hand-rendered inline images checked for the decode-encode-decode fixpoint; all byte pairs enumerated",
         "trusted: CANON comparator; the hand renderer of inline images (ISO 32000-1 8.9.7)",
         "property-based testing (proptest), round-trip and fixpoint oracles, exhaustive byte-pair enumeration"),
 "C03": ("exploration", "random documents x both xref formats x plain and chained incremental saves; an independent strict reader (own tokenizer, no recovery) must accept the bytes, account for every byte and recover exactly the saved objects",
         "trusted: STRICT-R (written from ISO 32000-1 7.2-7.5, Appendix C of DESIGN.md) and CANON",
         "property-based testing (proptest) with an independent strict reference reader as oracle"),
 "C19": ("fault_enumeration", "per generated document every byte position of the output is enumerated as a failure point for three fault kinds (persistent error, persistent zero-length write, transient error) plus generated short-write/EINTR schedules; documents are sampled, positions are exhaustive",
         "trusted: the fault-injecting Write sinks of the harness, STRICT-R and CANON for the validity of later saves",
         "fault injection through the public Write parameter, exhaustive over byte positions; proptest-generated documents and chunking schedules"),
 "C09": ("exploration", "reference encoders (own LZW, ASCII85, PNG predictors, stored deflate) generate the inputs over chains of 1-3 filters and all parameter forms; lopdf's decoders must return the original bytes; exhaustive sweeps of all 2^24 Paeth triples and all final ASCII85 groups; model-based op sequences for the compression laws",
         "trusted: REF-FILT encoders (unit-tested against own decoders, weezl and flate2), flate2 as deflate primitive",
         "property-based testing (proptest) against reference encoders, exhaustive enumeration of small spaces, model-based op sequences"),
 "C02": ("exploration", "an independent reference writer renders random abstract documents with every lexical/structural freedom of ISO 32000-1 7.2-7.5 randomised; lopdf must load exactly the abstract objects, trailer and version; every generated file is cross-checked by the strict reader first",
         "trusted: REF-W (Appendix B of DESIGN.md) and STRICT-R, which validate each other on every case; CANON with the two stated equivalences (null entry = absent, indirect Length = integer)",
         "differential testing against an independent reference writer, driven by proptest (choice-tape style generation)"),
 "C07": ("exploration", "histories = base + 1..3 update revisions rendered by the reference writer (tables/streams, plain/ObjStm) and every %%EOF-prefix loaded and compared with the 'latest wins' model; and 1..4 chained IncrementalDocument updates on foreign or own base files checked for verbatim prefix, one new section with the right Prev, exactly the edited objects in the tail, unchanged previous view and correct reload; the same histories encrypted by the reference security handler while writing (object-stream members plain, containers encrypted) and read back after decrypt(user password); the update API's resource helpers (add_xobject / add_graphics_state) among the edits",
         "trusted: REF-W, STRICT-R, CANON (as in C02/C03)",
         "property-based testing over histories (vec of revisions / vec of edit lists) against a reference model; differential with a reference writer and strict reader"),
 "C08": ("exploration", "files with many object streams and object numbers redefined across containers are loaded under EVERY order in which the per-container blocks can reach the merge (hook H1, n! orders, exhaustive in that dimension), inside rayon pools of 1..16 threads repeatedly, by the sequential build and by load_filtered with a keep-everything filter; all digests must agree. Two further campaigns: files with constructs only a lenient loader accepts (orphan numbers in two containers, a number listed twice in one object stream) and files encrypted with an empty user password (object streams merged after decryption). Files are sampled; intra-rayon interleavings are sampled by repetition",
         "trusted: hook H1 reorders only what thread completion could reorder; CANON digest; REF-W",
         "schedule enumeration through a merge-order hook plus repeated loads on thread pools, over proptest-generated files; differential against the sequential build"),
 "C12": ("exploration", "generated page trees (spines up to the documented depth limit with random sub-trees, empty nodes, Kids behind references, shuffled numbering) compared with an own recursive depth-first traversal; malformed variants run in an isolated worker process and must terminate and yield only page objects; on cycle-free malformed trees a page may be yielded at most once per /Kids path from the root",
         "trusted: the harness's own DFS; the worker's process-level observations (exit status, panic hook, counting allocator, watchdog)",
         "property-based testing (proptest) against a reference traversal; totality observed from an isolated worker process"),
 "C13": ("exploration", "typed-chaos documents (plausible skeleton overwritten by random-kind values and cyclic/dangling references under every key the query code reads); plus long chains (1-3000 objects linked through one followed key) and ladders (shared nodes on up to 70 levels); every public read-only query is called for every object id inside an isolated worker with an 8 MiB stack, allocation limits and a watchdog, and again in a worker compiled without optimisation (2 MiB stack); the oracle is totality; thorough tier adds a coverage-guided libFuzzer campaign over raw file bytes (load, then every query) whose artefacts are confirmed in the worker",
         "trusted: the worker's process-level observations; hang verdicts need confirmation alone with a 60 s budget",
         "property-based testing (proptest) with a totality oracle observed from an isolated worker process; cargo-fuzz/libFuzzer in the thorough tier"),
 "C04": ("exploration", "structure-aware mutants of valid files from three independent producers and grammar-directed adversarial constructions for all eight byte-level entry points, evaluated in an isolated worker process that observes panics (overflow checks on), aborts, stack overflows on an 8 MiB stack, allocation requests unrelated to the input size and confirmed hangs; a second worker compiled without optimisation (2 MiB case stack) repeats the nesting ladders and a sample of the other constructions; thorough tier adds coverage-guided libFuzzer campaigns whose artefacts are confirmed in the worker",
         "trusted: the worker's process-level observations (exit status, panic hook, counting allocator with the stated thresholds, watchdog with confirmation run)",
         "structure-aware mutation fuzzing driven by proptest plus grammar-based generators; process-isolated totality oracle; cargo-fuzz/libFuzzer in the thorough tier"),
 "C15": ("exploration", "mapping tables are generated as ordered definition lists with deliberate overlaps/adjacencies and rendered as CMaps with randomised sectioning, range splitting and white-space; decode_text over the mapped codes must equal the 'last definition wins' reference model",
         "trusted: the reference table model and the CMap renderer (Adobe template envelope)",
         "model-based property testing (proptest): reference mapping table vs get_font_encoding + decode_text"),
 "C16": ("exploration", "exhaustive sweep of all 1 112 064 Unicode scalar values (alone and embedded) through text_string/decode_text_string and the explicit UTF-8/UTF-16 encoders, random strings, malformed strings; exhaustive sweep of the 1280 cells of the five one-byte encodings against reference tables derived from Python codecs; generated extraction documents round-tripped through save/load",
         "trusted: reference tables vendored from Python's cp1252/mac_roman/latin_1 codecs; the stated reading of the encoding-choice clause (DESIGN.md C16)",
         "exhaustive enumeration of finite spaces plus property-based testing (proptest), round-trip and table oracles"),
 "C17": ("exploration", "generated bookmark forests (any depth/fan-out, children attached in any order, Unicode titles, zero-page parents) are turned into outlines; object-level link invariants are checked against the forest and get_toc() must equal the forest's preorder, in memory and after save/load",
         "trusted: the harness's forest model incl. its reading of adjust_zero_pages (first descendant with a page)",
         "model-based property testing (proptest): structural invariants + read-back oracle"),
 "C18": ("exploration", "generated (instant, offset) pairs plus all 2879 offsets at fixed instants; an own civil-time formatter is the oracle for every back-end's output, and every back-end must parse all four spec forms to the reference instant/offset; chrono::Local is exercised in child processes with TZ set per offset",
         "trusted: REF-TIME (own proleptic Gregorian conversion)",
         "property-based testing (proptest) and exhaustive offset enumeration against a reference formatter; cross-back-end differential"),
 "C10": ("exploration", "generated documents (page trees with shuffled sparse numbering, generations, shared/cyclic/dangling references, unreachable objects, bookmarks) are renumbered from six kinds of start values; every object carries a unique marker so the renaming is recovered independently of the library's traversal and checked as one bijection over trailer, reachable objects, page order and bookmark targets",
         "trusted: the marker-based recovery of the renaming, the harness's own reachability analysis, CANON",
         "model-based property testing (proptest): graph isomorphism under one recovered bijection"),
 "C11": ("exploration", "programs of up to 24 editing operations with random arguments are interpreted against lopdf on generated well-formed documents; after every step independent code (own reachability, page-tree walk, reference stripping, effective-resources lookup, marker-based identity through renumbering) checks fresh ids, the frame condition on all previously reachable objects, deletion/prune exactness, Counts, page content and resource monotonicity",
         "trusted: the interpreter's per-operation expectations (documented effects) and its analyses; CANON",
         "model-based / stateful property testing (proptest: vec of operations + interpreter, invariants after every step)"),
 "C05": ("exploration", "generated documents x every supported handler version, key length, crypt-filter assignment (incl. predefined Identity and per-stream Crypt overrides), EncryptMetadata, permissions and password classes; encrypt then decrypt with user AND owner password, in memory and through save/load, must restore every string and stream; ciphertext must differ from plaintext; wrong passwords must be rejected without side effects",
         "trusted: the harness's reading of which strings/streams a filter applies to (ISO 32000-1 7.6.1, 7.6.5); independent password preparation tables; CANON",
         "property-based testing (proptest), round-trip oracle plus negative (wrong password) oracle"),
 "C06": ("exploration", "differential testing in both directions against an independent implementation of ISO 32000 Algorithms 1-13 over own MD5/SHA-2/AES/RC4 (known-answer tested): lopdf-encrypted documents (memory and saved file via the strict reader) must open in the reference with both passwords and valid /Perms; reference-encrypted files rendered by the reference writer must open in lopdf with both passwords (a third of them with object streams: members plain, containers encrypted)",
         "trusted: REF-SEC and its primitives (KATs from hashlib/openssl), REF-W, STRICT-R; SASLprep/PDFDocEncoding tables from Python",
         "differential property-based testing (proptest) against an independent reference security handler, both directions"),
}
NA = {}
def main():
    hooks_commits = []
    try:
        out = subprocess.check_output(["git", "-C", "/repo", "log", "--format=%h %s"], text=True)
        hooks_commits = [l.split()[0] for l in out.splitlines() if l.split(' ', 1)[1].startswith("hook:")]
    except Exception:
        pass
    checks = []
    for pid in ALL:
        if pid not in CHECKS:
            continue
        cat, text, note, tech = CHECKS[pid]
        checks.append({
            "property_id": pid,
            "quick_cmd": f"./check {pid} --tier quick",
            "thorough_cmd": f"./check {pid} --tier thorough",
            "evidence_file": f"/verif/evidence/{pid}.json",
            "replay_cmd_template": f"./check {pid} --replay {{path}}",
            "engine": "lv",
            "level_claimed": {"category": cat, "text": text, "design_ref": f"DESIGN.md §7 {pid}"},
            "level_note": note,
            "technique": tech,
        })
    na = [{"property_id": p, "reason": NA.get(p, "check not yet built in this session; will be claimed once it exists and is silent on the unchanged tree")} for p in ALL if p not in CHECKS]
    m = {
        "version": 1,
        "setup_cmd": "cd /verif && ./tools/setup.sh",
        "hooks": {
            "guard": "--cfg lopdf_verif",
            "enable": "RUSTFLAGS --cfg lopdf_verif via /verif/harness/.cargo/config.toml (build.rustflags); the harness depends on lopdf by path = /repo, so every check rebuilds lopdf from the current working tree",
            "baseline_off_cmd": "/verif/tools/baseline.sh",
            "source_commits": hooks_commits,
            "add_only": True,
        },
        "engines": [{"name": "lv", "path": "/verif/harness", "serves_properties": sorted(CHECKS),
                     "kind_free_text": "Rust binary: sharded proptest TestRunner (seeds derived from VERIF_SEED), enumerated sweeps, isolated worker process, replay files, evidence writer; driven by /verif/check (python3)"}],
        "checks": checks,
        "not_applicable": na,
        "notes": "See DESIGN.md. Exit codes of every check: 0 held, 1 = VIOLATION line printed, 2 = inconclusive / infrastructure failure (never a VIOLATION line). Known findings and fixed defects: known_findings.json.",
    }
    json.dump(m, open("/verif/MANIFEST.json", "w"), indent=1)
    print("MANIFEST.json written:", len(checks), "checks,", len(na), "not applicable")
main()
