#!/bin/bash
# Development helper: confirm a seeded change in its scratch worktree (suite still passes, demo fails with / passes without).
# usage: seedverify.sh /tmp/wt/C01 A
wt=$1; v=$2; d=$wt/SEEDED/$v
cd $wt || exit 2
git checkout -q -- src; rm -f tests/seeded_demo_*.rs
cp $d/demo.rs tests/seeded_demo_$v.rs
echo "== demo without the change"; timeout 900 cargo test --offline --test seeded_demo_$v 2>&1 | grep -E "^test result|error(\[|:)" | head -3; echo "status=${PIPESTATUS[0]}"
git apply $d/patch.diff || { echo "PATCH DOES NOT APPLY"; exit 1; }
echo "== demo with the change"; timeout 900 cargo test --offline --test seeded_demo_$v 2>&1 | grep -E "^test result|error(\[|:)" | head -3; echo "status=${PIPESTATUS[0]}"
rm -f tests/seeded_demo_$v.rs
echo "== existing suite with the change"; timeout 1800 cargo test --workspace --no-fail-fast --offline 2>&1 | grep -E "^test result|FAILED|failed" | sort | uniq -c | head -12
git checkout -q -- src
