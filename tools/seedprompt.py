import sys
pid=sys.argv[1]
prop=open(f'/tmp/wt/prop_{pid}.txt').read()
print(f"""You are helping to evaluate a verification suite for the Rust library lopdf (a PDF parser/writer). Your job is to act as a careless-but-plausible developer: produce TWO independent source changes (call them A and B) to lopdf, each of which BREAKS the semantic property below while the crate still compiles and the existing test suite still passes. Work ONLY inside your own git worktree of the repository at /tmp/wt/{pid} (it is a checkout of the current lopdf sources; build output goes to /tmp/wt/{pid}/target). Do NOT read, list or use anything under /verif, /root/.vp or /repo (they are off limits; independence from them is the point), and do not touch any other /tmp/wt/* directory. The machine is offline: use `cargo build --offline`, `cargo test --offline`.

THE PROPERTY
{prop}

WHAT TO PRODUCE (for each of A and B)
1. A small, realistic change to the library sources under src/ (a few lines: the kind of slip a refactoring, an 'optimisation' or a 'simplification' introduces — an off-by-one, a dropped special case, a wrong constant or field, a reordered step, a cache that is not invalidated, a boundary check that is slightly too weak or too strong, two cooperating sites that each look fine alone). It must make lopdf violate the property above.
2. The change must need something SPECIFIC to manifest — a particular input shape, value range, multi-step sequence of API calls, configuration (feature flags, cross-reference format, revision, key length …) or ordering — NOT something that ordinary use or any simple round trip would expose at once. Prefer changes whose effect is confined to a corner the existing tests never visit. A and B should attack different mechanisms behind the property.
3. The crate must still compile without new warnings about your change, and the ENTIRE existing test suite must still pass with the change applied: run `cargo test --workspace --no-fail-fast --offline` in /tmp/wt/{pid} and compare with a run on the unchanged sources (one test, `annotation_count`, fails on the unchanged sources already because a test asset was emptied; ignore it. Everything else that passes unchanged must pass with your change). Do not edit or delete existing tests.
4. A demonstration: a stand-alone Rust integration test file (e.g. /tmp/wt/{pid}/tests/seeded_{pid.lower()}_a.rs, using only lopdf's public API and the dev-dependencies already in Cargo.toml) that PASSES on the unchanged sources and FAILS with your change applied. Verify both directions yourself (git stash / git apply). The demonstration should show the property being violated (e.g. the content that comes back differs), not merely that some internal function returns another value.

DELIVERABLES — put them in /tmp/wt/{pid}/SEEDED/ :
  A/patch.diff   (output of `git diff -- src` for change A alone, applies with `git apply` on the unchanged sources)
  A/demo.rs      (the demonstration test file for A)
  A/notes.md     (3-10 lines: what the change is, why it breaks the property, exactly what is needed for it to manifest, and the commands you ran with their outcome)
  B/…            (the same for change B)
Leave the worktree's src/ UNCHANGED at the end (git checkout -- src; remove your tests/seeded_* files from tests/ after copying them to SEEDED/), so that only the SEEDED directory is new.
In your final reply give, for A and B: a one-paragraph description, what is needed to manifest, and the verified outcomes (tests pass with change: yes/no; demo fails with change: yes/no; demo passes without: yes/no). Be honest if you could not make one of them work.""")
