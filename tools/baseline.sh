#!/bin/bash
# Runs the repository's own test suite with the verification guard OFF and compares with BASELINE.json:
# exit 0 iff every stable_pass test still passes.
cd /repo || exit 2
unset RUSTFLAGS
out=$(CARGO_NET_OFFLINE=true cargo test --workspace --no-fail-fast --offline 2>&1)
echo "$out" | tail -n 40
python3 - "$out" <<'PY'
import json,re,sys
out=sys.argv[1]
base=json.load(open('/root/.vp/BASELINE.json'))
ok=set(); failed=set()
# cargo test prints "test path::name ... ok"; binary name gives the crate/test-target prefix
cur=None
for line in out.splitlines():
    m=re.match(r'\s+Running (?:unittests )?(\S+) \(',line)
    if m:
        src=m.group(1)
        if src.startswith('src/'): cur='lopdf'
        else: cur='lopdf::'+src.split('/')[-1].replace('.rs','')
        continue
    m=re.match(r'\s+Doc-tests (\S+)',line)
    if m: cur='doctest'; continue
    m=re.match(r'test (\S+)(?: - should panic)? \.\.\. (\w+)',line)
    if m and cur:
        name=(cur+'::'+m.group(1))
        (ok if m.group(2)=='ok' else failed).add(name)
missing=[t for t in base['stable_pass'] if t not in ok]
print(f"baseline: {len(base['stable_pass'])-len(missing)}/{len(base['stable_pass'])} stable tests pass; other failures: {sorted(failed - set(base.get('always_fail',[])))[:10]}")
if missing:
    print("MISSING/FAILED:", missing[:20]); sys.exit(1)
PY
