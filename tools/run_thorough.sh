#!/bin/bash
# Development helper: run the thorough commands in the given order until a wall-clock budget (seconds) is used up.
# usage: run_thorough.sh <budget-seconds> <ID>...
cd /verif
budget=$1; shift
t0=$(date +%s)
for id in "$@"; do
  now=$(date +%s)
  if [ $((now - t0)) -gt $budget ]; then echo "$id skipped (budget used)"; continue; fi
  s=$(date +%s)
  out=$(./check $id --tier thorough 2>&1); code=$?
  e=$(date +%s)
  echo "$id thorough exit=$code $((e-s))s $(echo "$out" | grep -c '^VIOLATION') violations $(echo "$out" | grep -c '^KNOWN-FINDING') known $(echo "$out" | grep -a -E '^\[C|inconclusive' | tail -2 | tr '\n' ' ' | cut -c1-260)"
done
