#!/bin/bash
# Development helper: exercise every thorough command's code path with scaled-down work (VERIF_SCALE) and a short libFuzzer budget.
cd /verif
for i in $(seq -w 1 19); do
  id=C$i
  s=$(date +%s)
  out=$(VERIF_SCALE=${VERIF_SCALE:-0.02} VERIF_FUZZ_SECS=${VERIF_FUZZ_SECS:-40} ./check $id --tier thorough 2>&1); code=$?
  e=$(date +%s)
  echo "$id thorough(scaled) exit=$code $((e-s))s $(echo "$out" | grep -c '^VIOLATION') violations $(echo "$out" | grep -c '^KNOWN-FINDING') known $(echo "$out" | grep -E 'inconclusive' | head -2 | tr '\n' ' ' | cut -c1-200)"
done
