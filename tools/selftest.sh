#!/bin/bash
# Unit tests of the harness's own reference implementations (REF-FILT, REF-SEC known-answer tests, REF-W vs STRICT-R).
cd /verif/harness && CARGO_NET_OFFLINE=true cargo test --release --lib --target-dir /verif/target-seq 2>&1 | grep -E "^test result|FAILED|panicked|^error" 
