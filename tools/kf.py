#!/usr/bin/env python3
"""Maintenance tool (never run by a check): add/update an entry of known_findings.json.
usage: kf.py <id> <property> fixed <commit> <demo> <what...>   |   kf.py <id> <property> open - <demo> <what...> [key=value ...]"""
import json, sys
p = '/verif/known_findings.json'
k = json.load(open(p))
fid, prop, status, commit, demo = sys.argv[1:6]
rest = sys.argv[6:]
extra = dict(a.split('=', 1) for a in rest if '=' in a and a.split('=', 1)[0] in ('entry', 'failure', 'lopdf_fn', 'message', 'kind', 'requires', 'generator_switch'))
what = ' '.join(a for a in rest if not ('=' in a and a.split('=', 1)[0] in extra))
e = {"id": fid, "property": prop, "status": status}
if status == 'fixed':
    e["commit"] = commit
    e["what"] = f"fixed: property={prop} {commit} {what}"
else:
    e["what"] = what
e["demo"] = demo
e.update(extra)
k['findings'] = [x for x in k['findings'] if x['id'] != fid] + [e]
json.dump(k, open(p, 'w'), indent=2)
print("recorded", fid)
