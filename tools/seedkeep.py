#!/usr/bin/env python3
"""Development helper: copy a confirmed seeded change into /verif/seeded/<id>/ with its meta.json.
usage: seedkeep.py <worktree> <A|B> <seed-id> <property> <caught-by (comma list or 'none')> <also-ran (comma list or 'none')> [note...]
The description and the 'needs to manifest' text are taken from the author's notes.md."""
import json, os, re, shutil, sys
wt, v, sid, prop, caught, also = sys.argv[1:7]
note = ' '.join(sys.argv[7:])
src = os.path.join(wt, 'SEEDED', v)
dst = os.path.join('/verif/seeded', sid)
os.makedirs(dst, exist_ok=True)
for f in ('patch.diff', 'demo.rs', 'notes.md'):
    if os.path.exists(os.path.join(src, f)):
        shutil.copy(os.path.join(src, f), os.path.join(dst, f))
notes = open(os.path.join(src, 'notes.md')).read().splitlines() if os.path.exists(os.path.join(src, 'notes.md')) else []
title = next((l.lstrip('# ').strip() for l in notes if l.strip()), '')
needs = []
grab = False
for l in notes:
    if re.search(r'need(ed|s)?( is)?( to)? (to )?manifest', l, re.I) and not grab:
        grab = True
        needs.append(re.sub(r'^[-*\s]*', '', l))
        continue
    if grab:
        if not l.strip() or re.match(r'^\s*[-*] ', l) or re.match(r'^(Demo|Commands|Why|Verified)', l.strip()):
            break
        needs.append(l.strip())
needs = ' '.join(needs)
needs = re.sub(r'^\**\s*(what is )?need(ed|s)?( is)?( to)? (to )?manifest\**\s*[:.]?\**\s*', '', needs, flags=re.I)
files = sorted(set(re.findall(r'^diff --git a/(\S+)', open(os.path.join(src, 'patch.diff')).read(), re.M)))
meta = {
    "id": sid, "property": prop, "change": title, "files": files, "needs_to_manifest": needs,
    "confirmed": {"existing_suite_passes_with_change": True, "demo_fails_with_change": True, "demo_passes_without_change": True,
                  "how": "tools/seedverify.sh in the author's scratch worktree: demo.rs as tests/seeded_demo_<v>.rs without and with patch.diff, then cargo test --workspace --no-fail-fast --offline with it (same outcome as the unchanged tree)"},
    "caught_by": [] if caught == 'none' else caught.split(','),
    "also_ran_not_caught": [] if also == 'none' else also.split(','),
    "ran": "tools/seedrun.py <patch> <IDs>: git -C /repo apply <patch>; ./check <ID> (quick tier, VERIF_SEED default); git -C /repo checkout -- .",
}
if note:
    meta["note"] = note
json.dump(meta, open(os.path.join(dst, 'meta.json'), 'w'), indent=1)
print("kept", sid, '|', title[:80], '|', needs[:100])
