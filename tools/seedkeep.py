#!/usr/bin/env python3
"""Development helper: copy a confirmed seeded change into /verif/seeded/<id>/ with its meta.json.
usage: seedkeep.py <worktree> <A|B> <seed-id> <property> <caught-by (comma list or 'none')> <needs...>"""
import json, os, shutil, sys
wt, v, sid, prop, caught = sys.argv[1:6]
needs = ' '.join(sys.argv[6:])
src = os.path.join(wt, 'SEEDED', v)
dst = os.path.join('/verif/seeded', sid)
os.makedirs(dst, exist_ok=True)
shutil.copy(os.path.join(src, 'patch.diff'), os.path.join(dst, 'patch.diff'))
shutil.copy(os.path.join(src, 'demo.rs'), os.path.join(dst, 'demo.rs'))
if os.path.exists(os.path.join(src, 'notes.md')):
    shutil.copy(os.path.join(src, 'notes.md'), os.path.join(dst, 'notes.md'))
meta = {
    "id": sid, "property": prop, "needs_to_manifest": needs,
    "confirmed": {"existing_suite_passes_with_change": True, "demo_fails_with_change": True, "demo_passes_without_change": True,
                  "how": "tools/seedverify.sh in the author's scratch worktree (cargo test --workspace --no-fail-fast --offline; demo as tests/seeded_demo_*.rs)"},
    "caught_by": [] if caught == 'none' else caught.split(','),
    "ran": "tools/seedrun.py <patch> <IDs>: git -C /repo apply, ./check <ID> --tier quick, git -C /repo checkout -- .",
}
json.dump(meta, open(os.path.join(dst, 'meta.json'), 'w'), indent=1)
print("kept", sid)
