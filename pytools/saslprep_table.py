#!/usr/bin/env python3
"""One-off generator (output vendored as harness/src/refimpl/saslprep_table.rs): SASLprep (RFC 4013) of single
characters, computed with Python's std-lib `stringprep` tables and `unicodedata.ucd_3_2_0` — independent of the
Rust `stringprep` crate lopdf uses. Only left-to-right, non-prohibited, Unicode 3.2-assigned characters are listed,
so that the profile acts character by character (no bidi interaction)."""
import stringprep, unicodedata
ucd = unicodedata.ucd_3_2_0
def prep_char(c):
    # map: B.1 -> nothing, C.1.2 -> space; normalise NFKC; prohibit
    if stringprep.in_table_b1(c): s = ''
    elif stringprep.in_table_c12(c): s = ' '
    else: s = c
    s = ucd.normalize('NFKC', s)
    for ch in s:
        if (stringprep.in_table_c12(ch) or stringprep.in_table_c21(ch) or stringprep.in_table_c22(ch) or stringprep.in_table_c3(ch)
            or stringprep.in_table_c4(ch) or stringprep.in_table_c5(ch) or stringprep.in_table_c6(ch) or stringprep.in_table_c7(ch)
            or stringprep.in_table_c8(ch) or stringprep.in_table_c9(ch) or stringprep.in_table_a1(ch)):
            return None
        if stringprep.in_table_d1(ch): return None  # RandALCat: excluded (bidi rule)
    return s
cands = [chr(c) for c in range(0x20, 0x7f)] + [chr(c) for c in range(0xa0, 0x100)] + list("жЖяΩωλ漢字かなカナ한ßŁłŒœ①②Ⅳⅷﬁﬂ㎏Ａｂ１") + ['­', '​', ' ', '　', 'ẛ', '̣']
rows = []
for c in cands:
    if stringprep.in_table_a1(c): continue
    if stringprep.in_table_b1(c) and stringprep.in_table_c12(c): continue  # U+200B is in both tables: RFC 4013 leaves the order open
    r = prep_char(c)
    if r is None: continue
    if any(ucd.combining(x) != 0 for x in r): continue  # no combining marks: results never compose with neighbours
    rows.append((c, r))
# self-check of the per-character claim on a few strings against a whole-string implementation
def saslprep(s):
    s = ''.join('' if stringprep.in_table_b1(c) else (' ' if stringprep.in_table_c12(c) else c) for c in s)
    return ucd.normalize('NFKC', s)
import random
random.seed(1)
for _ in range(2000):
    s = ''.join(random.choice(rows)[0] for _ in range(random.randint(0, 12)))
    per_char = ''.join(dict(rows)[c] for c in s)
    if saslprep(s) != per_char:
        raise SystemExit("per-character SASLprep differs from whole-string for %r" % s)
out = "//! Vendored output of pytools/saslprep_table.py (Python stringprep + unicodedata 3.2). Do not edit.\n//! (character, SASLprep result of that character). Whole strings over this alphabet: concatenate, then the\n//! harness applies no further step except that combining sequences are avoided by construction.\n\npub const SASLPREP: &[(char, &str)] = &[\n"
for c, r in rows:
    out += "    ('\\u{%04x}', \"%s\"),\n" % (ord(c), ''.join('\\u{%04x}' % ord(x) for x in r))
out += "];\n"
open('/verif/harness/src/refimpl/saslprep_table.rs', 'w').write(out)
print(len(rows), "rows")
