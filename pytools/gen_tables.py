#!/usr/bin/env python3
"""One-off generator (output vendored as harness/src/refimpl/tables.rs): reference cells for the printable-ASCII and
Latin-1 repertoire of WinAnsi (cp1252), MacRoman (mac_roman) and PDFDoc (latin_1 for 0xA1-0xFF, ASCII for 0x20-0x7E),
taken from Python's codecs, i.e. independent of lopdf's tables."""
def table(codec, lo_hi):
    cells = []
    for b in range(256):
        try:
            ch = bytes([b]).decode(codec)
        except UnicodeDecodeError:
            cells.append(None); continue
        cp = ord(ch)
        # keep only targets in the printable-ASCII / Latin-1 repertoire
        if (0x20 <= cp <= 0x7e) or (0xa1 <= cp <= 0xff):
            cells.append(cp)
        else:
            cells.append(None)
    return cells
def emit(name, cells, ambiguous, doc):
    out = f"/// {doc}\npub const {name}: [Option<u16>; 256] = [\n"
    for i in range(0, 256, 8):
        out += "    " + " ".join(("None," if (c is None or (i + j) in ambiguous) else f"Some(0x{c:04X}),") for j, c in enumerate(cells[i:i + 8])) + "\n"
    return out + "];\n\n"
src = "//! REF-TAB — vendored output of pytools/gen_tables.py (Python codecs cp1252, mac_roman, latin_1). Do not edit.\n//! `None` = cell not asserted (outside the printable-ASCII / Latin-1 repertoire, or published sources disagree).\n\n"
src += emit("WIN_ANSI_REF", table("cp1252", None), {0xA0, 0xAD}, "WinAnsiEncoding reference cells (cp1252); 0xA0 and 0xAD not asserted")
src += emit("MAC_ROMAN_REF", table("mac_roman", None), {0xCA, 0xDB}, "MacRomanEncoding reference cells (mac_roman); 0xCA and 0xDB not asserted")
pd = [None] * 256
for b in range(0x20, 0x7f): pd[b] = b
for b in range(0xa1, 0x100):
    if b != 0xad: pd[b] = b
src += emit("PDF_DOC_REF", pd, set(), "PDFDocEncoding reference cells: printable ASCII and 0xA1-0xFF (except 0xAD) equal Latin-1 (ISO 32000-1 Annex D.2)")
open('/verif/harness/src/refimpl/tables.rs', 'w').write(src)
print("written")
