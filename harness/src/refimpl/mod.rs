pub mod strict;
pub mod filt;

#[cfg(test)]
pub(crate) mod testutil {
    /// Tiny deterministic xorshift64* PRNG (unit tests of the reference implementations only).
    pub struct Rng(pub u64);
    impl Rng {
        pub fn next_u64(&mut self) -> u64 {
            let mut x = self.0;
            x ^= x >> 12;
            x ^= x << 25;
            x ^= x >> 27;
            self.0 = x;
            x.wrapping_mul(0x2545_F491_4F6C_DD1D)
        }
        pub fn below(&mut self, n: usize) -> usize {
            ((self.next_u64() >> 11) % n as u64) as usize
        }
        pub fn bytes(&mut self, n: usize, alphabet: usize) -> Vec<u8> {
            (0..n).map(|_| self.below(alphabet) as u8).collect()
        }
    }
}
pub mod writer;
pub mod tables;
pub mod saslprep_table;
pub mod sec;
