pub mod strict;
