//! PDF standard security handler (ISO 32000-1 §7.6, ISO 32000-2 §7.6.4), revisions 2-6.
//! Reference/oracle implementation: straightforward, unoptimised, built on this crate's md5/sha2/aes/rc4.

use super::aes::{
    aes_cbc_decrypt_nopad, aes_cbc_decrypt_pkcs5, aes_cbc_encrypt_nopad, aes_cbc_encrypt_pkcs5, aes_ecb_decrypt, aes_ecb_encrypt,
};
use super::md5::md5;
use super::rc4::rc4;
use super::sha2::{sha256, sha384, sha512};

pub const PAD: [u8; 32] = [
    0x28, 0xBF, 0x4E, 0x5E, 0x4E, 0x75, 0x8A, 0x41, 0x64, 0x00, 0x4E, 0x56, 0xFF, 0xFA, 0x01, 0x08,
    0x2E, 0x2E, 0x00, 0xB6, 0xD0, 0x68, 0x3E, 0x80, 0x2F, 0x0C, 0xA9, 0xFE, 0x64, 0x53, 0x69, 0x7A,
];

#[derive(Clone, Copy, PartialEq, Debug)]
pub enum Cipher {
    Identity,
    Rc4,
    AesV2,
    AesV3,
}

#[derive(Clone, Copy, PartialEq, Debug)]
pub enum Who {
    User,
    Owner,
}

/// First 32 bytes of `p ‖ PAD`. Idempotent on 32-byte inputs.
pub fn pad_password(p: &[u8]) -> [u8; 32] {
    let mut out = [0u8; 32];
    for (dst, src) in out.iter_mut().zip(p.iter().chain(PAD.iter())) {
        *dst = *src;
    }
    out
}

/// Key length in bytes: always 5 for R2, otherwise the caller's Length/8 (must be 5..=16).
fn key_len(r: u8, n: usize) -> usize {
    assert!((2..=4).contains(&r), "revision must be 2, 3 or 4");
    if r == 2 {
        return 5;
    }
    assert!((5..=16).contains(&n), "key length must be 5..=16 bytes");
    n
}

fn xor_key(k: &[u8], i: u8) -> Vec<u8> {
    k.iter().map(|b| b ^ i).collect()
}

/// The RC4 key `k` of Alg 3 / Alg 7, derived from an owner password.
fn owner_rc4_key(r: u8, n: usize, owner_pw: &[u8]) -> Vec<u8> {
    let mut h = md5(&pad_password(owner_pw));
    if r >= 3 {
        for _ in 0..50 {
            h = md5(&h);
        }
    }
    h[..n].to_vec()
}

/// Alg 3: O value. An empty owner password falls back to the user password.
pub fn compute_o_r234(r: u8, n: usize, owner_pw: &[u8], user_pw: &[u8]) -> [u8; 32] {
    let n = key_len(r, n);
    let k = owner_rc4_key(r, n, if owner_pw.is_empty() { user_pw } else { owner_pw });
    let mut x = rc4(&k, &pad_password(user_pw));
    if r >= 3 {
        for i in 1..=19u8 {
            x = rc4(&xor_key(&k, i), &x);
        }
    }
    let mut o = [0u8; 32];
    o.copy_from_slice(&x);
    o
}

/// Alg 2: file key from the (unpadded or already padded) user password.
pub fn file_key_r234(r: u8, n: usize, user_pw: &[u8], o: &[u8], p: i32, id0: &[u8], encrypt_metadata: bool) -> Vec<u8> {
    let n = key_len(r, n);
    let mut input = pad_password(user_pw).to_vec();
    input.extend_from_slice(o);
    input.extend_from_slice(&p.to_le_bytes());
    input.extend_from_slice(id0);
    if r >= 4 && !encrypt_metadata {
        input.extend_from_slice(&[0xFF; 4]);
    }
    let mut h = md5(&input);
    if r >= 3 {
        for _ in 0..50 {
            h = md5(&h[..n]);
        }
    }
    h[..n].to_vec()
}

/// Alg 4 (R2) / Alg 5 (R3, R4): U value; for R >= 3 the 16 arbitrary trailing bytes are zero.
pub fn compute_u_r234(r: u8, key: &[u8], id0: &[u8]) -> [u8; 32] {
    assert!((2..=4).contains(&r), "revision must be 2, 3 or 4");
    let mut u = [0u8; 32];
    if r == 2 {
        u.copy_from_slice(&rc4(key, &PAD));
    } else {
        let mut input = PAD.to_vec();
        input.extend_from_slice(id0);
        let mut x = rc4(key, &md5(&input));
        for i in 1..=19u8 {
            x = rc4(&xor_key(key, i), &x);
        }
        u[..16].copy_from_slice(&x);
    }
    u
}

/// Alg 6: returns the file key if `pw` is the user password.
pub fn auth_user_r234(r: u8, n: usize, pw: &[u8], o: &[u8], u: &[u8], p: i32, id0: &[u8], em: bool) -> Option<Vec<u8>> {
    let key = file_key_r234(r, n, pw, o, p, id0, em);
    let cmp = if r == 2 { 32 } else { 16 };
    if u.len() >= cmp && compute_u_r234(r, &key, id0)[..cmp] == u[..cmp] {
        Some(key)
    } else {
        None
    }
}

/// Alg 7: returns the file key if `pw` is the owner password.
pub fn auth_owner_r234(r: u8, n: usize, pw: &[u8], o: &[u8], u: &[u8], p: i32, id0: &[u8], em: bool) -> Option<Vec<u8>> {
    let n = key_len(r, n);
    let k = owner_rc4_key(r, n, pw);
    let mut x = o.to_vec();
    if r == 2 {
        x = rc4(&k, &x);
    } else {
        for i in (0..=19u8).rev() {
            x = rc4(&xor_key(&k, i), &x);
        }
    }
    auth_user_r234(r, n, &pad_password(&x), o, u, p, id0, em)
}

/// Alg 2.B with the number of rounds executed. `input` = password ‖ salt ‖ [U48].
pub fn hash_2b_with_rounds(pw: &[u8], salt: &[u8], u48: Option<&[u8]>) -> ([u8; 32], u32) {
    let udata = u48.unwrap_or(&[]);
    let mut k: Vec<u8> = sha256(&[pw, salt, udata].concat()).to_vec();
    let mut round = 0u32;
    loop {
        round += 1;
        let k1 = [pw, &k[..], udata].concat().repeat(64);
        let mut iv = [0u8; 16];
        iv.copy_from_slice(&k[16..32]);
        let e = aes_cbc_encrypt_nopad(&k[..16], &iv, &k1);
        let m = e[..16].iter().map(|&b| b as u32).sum::<u32>() % 3;
        k = match m {
            0 => sha256(&e).to_vec(),
            1 => sha384(&e).to_vec(),
            _ => sha512(&e).to_vec(),
        };
        if round >= 64 && *e.last().unwrap() as u32 <= round - 32 {
            break;
        }
    }
    let mut out = [0u8; 32];
    out.copy_from_slice(&k[..32]);
    (out, round)
}

/// R6: Alg 2.B; R5: plain SHA-256 of `pw ‖ salt ‖ [u48]`. The password is used as given
/// (the 127-byte truncation is applied by `auth_r56` / `compute_*_r56`).
pub fn hash_r56(r: u8, pw: &[u8], salt: &[u8], u48: Option<&[u8]>) -> [u8; 32] {
    match r {
        5 => sha256(&[pw, salt, u48.unwrap_or(&[])].concat()),
        6 => hash_2b_with_rounds(pw, salt, u48).0,
        _ => panic!("revision must be 5 or 6"),
    }
}

fn trunc127(pw: &[u8]) -> &[u8] {
    &pw[..pw.len().min(127)]
}

fn to32(v: &[u8]) -> [u8; 32] {
    let mut out = [0u8; 32];
    out.copy_from_slice(v);
    out
}

/// Shared body of Alg 8 and Alg 9: hash ‖ vs ‖ ks, and the wrapped file key.
fn wrap_r56(r: u8, pw: &[u8], file_key: &[u8; 32], u48: Option<&[u8]>, vs: &[u8; 8], ks: &[u8; 8]) -> ([u8; 48], [u8; 32]) {
    let pw = trunc127(pw);
    let mut v = [0u8; 48];
    v[..32].copy_from_slice(&hash_r56(r, pw, vs, u48));
    v[32..40].copy_from_slice(vs);
    v[40..].copy_from_slice(ks);
    let e = aes_cbc_encrypt_nopad(&hash_r56(r, pw, ks, u48), &[0u8; 16], file_key);
    (v, to32(&e))
}

/// Alg 8: (U, UE).
pub fn compute_u_ue_r56(r: u8, pw: &[u8], file_key: &[u8; 32], vs: &[u8; 8], ks: &[u8; 8]) -> ([u8; 48], [u8; 32]) {
    wrap_r56(r, pw, file_key, None, vs, ks)
}

/// Alg 9: (O, OE). Only the first 48 bytes of `u48` are used.
pub fn compute_o_oe_r56(r: u8, pw: &[u8], file_key: &[u8; 32], u48: &[u8], vs: &[u8; 8], ks: &[u8; 8]) -> ([u8; 48], [u8; 32]) {
    wrap_r56(r, pw, file_key, Some(&u48[..48]), vs, ks)
}

/// Alg 10: Perms. `tail` are the 4 arbitrary bytes 12..16 of the plaintext block.
pub fn compute_perms(file_key: &[u8; 32], p: i32, em: bool, tail: [u8; 4]) -> [u8; 16] {
    let mut block = [0xFFu8; 16];
    block[..4].copy_from_slice(&p.to_le_bytes());
    block[8] = if em { b'T' } else { b'F' };
    block[9..12].copy_from_slice(b"adb");
    block[12..].copy_from_slice(&tail);
    let mut out = [0u8; 16];
    out.copy_from_slice(&aes_ecb_encrypt(file_key, &block));
    out
}

/// Alg 13: checks "adb", P and the EncryptMetadata flag. Bytes 4..8 and 12..16 are not checked.
pub fn validate_perms(file_key: &[u8], perms: &[u8], p: i32, em: bool) -> bool {
    if file_key.len() != 32 || perms.len() != 16 {
        return false;
    }
    let b = aes_ecb_decrypt(file_key, perms);
    &b[9..12] == b"adb" && b[..4] == p.to_le_bytes() && b[8] == if em { b'T' } else { b'F' }
}

/// Alg 2.A: tries the owner password first, then the user password. O/U may be longer than 48 bytes and
/// OE/UE longer than 32 bytes (only the leading bytes are used); shorter values give None.
pub fn auth_r56(r: u8, pw: &[u8], o: &[u8], u: &[u8], oe: &[u8], ue: &[u8]) -> Option<(Who, Vec<u8>)> {
    if o.len() < 48 || u.len() < 48 || oe.len() < 32 || ue.len() < 32 {
        return None;
    }
    let pw = trunc127(pw);
    let u48 = &u[..48];
    let zero_iv = [0u8; 16];
    if hash_r56(r, pw, &o[32..40], Some(u48))[..] == o[..32] {
        let k = hash_r56(r, pw, &o[40..48], Some(u48));
        return Some((Who::Owner, aes_cbc_decrypt_nopad(&k, &zero_iv, &oe[..32])));
    }
    if hash_r56(r, pw, &u[32..40], None)[..] == u[..32] {
        let k = hash_r56(r, pw, &u[40..48], None);
        return Some((Who::User, aes_cbc_decrypt_nopad(&k, &zero_iv, &ue[..32])));
    }
    None
}

/// Alg 1: per-object key for RC4 (`aes` = false) or AESV2 (`aes` = true).
pub fn object_key(file_key: &[u8], num: u32, generation: u16, aes: bool) -> Vec<u8> {
    let mut input = file_key.to_vec();
    input.extend_from_slice(&num.to_le_bytes()[..3]);
    input.extend_from_slice(&generation.to_le_bytes());
    if aes {
        input.extend_from_slice(b"sAlT");
    }
    md5(&input)[..(file_key.len() + 5).min(16)].to_vec()
}

/// Encrypts a string/stream. AES output is `iv ‖ CBC-PKCS5(plain)`; `iv` is ignored for Identity and RC4.
pub fn encrypt_data(cipher: Cipher, file_key: &[u8], num: u32, generation: u16, iv: &[u8; 16], plain: &[u8]) -> Vec<u8> {
    let with_iv = |key: &[u8]| [&iv[..], &aes_cbc_encrypt_pkcs5(key, iv, plain)].concat();
    match cipher {
        Cipher::Identity => plain.to_vec(),
        Cipher::Rc4 => rc4(&object_key(file_key, num, generation, false), plain),
        Cipher::AesV2 => {
            assert!(file_key.len() >= 11, "AESV2 needs a 16-byte object key, i.e. a file key of at least 11 bytes");
            with_iv(&object_key(file_key, num, generation, true))
        }
        Cipher::AesV3 => {
            assert_eq!(file_key.len(), 32, "AESV3 needs a 32-byte file key");
            with_iv(file_key)
        }
    }
}

/// Inverse of `encrypt_data`. AES: None unless the data is IV + at least one block, a multiple of 16 bytes,
/// and the PKCS#5 padding is well-formed; also None if the file key is too short for the cipher
/// (AESV2: under 11 bytes, so that the object key is not 16 bytes; AESV3: not 32 bytes).
pub fn decrypt_data(cipher: Cipher, file_key: &[u8], num: u32, generation: u16, data: &[u8]) -> Option<Vec<u8>> {
    let strip_iv = |key: &[u8]| {
        if data.len() < 32 || data.len() % 16 != 0 {
            return None;
        }
        let mut iv = [0u8; 16];
        iv.copy_from_slice(&data[..16]);
        aes_cbc_decrypt_pkcs5(key, &iv, &data[16..])
    };
    match cipher {
        Cipher::Identity => Some(data.to_vec()),
        Cipher::Rc4 => Some(rc4(&object_key(file_key, num, generation, false), data)),
        Cipher::AesV2 if file_key.len() >= 11 => strip_iv(&object_key(file_key, num, generation, true)),
        Cipher::AesV2 => None,
        Cipher::AesV3 if file_key.len() == 32 => strip_iv(file_key),
        Cipher::AesV3 => None,
    }
}

#[cfg(test)]
mod tests {
    use super::*;

    fn hex(b: &[u8]) -> String {
        b.iter().map(|x| format!("{:02x}", x)).collect()
    }
    fn unhex(s: &str) -> Vec<u8> {
        (0..s.len() / 2).map(|i| u8::from_str_radix(&s[2 * i..2 * i + 2], 16).unwrap()).collect()
    }
    /// Deterministic filler bytes.
    fn bytes<const N: usize>(seed: u8) -> [u8; N] {
        let mut out = [0u8; N];
        for (i, b) in out.iter_mut().enumerate() {
            *b = (i as u8).wrapping_mul(37).wrapping_add(seed).rotate_left(3) ^ seed;
        }
        out
    }
    const ID0: &[u8] = &[0x1f, 0x2e, 0x3d, 0x4c, 0x5b, 0x6a, 0x79, 0x88, 0x97, 0xa6, 0xb5, 0xc4, 0xd3, 0xe2, 0xf1, 0x00];
    const P: i32 = -3904; // 0xFFFFF0C0

    #[test]
    fn padding() {
        assert_eq!(pad_password(b""), PAD);
        let p = pad_password(b"abc");
        assert_eq!(&p[..3], b"abc");
        assert_eq!(&p[3..], &PAD[..29]);
        let long = [0x55u8; 40];
        assert_eq!(pad_password(&long), [0x55u8; 32]);
        assert_eq!(pad_password(&p), p);
        assert_eq!(P.to_le_bytes(), [0xC0, 0xF0, 0xFF, 0xFF]);
    }

    /// Builds O and U for the given parameters, then authenticates both passwords.
    fn roundtrip_r234(r: u8, n: usize, user: &[u8], owner: &[u8], em: bool) -> Vec<u8> {
        let o = compute_o_r234(r, n, owner, user);
        let key = file_key_r234(r, n, user, &o, P, ID0, em);
        assert_eq!(key.len(), if r == 2 { 5 } else { n });
        let u = compute_u_r234(r, &key, ID0);
        assert_eq!(auth_user_r234(r, n, user, &o, &u, P, ID0, em), Some(key.clone()), "user R{}", r);
        let eff_owner = if owner.is_empty() { user } else { owner };
        assert_eq!(auth_owner_r234(r, n, eff_owner, &o, &u, P, ID0, em), Some(key.clone()), "owner R{}", r);
        assert_eq!(auth_user_r234(r, n, b"wrong", &o, &u, P, ID0, em), None);
        assert_eq!(auth_owner_r234(r, n, b"wrong", &o, &u, P, ID0, em), None);
        if owner != user && !owner.is_empty() {
            assert_eq!(auth_user_r234(r, n, owner, &o, &u, P, ID0, em), None, "owner pw is not the user pw");
            assert_eq!(auth_owner_r234(r, n, user, &o, &u, P, ID0, em), None, "user pw is not the owner pw");
        }
        // anything that enters Alg 2 changes the outcome
        assert_eq!(auth_user_r234(r, n, user, &o, &u, P ^ 4, ID0, em), None);
        assert_eq!(auth_user_r234(r, n, user, &o, &u, P, &ID0[..15], em), None);
        if r >= 3 {
            // the 16 arbitrary trailing bytes of U do not matter; the first 16 do
            let mut u2 = u;
            u2[16..].copy_from_slice(&[0xAB; 16]);
            assert_eq!(auth_user_r234(r, n, user, &o, &u2, P, ID0, em), Some(key.clone()));
            u2[15] ^= 1;
            assert_eq!(auth_user_r234(r, n, user, &o, &u2, P, ID0, em), None);
        } else {
            let mut u2 = u;
            u2[31] ^= 1;
            assert_eq!(auth_user_r234(r, n, user, &o, &u2, P, ID0, em), None);
        }
        key
    }

    #[test]
    fn self_consistency_r2() {
        roundtrip_r234(2, 5, b"user", b"owner", true);
        roundtrip_r234(2, 5, b"", b"owner", true);
        // n is ignored for R2: always 40 bits
        assert_eq!(roundtrip_r234(2, 16, b"user", b"owner", true), roundtrip_r234(2, 5, b"user", b"owner", true));
    }

    #[test]
    fn self_consistency_r3() {
        for n in [5, 7, 11, 16] {
            roundtrip_r234(3, n, b"user", b"owner", true);
        }
        roundtrip_r234(3, 16, b"", b"owner", true);
        roundtrip_r234(3, 16, &[b'x'; 40], &[b'y'; 33], true); // longer than 32 bytes: truncated by pad()
        // EncryptMetadata is not an input before R4
        assert_eq!(roundtrip_r234(3, 16, b"user", b"owner", true), roundtrip_r234(3, 16, b"user", b"owner", false));
    }

    #[test]
    fn self_consistency_r4() {
        let with_md = roundtrip_r234(4, 16, b"user", b"owner", true);
        let without_md = roundtrip_r234(4, 16, b"user", b"owner", false);
        assert_ne!(with_md, without_md);
        // R3 and R4 agree when metadata is encrypted
        assert_eq!(with_md, roundtrip_r234(3, 16, b"user", b"owner", true));
        roundtrip_r234(4, 16, b"", b"", true);
    }

    #[test]
    fn empty_owner_password_falls_back_to_user_password() {
        for (r, n) in [(2u8, 5usize), (3, 16), (4, 16)] {
            let o = compute_o_r234(r, n, b"", b"secret");
            assert_eq!(o, compute_o_r234(r, n, b"secret", b"secret"));
            assert_ne!(o, compute_o_r234(r, n, b"other", b"secret"));
            let key = roundtrip_r234(r, n, b"secret", b"", true);
            let u = compute_u_r234(r, &key, ID0);
            // the user password opens the document as owner; the empty password does not
            assert_eq!(auth_owner_r234(r, n, b"secret", &o, &u, P, ID0, true), Some(key));
            assert_eq!(auth_owner_r234(r, n, b"", &o, &u, P, ID0, true), None);
        }
    }

    fn roundtrip_r56(r: u8, user: &[u8], owner: &[u8], em: bool) {
        let fk: [u8; 32] = bytes(r);
        let (u, ue) = compute_u_ue_r56(r, user, &fk, &bytes(1), &bytes(2));
        let (o, oe) = compute_o_oe_r56(r, owner, &fk, &u, &bytes(3), &bytes(4));
        let perms = compute_perms(&fk, P, em, *b"rand");
        assert_eq!((&u[32..40], &u[40..48]), (&bytes::<8>(1)[..], &bytes::<8>(2)[..]));
        assert_eq!((&o[32..40], &o[40..48]), (&bytes::<8>(3)[..], &bytes::<8>(4)[..]));
        assert_eq!(auth_r56(r, owner, &o, &u, &oe, &ue), Some((Who::Owner, fk.to_vec())), "owner R{}", r);
        if user != owner {
            assert_eq!(auth_r56(r, user, &o, &u, &oe, &ue), Some((Who::User, fk.to_vec())), "user R{}", r);
        }
        assert_eq!(auth_r56(r, b"wrong", &o, &u, &oe, &ue), None);
        // O/U padded with zeros to 127 bytes (seen in the wild) still work; short values do not
        let mut o127 = o.to_vec();
        o127.resize(127, 0);
        let mut u127 = u.to_vec();
        u127.resize(127, 0);
        assert_eq!(auth_r56(r, owner, &o127, &u127, &oe, &ue), Some((Who::Owner, fk.to_vec())));
        assert_eq!(auth_r56(r, owner, &o[..47], &u, &oe, &ue), None);
        assert_eq!(auth_r56(r, owner, &o, &u, &oe[..31], &ue), None);
        // Perms
        assert!(validate_perms(&fk, &perms, P, em));
        assert!(!validate_perms(&fk, &perms, P + 1, em));
        assert!(!validate_perms(&fk, &perms, P, !em));
        assert!(!validate_perms(&bytes::<32>(99), &perms, P, em));
        assert!(!validate_perms(&fk[..16], &perms, P, em));
        assert!(!validate_perms(&fk, &perms[..15], P, em));
        assert_eq!(compute_perms(&fk, P, em, *b"rand").len(), 16);
        assert_ne!(compute_perms(&fk, P, em, *b"rand"), compute_perms(&fk, P, em, *b"RAND"));
        assert!(validate_perms(&fk, &compute_perms(&fk, P, em, *b"RAND"), P, em));
    }

    #[test]
    fn self_consistency_r5() {
        roundtrip_r56(5, b"user", b"owner", true);
        roundtrip_r56(5, b"", b"owner", false);
        roundtrip_r56(5, b"same", b"same", true);
        // R5 hash is plain SHA-256 of the concatenation
        assert_eq!(hash_r56(5, b"pw", b"12345678", Some(&[9u8; 48])), sha256(&[&b"pw12345678"[..], &[9u8; 48]].concat()));
    }

    #[test]
    fn self_consistency_r6() {
        roundtrip_r56(6, b"user", b"owner", true);
        roundtrip_r56(6, b"", b"owner", false);
        roundtrip_r56(6, "p\u{e4}ssw\u{f6}rd \u{1F512}".as_bytes(), b"owner", true);
        assert_ne!(hash_r56(6, b"pw", b"12345678", None), hash_r56(5, b"pw", b"12345678", None));
    }

    #[test]
    fn r56_passwords_are_truncated_to_127_bytes() {
        for r in [5u8, 6] {
            let fk: [u8; 32] = bytes(7);
            let long = [b'z'; 140];
            let (u, ue) = compute_u_ue_r56(r, &long, &fk, &bytes(1), &bytes(2));
            let (o, oe) = compute_o_oe_r56(r, &long, &fk, &u, &bytes(3), &bytes(4));
            assert_eq!(u, compute_u_ue_r56(r, &long[..127], &fk, &bytes(1), &bytes(2)).0);
            assert_eq!(auth_r56(r, &long[..127], &o, &u, &oe, &ue), Some((Who::Owner, fk.to_vec())));
            assert_eq!(auth_r56(r, &long[..130], &o, &u, &oe, &ue), Some((Who::Owner, fk.to_vec())));
            assert_eq!(auth_r56(r, &long[..126], &o, &u, &oe, &ue), None);
        }
    }

    #[test]
    fn alg_2b_runs_at_least_64_rounds() {
        let mut seen = std::collections::BTreeSet::new();
        for i in 0..24u8 {
            let pw = [b'a' + i % 26, i];
            let udata = [i; 48];
            let u48 = if i % 2 == 0 { None } else { Some(&udata[..]) };
            let (h, rounds) = hash_2b_with_rounds(&pw, &bytes::<8>(i), u48);
            assert!(rounds >= 64, "rounds = {}", rounds);
            assert!(rounds < 64 + 256 - 32, "rounds = {}", rounds);
            assert_eq!(h, hash_r56(6, &pw, &bytes::<8>(i), u48));
            seen.insert(rounds);
        }
        assert!(seen.len() > 1, "the round count is data dependent");
        // the first 64 rounds never look at the stop condition: the minimum over many inputs is close to 64
        assert!(*seen.iter().next().unwrap() <= 70);
    }

    #[test]
    fn object_keys() {
        let k5 = [1u8, 2, 3, 4, 5];
        let k16: [u8; 16] = bytes(3);
        assert_eq!(object_key(&k5, 1, 0, false).len(), 10);
        assert_eq!(object_key(&k16, 1, 0, false).len(), 16);
        assert_eq!(object_key(&k16[..13], 1, 0, false).len(), 16);
        assert_eq!(object_key(&k5, 0x0a0b0c, 0x0102, false)[..], md5(&[1, 2, 3, 4, 5, 0x0c, 0x0b, 0x0a, 0x02, 0x01])[..10]);
        assert_eq!(
            object_key(&k5, 0x0a0b0c, 0x0102, true)[..],
            md5(&[1, 2, 3, 4, 5, 0x0c, 0x0b, 0x0a, 0x02, 0x01, 0x73, 0x41, 0x6c, 0x54])[..10]
        );
        assert_ne!(object_key(&k16, 7, 0, false), object_key(&k16, 7, 0, true));
        assert_ne!(object_key(&k16, 7, 0, false), object_key(&k16, 8, 0, false));
        assert_ne!(object_key(&k16, 7, 0, false), object_key(&k16, 7, 1, false));
        // only the low 24 bits of the object number are used
        assert_eq!(object_key(&k16, 7, 0, false), object_key(&k16, 7 | 0x0100_0000, 0, false));
    }

    #[test]
    fn data_round_trips_for_every_cipher() {
        let fk16: [u8; 16] = bytes(11);
        let fk32: [u8; 32] = bytes(12);
        let iv: [u8; 16] = bytes(13);
        for len in [0usize, 1, 15, 16, 17, 31, 32, 100] {
            let plain: Vec<u8> = (0..len).map(|i| (i * 3 + 1) as u8).collect();
            for (cipher, fk) in [
                (Cipher::Identity, &fk16[..]),
                (Cipher::Rc4, &fk16[..5]),
                (Cipher::Rc4, &fk16[..]),
                (Cipher::AesV2, &fk16[..]),
                (Cipher::AesV3, &fk32[..]),
            ] {
                let ct = encrypt_data(cipher, fk, 12, 3, &iv, &plain);
                match cipher {
                    Cipher::Identity => assert_eq!(ct, plain),
                    Cipher::Rc4 => assert_eq!(ct.len(), len),
                    _ => {
                        assert_eq!(&ct[..16], &iv[..]);
                        assert_eq!(ct.len(), 16 + (len / 16 + 1) * 16);
                    }
                }
                assert_eq!(decrypt_data(cipher, fk, 12, 3, &ct), Some(plain.clone()), "{:?} len {}", cipher, len);
                if cipher != Cipher::Identity && len > 0 {
                    assert_ne!(ct, plain);
                }
                // AESV3 has no per-object key; the others do
                if cipher == Cipher::AesV2 || (cipher == Cipher::Rc4 && len > 0) {
                    assert_ne!(decrypt_data(cipher, fk, 13, 3, &ct), Some(plain.clone()));
                } else {
                    assert_eq!(decrypt_data(cipher, fk, 13, 3, &ct), Some(plain.clone()));
                }
            }
        }
    }

    #[test]
    fn aes_decrypt_rejects_bad_length_and_padding() {
        let fk16: [u8; 16] = bytes(11);
        let fk32: [u8; 32] = bytes(12);
        let iv: [u8; 16] = bytes(13);
        for (cipher, fk) in [(Cipher::AesV2, &fk16[..]), (Cipher::AesV3, &fk32[..])] {
            let ct = encrypt_data(cipher, fk, 1, 0, &iv, b"hello world");
            assert_eq!(ct.len(), 32);
            assert_eq!(decrypt_data(cipher, fk, 1, 0, &[]), None);
            assert_eq!(decrypt_data(cipher, fk, 1, 0, &ct[..16]), None, "IV only");
            assert_eq!(decrypt_data(cipher, fk, 1, 0, &ct[..31]), None);
            let mut longer = ct.clone();
            longer.push(0);
            assert_eq!(decrypt_data(cipher, fk, 1, 0, &longer), None);
            // raw block whose padding byte is 0: invalid
            let key = if cipher == Cipher::AesV2 { object_key(fk, 1, 0, true) } else { fk.to_vec() };
            let bad = [&iv[..], &super::super::aes::aes_cbc_encrypt_nopad(&key, &iv, &[0u8; 16])].concat();
            assert_eq!(decrypt_data(cipher, fk, 1, 0, &bad), None);
        }
        assert_eq!(decrypt_data(Cipher::AesV3, &fk16, 1, 0, &[0u8; 32]), None);
        assert_eq!(decrypt_data(Cipher::AesV2, &fk16[..5], 1, 0, &[0u8; 32]), None);
    }

    // Known answers produced by gen/secvec.py: an independent transcription of the same algorithms in Python
    // on top of hashlib and the openssl command line (no code shared with this crate).
    #[test]
    fn python_known_answers_r234() {
        // (r, n, em, O, key, U)
        let v: &[(u8, usize, bool, &str, &str, &str)] = &[
            (2, 5, true, "94e8094419662a774442fb072e3d9f19e9d130ec09a4d0061e78fe920f7ab62f", "be089403e7", "5dd5b12ea73bb71988f055e45aedfebb7cbafc6b6997cebdeafc78352adf6047"),
            (3, 5, true, "3c482162008fafcb228b7db3c43a1090bc5b56e9b1556e89fc0656fd291f4908", "07a916f4c5", "8817842b0c809e253a80c67cab0780e600000000000000000000000000000000"),
            (3, 16, true, "0ba3835f88f90388e74e54584125ce142be0de24c6b0d37746e075b891756671", "ea74a7ea1cf671bfe26fdce87ce05f57", "95cb32697dc1d6517e212e989018905a00000000000000000000000000000000"),
            (3, 9, true, "e060a9d28ab57e0f3a83d965c11880e16dc5e1ac6a6726026ec5085459230381", "0253781cb2c8e55ac3", "b24432740c9c0a32f8694a15bb7e503400000000000000000000000000000000"),
            (4, 16, true, "0ba3835f88f90388e74e54584125ce142be0de24c6b0d37746e075b891756671", "ea74a7ea1cf671bfe26fdce87ce05f57", "95cb32697dc1d6517e212e989018905a00000000000000000000000000000000"),
            (4, 16, false, "0ba3835f88f90388e74e54584125ce142be0de24c6b0d37746e075b891756671", "ee3674a82820b2cf647fe66e12883c6a", "cd2d54347056dc4665eead7b5c3d4bf800000000000000000000000000000000"),
        ];
        assert!(v.len() >= 4);
        for (r, n, em, o, key, u) in v {
            let o_calc = compute_o_r234(*r, *n, b"owner", b"user");
            assert_eq!(hex(&o_calc), *o, "O R{}", r);
            let k = file_key_r234(*r, *n, b"user", &o_calc, P, ID0, *em);
            assert_eq!(hex(&k), *key, "key R{}", r);
            assert_eq!(hex(&compute_u_r234(*r, &k, ID0)), *u, "U R{}", r);
            assert_eq!(auth_owner_r234(*r, *n, b"owner", &unhex(o), &unhex(u), P, ID0, *em), Some(k));
        }
    }

    #[test]
    fn python_known_answers_r6() {
        // (password, salt, u48 or "", hash, rounds)
        let h: &[(&str, &str, &str, &str, u32)] = &[
            ("", "0001020304050607", "", "1403c04eb647d2e60452dfc4eb0a5e0cf322e8a83a759eabbd17d498a93ba041", 64),
            ("70617373776f7264", "73616c7473616c74", "", "740e2b0a0001ed6b0f587d85f7f61bbd555a36cee3857d5da145243b202112b7", 64),
            ("6f776e6572", "08090a0b0c0d0e0f", "6465666768696a6b6c6d6e6f707172737475767778797a7b7c7d7e7f808182838485868788898a8b8c8d8e8f90919293", "67640e54f613e4bd5e85300907d335d243062722b84406eea585dced64dac7ea", 67),
            ("70c3a4737320f09f9492", "ffffffffffffffff", "000000000000000000000000000000000000000000000000000000000000000000000000000000000000000000000000", "672c1c698300235d80e825f892efbcf06ac204775f4e976ee4145f114af2e4c4", 70),
            ("78787878787878787878787878787878787878787878787878787878787878787878787878787878787878787878787878787878787878787878787878787878787878787878787878787878787878787878787878787878787878787878787878787878787878787878787878787878787878787878787878787878787878", "3132333435363738", "aaaaaaaaaaaaaaaaaaaaaaaaaaaaaaaaaaaaaaaaaaaaaaaaaaaaaaaaaaaaaaaaaaaaaaaaaaaaaaaaaaaaaaaaaaaaaaaa", "17534ec22e5f175b59d9cbd44202b4962c3deb3218b64a38ebcd5dd178f69fb6", 67),
        ];
        assert!(h.len() >= 4);
        for (pw, salt, u48, hash, rounds) in h {
            let u = unhex(u48);
            let got = hash_2b_with_rounds(&unhex(pw), &unhex(salt), if u.is_empty() { None } else { Some(&u) });
            assert_eq!((hex(&got.0), got.1), (hash.to_string(), *rounds));
        }
        // (r, file key, U, UE, O, OE, Perms) for user "user", owner "owner", salts 01.., P, em = true, tail "abcd"
        let v: &[(u8, &str, &str, &str, &str, &str, &str)] = &[
            (5, "030a11181f262d343b424950575e656c737a81888f969da4abb2b9c0c7ced5dc", "ad7c98e251cb1c7b3e2830b6f0becbd8352a6ab712232d6e82f2fca45f304dcc01020304050607081112131415161718", "5f1b2c65d015d38ee33b378eac5d3a1f93351d7435b772d33f246639a31fab0f", "2771877bdc4e534cc30f6538a3fadf323430c974e379860da52d2bad9401a27021222324252627283132333435363738", "35c793ed751bd3d216a305f6ea3313717ca4c6db351351214126486117c66cbf", "30927286c0c717b3b4c689ac7a755e88"),
            (6, "030a11181f262d343b424950575e656c737a81888f969da4abb2b9c0c7ced5dc", "17424b40ead366f7ddef0ff073608aa68ba701714b5cef3409b94c4ffa76372601020304050607081112131415161718", "fae038831f3e7f09effdcb3ad005d8f859d5d34ba7bb5f5011818c7a98c50810", "7e1314d50a58a555c4f7b9cf875a1981c87fca8fcde1587f76a28fcfdf5e00d321222324252627283132333435363738", "b85f00ff7c9e8390a97cbc654861766f8905d74b4745a57cafdbd740d6cbb751", "30927286c0c717b3b4c689ac7a755e88"),
        ];
        assert_eq!(v.len(), 2);
        for (r, fk, u, ue, o, oe, perms) in v {
            let fk = to32(&unhex(fk));
            let (uc, uec) = compute_u_ue_r56(*r, b"user", &fk, b"\x01\x02\x03\x04\x05\x06\x07\x08", b"\x11\x12\x13\x14\x15\x16\x17\x18");
            let (oc, oec) = compute_o_oe_r56(*r, b"owner", &fk, &uc, b"\x21\x22\x23\x24\x25\x26\x27\x28", b"\x31\x32\x33\x34\x35\x36\x37\x38");
            assert_eq!((hex(&uc), hex(&uec)), (u.to_string(), ue.to_string()), "U/UE R{}", r);
            assert_eq!((hex(&oc), hex(&oec)), (o.to_string(), oe.to_string()), "O/OE R{}", r);
            assert_eq!(hex(&compute_perms(&fk, P, true, *b"abcd")), *perms);
            assert_eq!(auth_r56(*r, b"user", &unhex(o), &unhex(u), &unhex(oe), &unhex(ue)), Some((Who::User, fk.to_vec())));
            assert_eq!(auth_r56(*r, b"owner", &unhex(o), &unhex(u), &unhex(oe), &unhex(ue)), Some((Who::Owner, fk.to_vec())));
        }
    }

    #[test]
    fn python_known_answers_data() {
        // (cipher, file key, num, generation, iv, plaintext, ciphertext)
        let v: &[(Cipher, &str, u32, u16, &str, &str, &str)] = &[
            (Cipher::Rc4, "0908070605", 1, 0, "a0a1a2a3a4a5a6a7a8a9aaabacadaeaf", "54686520717569636b2062726f776e20666f78206a756d7073206f76657220746865206c617a7920646f672e", "eadfdd978dffe31f80c5aa2a628157a2e2b4c2e69e12944a189a1f692078a0d8633b7ac9550665e5ef511ce0"),
            (Cipher::Rc4, "404142434445464748494a4b4c4d4e4f", 70000, 2, "a0a1a2a3a4a5a6a7a8a9aaabacadaeaf", "54686520717569636b2062726f776e20666f78206a756d7073206f76657220746865206c617a7920646f672e", "233e50bd2a1070854a6b0a805163c74567265507c836da9a9b417b15e4e3afc8687024cfeee359ac8a4036f6"),
            (Cipher::Rc4, "404142434445464748494a4b4c4d4e4f", 5, 0, "a0a1a2a3a4a5a6a7a8a9aaabacadaeaf", "", ""),
            (Cipher::AesV2, "404142434445464748494a4b4c4d4e4f", 70000, 2, "a0a1a2a3a4a5a6a7a8a9aaabacadaeaf", "54686520717569636b2062726f776e20666f78206a756d7073206f76657220746865206c617a7920646f672e", "a0a1a2a3a4a5a6a7a8a9aaabacadaeaf60e083734faa413bbbe7b873576a310015a6c777f69071595cc68a6d6ea79c3b3aa5c642ff98b9fc1a4422da50ccf157"),
            (Cipher::AesV2, "404142434445464748494a4b4c4d4e4f", 12, 65535, "a0a1a2a3a4a5a6a7a8a9aaabacadaeaf", "", "a0a1a2a3a4a5a6a7a8a9aaabacadaeaf2c87d04c61036edde51669e153ddefac"),
            (Cipher::AesV2, "404142434445464748494a4b4c4d4e4f", 3, 0, "a0a1a2a3a4a5a6a7a8a9aaabacadaeaf", "54686520717569636b2062726f776e20", "a0a1a2a3a4a5a6a7a8a9aaabacadaeaf53d06daa680c6674e6deeb0e94e30cf202d5ff959246a4c1e237e3e61ed5dcea"),
            (Cipher::AesV2, "404142434445464748494a", 3, 0, "a0a1a2a3a4a5a6a7a8a9aaabacadaeaf", "54686520717569", "a0a1a2a3a4a5a6a7a8a9aaabacadaeaf67d5aec31152517a1aa77499a869d4a6"),
            (Cipher::AesV3, "030a11181f262d343b424950575e656c737a81888f969da4abb2b9c0c7ced5dc", 70000, 2, "a0a1a2a3a4a5a6a7a8a9aaabacadaeaf", "54686520717569636b2062726f776e20666f78206a756d7073206f76657220746865206c617a7920646f672e", "a0a1a2a3a4a5a6a7a8a9aaabacadaeafcd916cd17fcff1cac28a1f01439093dd75bbb3695f2c9cdcd32f9c65871e1b801e9fbe466afd29ddaa3bfc62886dacc5"),
            (Cipher::AesV3, "030a11181f262d343b424950575e656c737a81888f969da4abb2b9c0c7ced5dc", 1, 0, "a0a1a2a3a4a5a6a7a8a9aaabacadaeaf", "", "a0a1a2a3a4a5a6a7a8a9aaabacadaeafa2aacdfab2a302d352e7284656e6dbca"),
            (Cipher::AesV3, "030a11181f262d343b424950575e656c737a81888f969da4abb2b9c0c7ced5dc", 9, 9, "a0a1a2a3a4a5a6a7a8a9aaabacadaeaf", "54686520717569636b2062726f776e20666f78206a756d7073206f7665722074", "a0a1a2a3a4a5a6a7a8a9aaabacadaeafcd916cd17fcff1cac28a1f01439093dd75bbb3695f2c9cdcd32f9c65871e1b805d16d64114c50db3646fd8dea6b523cd"),
        ];
        assert!(v.len() >= 4);
        for (c, fk, num, generation, iv, p, ct) in v {
            let mut ivb = [0u8; 16];
            ivb.copy_from_slice(&unhex(iv));
            assert_eq!(hex(&encrypt_data(*c, &unhex(fk), *num, *generation, &ivb, &unhex(p))), *ct, "{:?}", c);
            assert_eq!(decrypt_data(*c, &unhex(fk), *num, *generation, &unhex(ct)), Some(unhex(p)), "{:?}", c);
        }
    }
}
