//! REF-SEC — independent reference implementation of the standard security handler (ISO 32000 Algorithms 1–13)
//! over own primitives (MD5, SHA-2, AES, RC4), each with known-answer tests. Written from the specification
//! (DESIGN.md Appendix A.1), never from lopdf's source.
pub mod aes;
pub mod md5;
pub mod rc4;
pub mod sec;
pub mod sha2;
