//! SHA-256, SHA-384, SHA-512 (FIPS 180-4). std only.

const K256: [u32; 64] = [
    0x428a2f98, 0x71374491, 0xb5c0fbcf, 0xe9b5dba5, 0x3956c25b, 0x59f111f1, 0x923f82a4, 0xab1c5ed5,
    0xd807aa98, 0x12835b01, 0x243185be, 0x550c7dc3, 0x72be5d74, 0x80deb1fe, 0x9bdc06a7, 0xc19bf174,
    0xe49b69c1, 0xefbe4786, 0x0fc19dc6, 0x240ca1cc, 0x2de92c6f, 0x4a7484aa, 0x5cb0a9dc, 0x76f988da,
    0x983e5152, 0xa831c66d, 0xb00327c8, 0xbf597fc7, 0xc6e00bf3, 0xd5a79147, 0x06ca6351, 0x14292967,
    0x27b70a85, 0x2e1b2138, 0x4d2c6dfc, 0x53380d13, 0x650a7354, 0x766a0abb, 0x81c2c92e, 0x92722c85,
    0xa2bfe8a1, 0xa81a664b, 0xc24b8b70, 0xc76c51a3, 0xd192e819, 0xd6990624, 0xf40e3585, 0x106aa070,
    0x19a4c116, 0x1e376c08, 0x2748774c, 0x34b0bcb5, 0x391c0cb3, 0x4ed8aa4a, 0x5b9cca4f, 0x682e6ff3,
    0x748f82ee, 0x78a5636f, 0x84c87814, 0x8cc70208, 0x90befffa, 0xa4506ceb, 0xbef9a3f7, 0xc67178f2,
];
const H256: [u32; 8] = [0x6a09e667, 0xbb67ae85, 0x3c6ef372, 0xa54ff53a, 0x510e527f, 0x9b05688c, 0x1f83d9ab, 0x5be0cd19];

const K512: [u64; 80] = [
    0x428a2f98d728ae22, 0x7137449123ef65cd, 0xb5c0fbcfec4d3b2f, 0xe9b5dba58189dbbc,
    0x3956c25bf348b538, 0x59f111f1b605d019, 0x923f82a4af194f9b, 0xab1c5ed5da6d8118,
    0xd807aa98a3030242, 0x12835b0145706fbe, 0x243185be4ee4b28c, 0x550c7dc3d5ffb4e2,
    0x72be5d74f27b896f, 0x80deb1fe3b1696b1, 0x9bdc06a725c71235, 0xc19bf174cf692694,
    0xe49b69c19ef14ad2, 0xefbe4786384f25e3, 0x0fc19dc68b8cd5b5, 0x240ca1cc77ac9c65,
    0x2de92c6f592b0275, 0x4a7484aa6ea6e483, 0x5cb0a9dcbd41fbd4, 0x76f988da831153b5,
    0x983e5152ee66dfab, 0xa831c66d2db43210, 0xb00327c898fb213f, 0xbf597fc7beef0ee4,
    0xc6e00bf33da88fc2, 0xd5a79147930aa725, 0x06ca6351e003826f, 0x142929670a0e6e70,
    0x27b70a8546d22ffc, 0x2e1b21385c26c926, 0x4d2c6dfc5ac42aed, 0x53380d139d95b3df,
    0x650a73548baf63de, 0x766a0abb3c77b2a8, 0x81c2c92e47edaee6, 0x92722c851482353b,
    0xa2bfe8a14cf10364, 0xa81a664bbc423001, 0xc24b8b70d0f89791, 0xc76c51a30654be30,
    0xd192e819d6ef5218, 0xd69906245565a910, 0xf40e35855771202a, 0x106aa07032bbd1b8,
    0x19a4c116b8d2d0c8, 0x1e376c085141ab53, 0x2748774cdf8eeb99, 0x34b0bcb5e19b48a8,
    0x391c0cb3c5c95a63, 0x4ed8aa4ae3418acb, 0x5b9cca4f7763e373, 0x682e6ff3d6b2b8a3,
    0x748f82ee5defb2fc, 0x78a5636f43172f60, 0x84c87814a1f0ab72, 0x8cc702081a6439ec,
    0x90befffa23631e28, 0xa4506cebde82bde9, 0xbef9a3f7b2c67915, 0xc67178f2e372532b,
    0xca273eceea26619c, 0xd186b8c721c0c207, 0xeada7dd6cde0eb1e, 0xf57d4f7fee6ed178,
    0x06f067aa72176fba, 0x0a637dc5a2c898a6, 0x113f9804bef90dae, 0x1b710b35131c471b,
    0x28db77f523047d84, 0x32caab7b40c72493, 0x3c9ebe0a15c9bebc, 0x431d67c49c100d4c,
    0x4cc5d4becb3e42b6, 0x597f299cfc657e2a, 0x5fcb6fab3ad6faec, 0x6c44198c4a475817,
];
const H512: [u64; 8] = [
    0x6a09e667f3bcc908, 0xbb67ae8584caa73b, 0x3c6ef372fe94f82b, 0xa54ff53a5f1d36f1,
    0x510e527fade682d1, 0x9b05688c2b3e6c1f, 0x1f83d9abfb41bd6b, 0x5be0cd19137e2179,
];
const H384: [u64; 8] = [
    0xcbbb9d5dc1059ed8, 0x629a292a367cd507, 0x9159015a3070dd17, 0x152fecd8f70e5939,
    0x67332667ffc00b31, 0x8eb44a8768581511, 0xdb0c2e0d64f98fa7, 0x47b5481dbefa4fa4,
];

/// Message ‖ 0x80 ‖ zeros ‖ big-endian bit length in `len_bytes` bytes, padded to a multiple of `block`.
fn padded_tail(data: &[u8], block: usize, len_bytes: usize) -> Vec<u8> {
    let mut tail = data[data.len() - data.len() % block..].to_vec();
    tail.push(0x80);
    while tail.len() % block != block - len_bytes {
        tail.push(0);
    }
    let bits = (data.len() as u128) * 8;
    tail.extend_from_slice(&bits.to_be_bytes()[16 - len_bytes..]);
    tail
}

fn compress256(h: &mut [u32; 8], blk: &[u8]) {
    let mut w = [0u32; 64];
    for t in 0..16 {
        w[t] = u32::from_be_bytes([blk[4 * t], blk[4 * t + 1], blk[4 * t + 2], blk[4 * t + 3]]);
    }
    for t in 16..64 {
        let s0 = w[t - 15].rotate_right(7) ^ w[t - 15].rotate_right(18) ^ (w[t - 15] >> 3);
        let s1 = w[t - 2].rotate_right(17) ^ w[t - 2].rotate_right(19) ^ (w[t - 2] >> 10);
        w[t] = w[t - 16].wrapping_add(s0).wrapping_add(w[t - 7]).wrapping_add(s1);
    }
    let [mut a, mut b, mut c, mut d, mut e, mut f, mut g, mut hh] = *h;
    for t in 0..64 {
        let big1 = e.rotate_right(6) ^ e.rotate_right(11) ^ e.rotate_right(25);
        let ch = (e & f) ^ (!e & g);
        let t1 = hh.wrapping_add(big1).wrapping_add(ch).wrapping_add(K256[t]).wrapping_add(w[t]);
        let big0 = a.rotate_right(2) ^ a.rotate_right(13) ^ a.rotate_right(22);
        let maj = (a & b) ^ (a & c) ^ (b & c);
        let t2 = big0.wrapping_add(maj);
        hh = g;
        g = f;
        f = e;
        e = d.wrapping_add(t1);
        d = c;
        c = b;
        b = a;
        a = t1.wrapping_add(t2);
    }
    for (s, v) in h.iter_mut().zip([a, b, c, d, e, f, g, hh]) {
        *s = s.wrapping_add(v);
    }
}

fn compress512(h: &mut [u64; 8], blk: &[u8]) {
    let mut w = [0u64; 80];
    for t in 0..16 {
        let mut x = [0u8; 8];
        x.copy_from_slice(&blk[8 * t..8 * t + 8]);
        w[t] = u64::from_be_bytes(x);
    }
    for t in 16..80 {
        let s0 = w[t - 15].rotate_right(1) ^ w[t - 15].rotate_right(8) ^ (w[t - 15] >> 7);
        let s1 = w[t - 2].rotate_right(19) ^ w[t - 2].rotate_right(61) ^ (w[t - 2] >> 6);
        w[t] = w[t - 16].wrapping_add(s0).wrapping_add(w[t - 7]).wrapping_add(s1);
    }
    let [mut a, mut b, mut c, mut d, mut e, mut f, mut g, mut hh] = *h;
    for t in 0..80 {
        let big1 = e.rotate_right(14) ^ e.rotate_right(18) ^ e.rotate_right(41);
        let ch = (e & f) ^ (!e & g);
        let t1 = hh.wrapping_add(big1).wrapping_add(ch).wrapping_add(K512[t]).wrapping_add(w[t]);
        let big0 = a.rotate_right(28) ^ a.rotate_right(34) ^ a.rotate_right(39);
        let maj = (a & b) ^ (a & c) ^ (b & c);
        let t2 = big0.wrapping_add(maj);
        hh = g;
        g = f;
        f = e;
        e = d.wrapping_add(t1);
        d = c;
        c = b;
        b = a;
        a = t1.wrapping_add(t2);
    }
    for (s, v) in h.iter_mut().zip([a, b, c, d, e, f, g, hh]) {
        *s = s.wrapping_add(v);
    }
}

fn sha512_core(init: [u64; 8], data: &[u8]) -> [u8; 64] {
    let mut h = init;
    for blk in data.chunks_exact(128) {
        compress512(&mut h, blk);
    }
    for blk in padded_tail(data, 128, 16).chunks_exact(128) {
        compress512(&mut h, blk);
    }
    let mut out = [0u8; 64];
    for (i, w) in h.iter().enumerate() {
        out[8 * i..8 * i + 8].copy_from_slice(&w.to_be_bytes());
    }
    out
}

pub fn sha256(data: &[u8]) -> [u8; 32] {
    let mut h = H256;
    for blk in data.chunks_exact(64) {
        compress256(&mut h, blk);
    }
    for blk in padded_tail(data, 64, 8).chunks_exact(64) {
        compress256(&mut h, blk);
    }
    let mut out = [0u8; 32];
    for (i, w) in h.iter().enumerate() {
        out[4 * i..4 * i + 4].copy_from_slice(&w.to_be_bytes());
    }
    out
}

pub fn sha384(data: &[u8]) -> [u8; 48] {
    let full = sha512_core(H384, data);
    let mut out = [0u8; 48];
    out.copy_from_slice(&full[..48]);
    out
}

pub fn sha512(data: &[u8]) -> [u8; 64] {
    sha512_core(H512, data)
}

#[cfg(test)]
mod tests {
    use super::*;

    fn hex(b: &[u8]) -> String {
        b.iter().map(|x| format!("{:02x}", x)).collect()
    }
    /// Deterministic test message i of length len (same formula as in gen/hashvec.py).
    fn msg(i: usize, len: usize) -> Vec<u8> {
        (0..len).map(|j| (i * 31 + j * 7 + (j >> 3) * 13 + 5) as u8).collect()
    }
    fn check(v: &[(usize, &str)], f: &dyn Fn(&[u8]) -> String) {
        assert!(v.len() >= 30);
        for (i, (len, h)) in v.iter().enumerate() {
            assert_eq!(f(&msg(i, *len)), *h, "vector {} len {}", i, len);
        }
    }

    #[test]
    fn fips_examples() {
        assert_eq!(hex(&sha256(b"")), "e3b0c44298fc1c149afbf4c8996fb92427ae41e4649b934ca495991b7852b855");
        assert_eq!(hex(&sha256(b"abc")), "ba7816bf8f01cfea414140de5dae2223b00361a396177a9cb410ff61f20015ad");
        assert_eq!(
            hex(&sha256(b"abcdbcdecdefdefgefghfghighijhijkijkljklmklmnlmnomnopnopq")),
            "248d6a61d20638b8e5c026930c3e6039a33ce45964ff2167f6ecedd419db06c1"
        );
        assert_eq!(hex(&sha384(b"")), "38b060a751ac96384cd9327eb1b1e36a21fdb71114be07434c0cc7bf63f6e1da274edebfe76f65fbd51ad2f14898b95b");
        assert_eq!(hex(&sha384(b"abc")), "cb00753f45a35e8bb5a03d699ac65007272c32ab0eded1631a8b605a43ff5bed8086072ba1e7cc2358baeca134c825a7");
        assert_eq!(
            hex(&sha512(b"")),
            "cf83e1357eefb8bdf1542850d66d8007d620e4050b5715dc83f4a921d36ce9ce47d0d13c5d85f2b0ff8318d2877eec2f63b931bd47417a81a538327af927da3e"
        );
        assert_eq!(
            hex(&sha512(b"abc")),
            "ddaf35a193617abacc417349ae20413112e6fa4e89a97ea20a9eeee64b55d39a2192992a274fc1a836ba3c23a3feebbd454d4423643ce80e2a9ac94fa54ca49f"
        );
    }

    #[test]
    fn million_a() {
        let m = vec![b'a'; 1_000_000];
        assert_eq!(hex(&sha256(&m)), "cdc76e5c9914fb9281a1c7e284d73e67f1809a48a497200e046d39ccc7112cd0");
        assert_eq!(hex(&sha384(&m)), "9d0e1809716474cb086e834e310a4a1ced149e9c00f248527972cec5704c2a5b07b8b3dc38ecc4ebae97ddd87f3d8985");
        assert_eq!(
            hex(&sha512(&m)),
            "e718483d0ce769644e2e42c7bc15b4638e1f98b13b2044285632a803afa973ebde0ff244877ea60a4cb0432ce577c31beb009c5c2c49aa2e4eadb217ad8cc09b"
        );
    }

    // (length, digest hex) tables generated by gen/hashvec.py with python hashlib
    #[test]
    fn hashlib_cross_check_sha256() {
        let v: &[(usize, &str)] = &[
            (0, "e3b0c44298fc1c149afbf4c8996fb92427ae41e4649b934ca495991b7852b855"),
            (1, "09fc96082d34c2dfc1295d92073b5ea1dc8ef8da95f14dfded011ffb96d3e54b"),
            (55, "a59a0d30b6549d39e1e8d6b3876cd4b3256a7e17b2b670a0a9d28d06cbaa2559"),
            (56, "89e4f29be88a5834aa1699c85ce7f31bd548d9d9238189b8bddf2651a75d4f3a"),
            (63, "e28ad8f8d383a86c7a5d0c2f277671958fee1d006312ca8784b7e55aadaeb7e2"),
            (64, "95be24ba1b499f92b35c23fcf3e1b0bbddd25a1ef0c0c8204d68b9c00c1bdcaf"),
            (111, "8865f60c426499ee2989cc4cafd63759fc8b0430b4f99a1a22f3fd290a1efefa"),
            (112, "bcee19d69c8d89a2b158b02eb3ff61e588450c5d92570243c54a03423e6b779f"),
            (127, "e02b101c415e3495a4cfdc7c2992a63f87dcb5268c9f0ec100e89fa0cf9426fd"),
            (128, "59fb4913db3f97f4524aaf03e19044b1f3a2f3beab50cb13c46de488b2f0b17d"),
            (2, "c5d7c2332f9562ac6a551899980d4895641d72686e299d585aa7bd0ed6aa4ec8"),
            (9, "a277512ef48cf6231fe41dbdc1c4deab16c8ac6cd5a34233e3b011a1248cc9f7"),
            (14, "7d946189c27397b6ddff5120a101f80d04c8b66972ef2f03cfed0fab8d7db8d0"),
            (26, "b146107119f39482fc436422e66c7bed4363a2e8f60f10f8b4507113422ed5cb"),
            (29, "d13158e563b9c538d82cee74ecb382eda908a2328a896377367e85985db80662"),
            (54, "9870d6c9501411a57328a09365c2d15e7af4cb97e771e6ba72ca373025da7f7f"),
            (63, "d1d7861e7de342f4b9b987752338329ddaecb048741b6fac4ed8ca53a5bd1d93"),
            (65, "eb1ddc66045f6d5b34c4b97c3ea340a54bea3188df1238b181da795b899573a5"),
            (73, "5f6d51675262b41c2331bbc6903dccbe9d2ee3410a355af047f9b2fd1457178f"),
            (115, "b021c00b3e0de5cdd656600bf1aa31331ca740205d8f3479aac7f236cf727d9d"),
            (147, "54afd6ad38d5b918d13c2db723b134218c91717840692e620d723889bbe7434e"),
            (152, "0c3e5f9a5cb5ef5d85581e99c18ca4426a83da282f5b786ac96fc40be4be44d1"),
            (173, "fee077653a9d6467d60147a21526f97e65b3943b80e3b01ef9d900deae57afc1"),
            (192, "9dc61385e8b1abbb1c8089ac755e36acb00b228ac13d29bff5cf5e7f0ef4769f"),
            (198, "558c8c7d98b61703933e5a8e8775b11ec0d854ed076c50403dfc38bfdc10a0c7"),
            (243, "228fdb3e6fbed3e1dd419be1ae0113237f1a38bc0842b1ea7f65cbad8d32bf1a"),
            (254, "bb9b8b8f8dd7f54f640cd9f09a8947780d9b9d56092a28c3a9e0cd602848300e"),
            (261, "28e200c329584f0dbb197efa27dbce86009c4d57fed5b01fc20f1339c3430976"),
            (264, "d6cd3f04c84300f4f52a23355689386c70246b8a8ec2c2b9858533b8bd739d34"),
            (268, "41b00b7a3f31db8257233a404396ca95317cb7608d5b1d475bd5a4c7e021cdd2"),
        ];
        check(v, &|m| hex(&sha256(m)));
    }

    #[test]
    fn hashlib_cross_check_sha384() {
        let v: &[(usize, &str)] = &[
            (0, "38b060a751ac96384cd9327eb1b1e36a21fdb71114be07434c0cc7bf63f6e1da274edebfe76f65fbd51ad2f14898b95b"),
            (1, "b1583f4b2e1bf53fc31e9dfb8e8d945a62955da709f280a9066aa8f31ef688d65e0e9816a5f1f11363b3898820bd1576"),
            (55, "c8795881c21b3c66f330725811a1fd29fc5b3b0c7aacb71af4b869954dc75dac3db11b68922a1c650bc98e692d45a469"),
            (56, "cdb5283602c9b6f8fad4972d8c59c425e3e398831198aba3fedaade51fea29657140e10c09f386550d56fabce2192c40"),
            (63, "3f5d70ae70fe61e19808136c49c60b14db89965bbd8e4dbbc0897c6c4a7397c8878f821675505e071426533fb27e6d43"),
            (64, "3650bbce00479378baf654583d8f3a87dfb64af2e04eb454d8ab8375720833a677fa42a1b416624d44426e01a7065528"),
            (111, "a5bab599becebe66fa63ce817199f0700d56ab3c78172778ace8add79092b5cd407e8e3eaedb2204b19c3ad49c081c0a"),
            (112, "cb40829842b40817d8f11b7b1f171e59398121896ea6ece5663619315178f65466fbac65dc85342d85c51167b396f423"),
            (127, "4e836927e85a5e96e76f7607340aa96bafb0988cdb852e89a2d18edd67d4a56c443fd97f0990a7bf2a71373e8a292eee"),
            (128, "b373bed733c69fe711ab893f7c2ad193dfd03792d862a225c542683753aa7d82790e53db2109b7c4fa61118dced58935"),
            (2, "b90a5a9e4537c0f72c04a8debc8329aaa59d624f2a81d5fe9a25c9dc4db10ebc628909ecdd0986d8dfebcc97a9cee3f8"),
            (9, "1053c57740aec64b637506aa9b82eecb2fcad820c662c131f761453e7e2e1940860193b1c53982275fedb0d6eab673e1"),
            (14, "e2bad94fc79d985f2d5a9504f4dbe6daa43760204b1d4dfbead32e7a7cb0aef4f695da5e6f4e6b12c5ae7e4d65be8dfe"),
            (26, "36389d37455d1f10d2c18e768beebd98adf0f4783ec6ea08478ced9796799273789d572562cc4a06cbe1e8c9bf26e7af"),
            (29, "6bc4f68e1111596563d14c8a4b09539343abf78243a901a36074fbee67633298a1133d713739ded1f926bd59f0da45b4"),
            (54, "38d9568be93c91ce154f44057b11699987ab2864990a5a67b3012898c729836f81bf1d8c8fce96dad9d3a87848e76596"),
            (63, "d1996a72bdc242ca38dc93f6081a39262a415b0642cb46105581cc63ba0c44c4b9eb58db6ae657212b3b001451188159"),
            (65, "6796d8a0677f24120cb5250967385310fe59a984f9511cefa67ad0ca70c6e383e910e3cfcdd87851b128032476f91259"),
            (73, "3769539b7b7bad38f3303c01c99bbf13c401a0507399cc4e9fec45435177ea88d659b1085ab4a55f101a0b5db2512d92"),
            (115, "60dc3ea21e8ea37869560700882a62ccc6700b53528aefb880cdb8fb4130fee12405f915d90ea90aee90f7944924bcf6"),
            (147, "8df48e51236c24c785fe8a6861fe8c2c8033d63cf918a72aae23d00145e38b18fb2ba4e131007c3496d4cbf79a571ca8"),
            (152, "f692d5cf29c00fcda929d172a325a6389ff33c1bbea0dca0bade70677a4627f60649fb16ee97dcb951ccb5bb372d1cf2"),
            (173, "8594fec25a49217644882089bbb6ec3ca8782f011a231696b99f43729ee10235efa1047d7b56ac7a9f0bf0d1260a444b"),
            (192, "c998e5f7c479bf61c2c09c1b7ad0f8402e63451a77424c7cdc41048be0dbbc17e87f60919e2ae9ef311d6974947f1442"),
            (198, "192990461bd3e9e1aebc37a6f27b56c697d3548065c67faa8b2c9b8c7953bf6965c577d15f408e5796922011a85deafc"),
            (243, "858a23ec9db4f2a1bddffa091cf0715bcae1b6ad49b01fb1b94573d82ee75f900cde71602adc1401b87252b7650f65a3"),
            (254, "1d71d6d30dbcedf72f2dea6cdef4fae5c400c178b843ecf8b7dd633af188fe4c08967d816ddb74fb8b64820ff029b56d"),
            (261, "716c2309b4c6126b39a2d6baa045ed6e128e92c616be4d5d0111af7e4bd6973d3842ccf0ba2f82a21c0892742cd66507"),
            (264, "0f045d1280b1bb2a3b108c819695b3b56860350aa024c89b8574a1ccb20827de8abaa010a1d5a882c929f59c882ce6bd"),
            (268, "9e0156e7822dd85b1d875aa43cdc7e92f087c1cb2e391867d89440fd1b4188df4d514b9e505089b7e6e55f04c5ddceb6"),
        ];
        check(v, &|m| hex(&sha384(m)));
    }

    #[test]
    fn hashlib_cross_check_sha512() {
        let v: &[(usize, &str)] = &[
            (0, "cf83e1357eefb8bdf1542850d66d8007d620e4050b5715dc83f4a921d36ce9ce47d0d13c5d85f2b0ff8318d2877eec2f63b931bd47417a81a538327af927da3e"),
            (1, "840cfc6285878464c36c9aa819d8373729eda14c3e701fd37afec1d5baa2893944c696fc4017a520abfbb1347b62e6b858211d3ea7c7dd26319601fde119c3b4"),
            (55, "f18e42054f3bea022398d4f32cb75b49d3452cb02ad85fb35a175c206d59422a7c0f7cf5407e2c552cd952124224e57c06f26680c909704256de316d2c9aafad"),
            (56, "4bfc59a98f50f6f5cb5fd430ea6e80c4f1c7358c7d3903362cb622e8cd58ac61b53e173d462ef964356a000c6935d9d94dd3f7a339a2b0a46e39b6eec3bc28a7"),
            (63, "1e95175ee296d7db9ec8a648ed2418a6af7ee56108dcaefa40295e2435319ac4d609c5d65cfb08c0dbb558884de3b6585fec13603d7f88844f636adc28d1d78e"),
            (64, "49dca3bfe60fd41bef92f064002ec01f3c50fe79904569b6ac385fdc51b62924629a08eb092e7c7b16de210b01c2dfd6362e92ce9ac1265001cdccb5787a6121"),
            (111, "4f00603bee816c764441be5a7157e38cac257e20632369170fa6bba47b9b73cbba0a6162a4792efa1fc91b4224345166ac61216906674f859255a1c881d59247"),
            (112, "9a260fed28855d7e0252d2df56a3c42636542d7da532de6b3ecdb64044657b0cee73683d86b21c4e3b98cbca21c7727e853ece91830fead1832207557fb2e79d"),
            (127, "c001ba5c9056dc5e9d9f513b4e69dc8476311b06863f1d18859c109036e4893d70be3222f40bf613f5d1834df77345409e7bbc3ebae92ff01f867a85ab888741"),
            (128, "bb61dd710ce848237e69b70e50b6a7b1d3e019b192dc753fdd2401e84af98a018faa8d9a05680c99df298444b598da0272e1cf6fa48703ea9f08ca864c7b6e5c"),
            (2, "672cfa338b10eb2e8079c2f16ba92eaa97c1de144deb4d2baa87554634df05b791354b5fbfafd5fb7dee0bad02fa90a15fb8977d1d7f7a4a7f636d522139e30c"),
            (9, "25c23869ba364a58e914a7963114c0ba0139cd242f9c4b771519476dce9f900e4cf65236a3560a17617511a4163e765c0ad2fc1a666645ced7e9475415fb7c9b"),
            (14, "9142c134e68b06302d09e2617a847d4e161237b1838216f1b83f32133f3af91290f7e6883631e6eaf8ebc2ceac501e10d1b07fd2f4355ad4b7e5a2221ada64c5"),
            (26, "165f692893a079cd800eda124b0f642023cfdf1924f16d86eb6fe8cb2fdb48876d2d70feddd3c7629585e4ac9c631618c86f06b66fad1610b81e4284844c4d6d"),
            (29, "1eef21dc26fb9921b993317c5da1bac79691cc3d360ed393fe773dc348bb139c38e482daa10fc30410e127ec2689cb4806ff398457400af3c888fddb9dc8bda9"),
            (54, "8ed096fd9b3dc4c92afcb0dd52a9dad7ba1f3cca9c5fc451ea2e1681abbb28cbb054e607066b259e0009adcfa2e6a3d5ac24397d1bb3af09ec530092fbbdeaef"),
            (63, "e710eb0f1104150aeefa43975cd0369c2154dc1e016429cbfcd1781a008e525e62589acc03bcd9ede8a2a215f9286e974066ad151ecdaeb940cb6d8f63137f0d"),
            (65, "7934e751c6fc62643b854330bfc338f1293e3b95bc5a1bd4bc4ff1835a98d232966f5fddaf60dd000b616aa78ff38d37905e8efde391936be1f166fbd79a5444"),
            (73, "88b9872cc676e762f60eb1e942d13a13df14d157a4f6afbd8c1c2ee30d5bd3c3db16525ad71dc17f42ab5e6d09c7d4d8dbeb06e00fa8f6c682b31496c22baefa"),
            (115, "083fa5144b383aa8be6cf029548c1646b029c991c801d443a7c7ca3a1be9c69b0180b40aea28d4493d8496219d6685fc4a0a0adfa752c390d3a787cac1c29bb1"),
            (147, "b15ee322f2d296e1f766d75b61e06ee3632bbcade4a78b25c3791fd18bd7b91ba26725852ca478bf0d07c26d1fe114c2353315cf843f1f4a051c2ab7e2f462f1"),
            (152, "9b078ea8c39440eb10fb2b942fd66db0c7bf79282f501e2ffd6b88173222e7b3099e4ec688b88917eea120b325f830f634b32ac62c46fb1c453266e33cf3c273"),
            (173, "b8c8bdbb2932428a84410706ee1b074dd40da2af25cc96cd20a93891a0810711a6faf929dc8bfa95a15bc4396aee0b4bba259107ec231443650c52deec80f426"),
            (192, "e7912dec5f80e36675eea19e65b5321a26317e2ed6a303dd7fa3ed0631f4cb5ca1e8fad9a129e44f77c907979e181da2af87f58b0d5c4a0b03f0331086a4bf16"),
            (198, "8a1c05af5e212a5de5ec6c783efdfcf719f9a63490764d5a1400eca2d7366224fb26cd0035c19bc3676098a8d0a79ac017613563d53501653ffd1d3c59b87cca"),
            (243, "85a7794de5dd7ec96741ad2eb975d59c964479694ea1587fb5a4e60b807ca4427820f024e35ce2eb4644bd8a35794e8ff8713ef5b0dc14ac55ff52ff63aa79a6"),
            (254, "20d1aed74c0859dc5b2b41fd0ed55f17f4022ecef566ac7f1c1846ecc60b0d730bb046ec6c5de1bba12906b3c4058155660a9bc0ae0a667a20883cdec926ccc9"),
            (261, "c7f0a531fbf111b4227b07d24adaee64c707a9be2295a88532477bcbba49de8e7a7133c7670765b549aad7f2e143c66b57fcf09e09821be850ae2735d20c445c"),
            (264, "f34f0500c7dd95a7e3b47408a2765c434d0e1f3bce6b7e0857fb7d6b98e7a3a43980bbf49f05578d86cc3dc4596ec8611b5d1a44ff5f67c0cf0b4185a5784e73"),
            (268, "15c3910a11cf003dfbcdde88d9dbbd98c0519e10c803c5ecb284e4be5d669f25e438315393b278d18d2f3396b8660100aa9fdc860a17624a8e116d8aec2ac643"),
        ];
        check(v, &|m| hex(&sha512(m)));
    }
}
