//! AES-128 / AES-256 block cipher (FIPS 197) with ECB and CBC helpers. std only, table-light and slow on purpose.

const SBOX: [u8; 256] = [
    0x63, 0x7c, 0x77, 0x7b, 0xf2, 0x6b, 0x6f, 0xc5, 0x30, 0x01, 0x67, 0x2b, 0xfe, 0xd7, 0xab, 0x76,
    0xca, 0x82, 0xc9, 0x7d, 0xfa, 0x59, 0x47, 0xf0, 0xad, 0xd4, 0xa2, 0xaf, 0x9c, 0xa4, 0x72, 0xc0,
    0xb7, 0xfd, 0x93, 0x26, 0x36, 0x3f, 0xf7, 0xcc, 0x34, 0xa5, 0xe5, 0xf1, 0x71, 0xd8, 0x31, 0x15,
    0x04, 0xc7, 0x23, 0xc3, 0x18, 0x96, 0x05, 0x9a, 0x07, 0x12, 0x80, 0xe2, 0xeb, 0x27, 0xb2, 0x75,
    0x09, 0x83, 0x2c, 0x1a, 0x1b, 0x6e, 0x5a, 0xa0, 0x52, 0x3b, 0xd6, 0xb3, 0x29, 0xe3, 0x2f, 0x84,
    0x53, 0xd1, 0x00, 0xed, 0x20, 0xfc, 0xb1, 0x5b, 0x6a, 0xcb, 0xbe, 0x39, 0x4a, 0x4c, 0x58, 0xcf,
    0xd0, 0xef, 0xaa, 0xfb, 0x43, 0x4d, 0x33, 0x85, 0x45, 0xf9, 0x02, 0x7f, 0x50, 0x3c, 0x9f, 0xa8,
    0x51, 0xa3, 0x40, 0x8f, 0x92, 0x9d, 0x38, 0xf5, 0xbc, 0xb6, 0xda, 0x21, 0x10, 0xff, 0xf3, 0xd2,
    0xcd, 0x0c, 0x13, 0xec, 0x5f, 0x97, 0x44, 0x17, 0xc4, 0xa7, 0x7e, 0x3d, 0x64, 0x5d, 0x19, 0x73,
    0x60, 0x81, 0x4f, 0xdc, 0x22, 0x2a, 0x90, 0x88, 0x46, 0xee, 0xb8, 0x14, 0xde, 0x5e, 0x0b, 0xdb,
    0xe0, 0x32, 0x3a, 0x0a, 0x49, 0x06, 0x24, 0x5c, 0xc2, 0xd3, 0xac, 0x62, 0x91, 0x95, 0xe4, 0x79,
    0xe7, 0xc8, 0x37, 0x6d, 0x8d, 0xd5, 0x4e, 0xa9, 0x6c, 0x56, 0xf4, 0xea, 0x65, 0x7a, 0xae, 0x08,
    0xba, 0x78, 0x25, 0x2e, 0x1c, 0xa6, 0xb4, 0xc6, 0xe8, 0xdd, 0x74, 0x1f, 0x4b, 0xbd, 0x8b, 0x8a,
    0x70, 0x3e, 0xb5, 0x66, 0x48, 0x03, 0xf6, 0x0e, 0x61, 0x35, 0x57, 0xb9, 0x86, 0xc1, 0x1d, 0x9e,
    0xe1, 0xf8, 0x98, 0x11, 0x69, 0xd9, 0x8e, 0x94, 0x9b, 0x1e, 0x87, 0xe9, 0xce, 0x55, 0x28, 0xdf,
    0x8c, 0xa1, 0x89, 0x0d, 0xbf, 0xe6, 0x42, 0x68, 0x41, 0x99, 0x2d, 0x0f, 0xb0, 0x54, 0xbb, 0x16,
];

fn inv_sbox() -> [u8; 256] {
    let mut inv = [0u8; 256];
    for (i, &s) in SBOX.iter().enumerate() {
        inv[s as usize] = i as u8;
    }
    inv
}

/// Multiplication by x (i.e. by 2) in GF(2^8) modulo x^8 + x^4 + x^3 + x + 1.
fn xtime(a: u8) -> u8 {
    (a << 1) ^ ((a >> 7) * 0x1b)
}

/// General multiplication in GF(2^8).
fn gmul(mut a: u8, mut b: u8) -> u8 {
    let mut r = 0u8;
    while b != 0 {
        if b & 1 != 0 {
            r ^= a;
        }
        a = xtime(a);
        b >>= 1;
    }
    r
}

/// Expanded key: (Nr + 1) round keys of 16 bytes. The state is kept in FIPS-197 input order:
/// byte index = 4 * column + row.
struct Aes {
    rk: Vec<[u8; 16]>,
    inv_sbox: [u8; 256],
}

impl Aes {
    fn new(key: &[u8]) -> Aes {
        let nk = key.len() / 4;
        assert!(key.len() == 16 || key.len() == 32, "AES key must be 16 or 32 bytes");
        let nr = nk + 6;
        let mut w: Vec<[u8; 4]> = key.chunks(4).map(|c| [c[0], c[1], c[2], c[3]]).collect();
        let mut rcon = 1u8;
        for i in nk..4 * (nr + 1) {
            let mut t = w[i - 1];
            if i % nk == 0 {
                t = [SBOX[t[1] as usize] ^ rcon, SBOX[t[2] as usize], SBOX[t[3] as usize], SBOX[t[0] as usize]];
                rcon = gmul(rcon, 2);
            } else if nk > 6 && i % nk == 4 {
                t = [SBOX[t[0] as usize], SBOX[t[1] as usize], SBOX[t[2] as usize], SBOX[t[3] as usize]];
            }
            let p = w[i - nk];
            w.push([p[0] ^ t[0], p[1] ^ t[1], p[2] ^ t[2], p[3] ^ t[3]]);
        }
        let rk = w
            .chunks(4)
            .map(|c| {
                let mut k = [0u8; 16];
                for (j, word) in c.iter().enumerate() {
                    k[4 * j..4 * j + 4].copy_from_slice(word);
                }
                k
            })
            .collect();
        Aes { rk, inv_sbox: inv_sbox() }
    }

    fn add_round_key(s: &mut [u8; 16], k: &[u8; 16]) {
        for i in 0..16 {
            s[i] ^= k[i];
        }
    }

    /// ShiftRows: row r rotates left by r columns (or right when `inverse`).
    fn shift_rows(s: &mut [u8; 16], inverse: bool) {
        let old = *s;
        for c in 0..4 {
            for r in 0..4 {
                let src = if inverse { (c + 4 - r) % 4 } else { (c + r) % 4 };
                s[4 * c + r] = old[4 * src + r];
            }
        }
    }

    /// MixColumns: each column (a0..a3) is multiplied by the circulant matrix with first row [2, 3, 1, 1]:
    /// b_r = 2 a_r ^ 3 a_(r+1) ^ a_(r+2) ^ a_(r+3) = a_r ^ t ^ xtime(a_r ^ a_(r+1)), t = a0 ^ a1 ^ a2 ^ a3.
    /// InvMixColumns ([14, 11, 13, 9]) = MixColumns after multiplying by the circulant [5, 0, 4, 0].
    fn mix_columns(s: &mut [u8; 16], inverse: bool) {
        for col in s.chunks_exact_mut(4) {
            if inverse {
                let u = xtime(xtime(col[0] ^ col[2]));
                let v = xtime(xtime(col[1] ^ col[3]));
                col[0] ^= u;
                col[1] ^= v;
                col[2] ^= u;
                col[3] ^= v;
            }
            let a = [col[0], col[1], col[2], col[3]];
            let t = a[0] ^ a[1] ^ a[2] ^ a[3];
            for r in 0..4 {
                col[r] = a[r] ^ t ^ xtime(a[r] ^ a[(r + 1) % 4]);
            }
        }
    }

    fn encrypt_block(&self, block: &[u8]) -> [u8; 16] {
        let mut s = [0u8; 16];
        s.copy_from_slice(block);
        let nr = self.rk.len() - 1;
        Self::add_round_key(&mut s, &self.rk[0]);
        for round in 1..=nr {
            for i in 0..16 {
                s[i] = SBOX[s[i] as usize];
            }
            Self::shift_rows(&mut s, false);
            if round != nr {
                Self::mix_columns(&mut s, false);
            }
            Self::add_round_key(&mut s, &self.rk[round]);
        }
        s
    }

    fn decrypt_block(&self, block: &[u8]) -> [u8; 16] {
        let mut s = [0u8; 16];
        s.copy_from_slice(block);
        let nr = self.rk.len() - 1;
        Self::add_round_key(&mut s, &self.rk[nr]);
        for round in (0..nr).rev() {
            Self::shift_rows(&mut s, true);
            for i in 0..16 {
                s[i] = self.inv_sbox[s[i] as usize];
            }
            Self::add_round_key(&mut s, &self.rk[round]);
            if round != 0 {
                Self::mix_columns(&mut s, true);
            }
        }
        s
    }
}

pub fn aes_ecb_encrypt(key: &[u8], data: &[u8]) -> Vec<u8> {
    assert!(data.len() % 16 == 0, "ECB data must be a multiple of 16 bytes");
    let aes = Aes::new(key);
    data.chunks(16).flat_map(|b| aes.encrypt_block(b)).collect()
}

pub fn aes_ecb_decrypt(key: &[u8], data: &[u8]) -> Vec<u8> {
    assert!(data.len() % 16 == 0, "ECB data must be a multiple of 16 bytes");
    let aes = Aes::new(key);
    data.chunks(16).flat_map(|b| aes.decrypt_block(b)).collect()
}

pub fn aes_cbc_encrypt_nopad(key: &[u8], iv: &[u8; 16], data: &[u8]) -> Vec<u8> {
    assert!(data.len() % 16 == 0, "CBC-nopad data must be a multiple of 16 bytes");
    let aes = Aes::new(key);
    let mut prev = *iv;
    let mut out = Vec::with_capacity(data.len());
    for blk in data.chunks(16) {
        let mut x = prev;
        for i in 0..16 {
            x[i] ^= blk[i];
        }
        prev = aes.encrypt_block(&x);
        out.extend_from_slice(&prev);
    }
    out
}

pub fn aes_cbc_decrypt_nopad(key: &[u8], iv: &[u8; 16], data: &[u8]) -> Vec<u8> {
    assert!(data.len() % 16 == 0, "CBC-nopad data must be a multiple of 16 bytes");
    let aes = Aes::new(key);
    let mut prev: &[u8] = iv;
    let mut out = Vec::with_capacity(data.len());
    for blk in data.chunks(16) {
        let x = aes.decrypt_block(blk);
        out.extend((0..16).map(|i| x[i] ^ prev[i]));
        prev = blk;
    }
    out
}

/// PKCS#5/7 padding is always added (1..=16 bytes). The IV is not part of the output.
pub fn aes_cbc_encrypt_pkcs5(key: &[u8], iv: &[u8; 16], data: &[u8]) -> Vec<u8> {
    let padlen = 16 - data.len() % 16;
    let mut padded = data.to_vec();
    padded.extend(std::iter::repeat(padlen as u8).take(padlen));
    aes_cbc_encrypt_nopad(key, iv, &padded)
}

/// None if the ciphertext is empty, not a multiple of 16 bytes, or the padding is malformed.
pub fn aes_cbc_decrypt_pkcs5(key: &[u8], iv: &[u8; 16], data: &[u8]) -> Option<Vec<u8>> {
    if data.is_empty() || data.len() % 16 != 0 {
        return None;
    }
    let mut plain = aes_cbc_decrypt_nopad(key, iv, data);
    let padlen = *plain.last()? as usize;
    if padlen == 0 || padlen > 16 || plain[plain.len() - padlen..].iter().any(|&b| b as usize != padlen) {
        return None;
    }
    plain.truncate(plain.len() - padlen);
    Some(plain)
}

#[cfg(test)]
mod tests {
    use super::*;

    fn hex(b: &[u8]) -> String {
        b.iter().map(|x| format!("{:02x}", x)).collect()
    }
    fn unhex(s: &str) -> Vec<u8> {
        (0..s.len() / 2).map(|i| u8::from_str_radix(&s[2 * i..2 * i + 2], 16).unwrap()).collect()
    }
    fn iv16(s: &str) -> [u8; 16] {
        let mut iv = [0u8; 16];
        iv.copy_from_slice(&unhex(s));
        iv
    }

    #[test]
    fn sbox_is_a_permutation_and_gmul_sane() {
        let inv = inv_sbox();
        for i in 0..256 {
            assert_eq!(inv[SBOX[i] as usize] as usize, i);
        }
        assert_eq!(gmul(0x57, 0x83), 0xc1); // FIPS-197 §4.2
        assert_eq!(gmul(0x57, 0x13), 0xfe); // FIPS-197 §4.2.1
        // (Inv)MixColumns shortcut against the matrix definition, on a few columns
        for seed in 0..64u8 {
            let col: [u8; 4] = [seed.wrapping_mul(201) ^ 0x5a, seed.wrapping_mul(7), !seed, seed.wrapping_mul(89).wrapping_add(3)];
            for (inverse, m) in [(false, [2u8, 3, 1, 1]), (true, [14, 11, 13, 9])] {
                let mut s = [0u8; 16];
                s[4..8].copy_from_slice(&col);
                Aes::mix_columns(&mut s, inverse);
                for r in 0..4 {
                    assert_eq!(s[4 + r], (0..4).fold(0, |acc, j| acc ^ gmul(m[(j + 4 - r) % 4], col[j])));
                }
            }
        }
    }

    #[test]
    fn fips197_appendix_c() {
        let pt = unhex("00112233445566778899aabbccddeeff");
        let k128 = unhex("000102030405060708090a0b0c0d0e0f");
        let k256 = unhex("000102030405060708090a0b0c0d0e0f101112131415161718191a1b1c1d1e1f");
        let c128 = aes_ecb_encrypt(&k128, &pt);
        assert_eq!(hex(&c128), "69c4e0d86a7b0430d8cdb78070b4c55a"); // C.1
        assert_eq!(aes_ecb_decrypt(&k128, &c128), pt);
        let c256 = aes_ecb_encrypt(&k256, &pt);
        assert_eq!(hex(&c256), "8ea2b7ca516745bfeafc49904b496089"); // C.3
        assert_eq!(aes_ecb_decrypt(&k256, &c256), pt);
    }

    #[test]
    fn fips197_appendix_b_and_key_expansion() {
        // Appendix B cipher example
        let key = unhex("2b7e151628aed2a6abf7158809cf4f3c");
        let ct = aes_ecb_encrypt(&key, &unhex("3243f6a8885a308d313198a2e0370734"));
        assert_eq!(hex(&ct), "3925841d02dc09fbdc118597196a0b32");
        // Appendix A.1: last round key of the 128-bit expansion; A.3: last round key of the 256-bit expansion
        assert_eq!(hex(Aes::new(&key).rk.last().unwrap()), "d014f9a8c9ee2589e13f0cc8b6630ca6");
        let k256 = unhex("603deb1015ca71be2b73aef0857d77811f352c073b6108d72d9810a30914dff4");
        let a = Aes::new(&k256);
        assert_eq!(a.rk.len(), 15);
        assert_eq!(hex(a.rk.last().unwrap()), "fe4890d1e6188d0b046df344706c631e");
    }

    #[test]
    fn openssl_ecb_multiblock() {
        // (key, plaintext, ciphertext) from `openssl enc -aes-{128,256}-ecb -K .. -nopad`
        let v: &[(&str, &str, &str)] = &[
            ("7f22f00f3f5844e1efabe6d4ded861a9", "527a0ffa3854482f5d783f6c8ead179a878cb7275c9583d57dbc2303b2928108c57e3b9cfd870300caaf29a9fbf3dca1", "20d3b3b63a30c19b64f709a5e791954b8a8508dce7c73c6ab643547496d9cf12b4d64f12e55044d67f4cb4eecc2bf0b3"),
            ("58f46bc0889ee3fa91be888a97df9237b154ecd4f95b7dbc3e9142bf5d1d19f2", "dea9ff209d59081c9de478cc20d2901c9b3abbe66b71a1fdde7faf333e739c44f4212971bc5a0db276059cadbb5396ea", "41e66168d0d3590a20a95e45a47abc4edacce62c92302a368c070b86650af7baeffb31be74aad11f7cd9cd11db77e156"),
        ];
        for (k, p, c) in v {
            assert_eq!(hex(&aes_ecb_encrypt(&unhex(k), &unhex(p))), *c);
            assert_eq!(hex(&aes_ecb_decrypt(&unhex(k), &unhex(c))), *p);
        }
    }

    #[test]
    fn openssl_cbc_nopad() {
        // (key, iv, plaintext, ciphertext) from `openssl enc -aes-{128,256}-cbc -K .. -iv .. -nopad`
        let v: &[(&str, &str, &str, &str)] = &[
            ("2dde22595aee75e59eff9d33df8a5d77", "99468f9242aac35053b8957b0ad8613b", "", ""),
            ("3a23f2d1282509c996ad4252497ab87b9484ec76570bde77018a8564ee6c55a9", "ecf5fe4c92b3c16f8c64a43068457a8e", "7699799b591aa66e68baba49b9442821", "c0ca1a1d3c25b2952c2ae9b261f9e348"),
            ("b2532db6b7507b9adc2737da7e6512e8", "fc08ed99d26a2d8f6eb429d52ad4497a", "20cc7d8bf7bd5c0375ccf43fe1139a086741c9fc710b6568ea02778ee9875ce4", "bf6d19cc2ce3b138a0e5e0b60383c5fe7c7aecf840d3d45e33807a277916d8f3"),
            ("b2242f0a473afda7abf3880bac1e6813f6ffacd12f42a981f03d311f56791d0d", "e76df803bf42908d03f303305eaa5548", "096be35c71976f5d6679f8ba72e5e317", "46b2ffa9a025f69b09026db73f0c4748"),
            ("c0ebe0bf60c9cff6ae38b6f178ad19c4", "71793ef1fb76b1e102955d8e70181df5", "6fbed64bca3d4cd8bb9eee0daf7e9b1bd19ebf2afd583ce8e440f970b2b0c27c", "26f56b3ae4b87994da07dbb2ff7eb7a8285cdf61148b62d5cd06e606ef076960"),
            ("b2ac527afb05a535868b11dc457ebe0b3990b963b37eee98dc58410b2efa133e", "06d23507a8b65ca27d69c6f8d8a44237", "", ""),
            ("8398f6413f299eedde436830e14bae58", "1df429f4628afd1c57b60d3480b1c1d1", "", ""),
            ("b885d87c2efa106545d4afeddcaa98121925e9d038beb6d009b2811a1f5bee83", "816d0dc2a108ea5088b661bf8f32507d", "64d675209a586e6041f8df93e60dc7e3ce62a46b1578732f570b5f8cf7ca184d02369634137e9c9889c56c0b441dc092819ea9cc56b58016975a1bca2220e94bec8d1593083df1717cbd281a7cb21636ea30ee1bf6e5e11e8b7bc78f48c486bb", "e16d428ff864b9a467823a379250cf3335ec53ca2d2ca57ffde58639a88d8b6247f36b363a6839bb72157865b2f667d9260388aaa31239154ce2990a4bcb4733ca692637e74d94751c41534de1cbdf8bdfbc47608830cde90c9f8f5455ca891b"),
            ("72e5e6b2937052f38c7f16da2fc70348", "e53bc967c53614e7f6ca94ca173fb687", "5ea1623a9a437456cef34e2ada328163", "bed2fd66188aa7c9f10ef8ea4957990e"),
            ("94477fbb3c501791ffd0d112063fa15bcf914deb186593b2b5439b8805842c47", "c7623c927d26b19ce2c4a5b12678fa10", "3457e190184c8439afa3a7a7b0b2b4693c2aa78122ce962d0322f78e7f3368a2d7bda736d129730634f19299f3b4de70d79ba11887e996bd76c22e26829420757d7951d60eaf397f54702e77963a65bd105423120f7223c8745525cac7f4d6a1", "215ecf0c3c94452c5c983eff314f106cbe173c87c6fe6ecea38d0e1247d1050b6366d2eaf4594fe2df71a0b4c5844a8cc95415e2f36a8b8e4bea822f0fa23228a0e0415c665311014efe26929391ade24ea70ec7965a06fd5161a18484ffbb0a"),
            ("bdae8e397b19e96017bf44066e28bf27", "b57d51f59e1e7636d92ec11dd9caf55f", "2fdf91e700edca75bc7ac25bc091b2ad", "67a7411c4734445f3e1335ec36b0b0cc"),
            ("25fb1393f3ef554a3a30a2bc1241398e31ff4f5f16c7e01d36f6d6863e570928", "1a38274c96ee692aedfeb6a2acaefff3", "3399ea696b4767f2ad4a8b87fe39293e", "155a2fb7a482dac2ef1c8e5814a4951f"),
        ];
        assert!(v.len() >= 10);
        for (k, iv, p, c) in v {
            assert_eq!(hex(&aes_cbc_encrypt_nopad(&unhex(k), &iv16(iv), &unhex(p))), *c);
            assert_eq!(hex(&aes_cbc_decrypt_nopad(&unhex(k), &iv16(iv), &unhex(c))), *p);
        }
    }

    #[test]
    fn openssl_cbc_pkcs5() {
        // (key, iv, plaintext, ciphertext) from `openssl enc -aes-{128,256}-cbc -K .. -iv ..`
        let v: &[(&str, &str, &str, &str)] = &[
            ("90678da835bcfd4fd5c9b5f5b5f99912", "9bc79d33728e140e821f0b63f4d4662d", "", "387be42ffea0cd6e1863f8d7a6429fbf"),
            ("ca912f7df52134b84cf959b8a18b6621d5bd5be6939d6b6ad747a3f85c331b4c", "0c427898a2d32f1abb9554a368a4e0bd", "1a", "5943708d8039f5dd6c05f889d0d5a81b"),
            ("addbdf7ff13b6162db9e257f394289dd", "85bcf95fb14a107f8fa7f873a541cb8e", "303a40702ab9438674cc1a48571fb7", "818c1404069febcb2ca92272a900b471"),
            ("e568afcdaefea926588f4ff881df1247e63fd0e4132ddf77be17cc7ec8f16a01", "f76e54e54e2e1978a789612147fc8923", "b9fa718d0018df597d1bb0e476ed122d", "9620506748a48ed64308e1810e74884a401087028baf8673a804411953011a68"),
            ("64e1aa23d85430ec70824eed0824ed8b", "58dad3d59d224ca15fa89f83f7268b41", "48a21970889808bb49aa8b9eb3aa8a9d4b", "b14be3065d3dabecc36aa45f1cf7bf98090f441046bd3d378e99b559ca2e5429"),
            ("7152ba76300634666547434811dd4f22df9e9299a36427e6257923ea9dcb3c19", "5c6c3f26ec9fbc8a19cb458b31ed8c22", "a3624463242fdc1abe5f814e8c319f5d03884a761d6ddc4a50b91b19af5580", "f3f76eb109378949af243e750127a5f16adb1a994cc2802a155b32e498677c83"),
            ("e29e103034bcf8b1eb9d7be02f38dabd", "e82ff2e82d541c1277a98d87f4f0691e", "62c613f1ae862f9ccb3f574d0292ceb7c856c2a1f3639577ccdcb2ce485f0a11", "c43fc89aa37fdf7fdc5ac5b6e104d43512ee2ee2cfc83b266e863b0e462d2e668f113f33b21fbb31e7d9a010df4165f5"),
            ("96d96b538327a57d22160e8abd84dc6bf8c78405b399766200092f2e94d54017", "ea5cef3f95cd095664d74ef888234c40", "3e521f34ae1d2267afa7fd464d0c5262aec3b0e1f816de6af4e222e976ea86d245", "58672d0428dbe94ecfa91d3222ed15c3aa1c758983d67c428d0efc8f9e4004437a1886c15136e512aa56396503628394"),
            ("78217e868db1901d12573252c61d56e7", "f79cee334caa6314daee8166762d09c5", "165b7f2d05ff17943d504d6ab2c9d5d5b5cd4932131757d726148bf367a08f884a0bfa24439fa2", "1ef7bdbd70081bf0c171a4fdd042959075f2bdf4aa0e10185457f3e47ef162eaf68866ef447341e37d679d12512c7375"),
            ("563db094f9b687128f48bcdb6ab5087d892f291d584e1bac02cf197dfa4ce6b4", "b3f3f3624a0eeef9fb7b89a212a83ca8", "4d68b237e20b966a3cd822c05d9590df6dbeb50321e397a0b7ea3c657e141a5a35d9f4a228be0359224e8cc9c1149435ee32bdd5", "e686d872f84d205676966207ca2b08d3d70ef23ea9ed538d6fa8595d11263b422bb85463ac34b78131f204ff261fc01ef74b825ca44c998ab0d6da3d34d1115c"),
            ("21db44827568993aa8be23e835beb990", "da03323e6b3a3f5ddcca587d973bb769", "063f8c9e3210dc2ec90c8ba9f2791dbce7b2849a294d09764b96d2683237582619cada5e98f743d938b36ded2005f5aaf2cd0edff55fcb65d8c0adfcc9b711", "a86a4a64dd316d5c8ac71da084c1f2354d397f8e108b91c6b410add9712acfbade6ffbc4e5b86c64f85da4be2f8edd419f844bd62bb6b39af53e8975b0d3f963"),
            ("04954f9d0f1c90852b665f2672892a66285b462dffb368432ed01ac6a785dad3", "99775a00ba43f4caa62d53ab98d2b3be", "e6dfce67ec312204eda51646", "db89abb34df7ede8eb1ff54e3b34f6c9"),
            ("ca152366fe7cbedec74ddcab15f96554", "f061d342303c6fff1c1dfec1f855d47e", "b536cbe92e2c032c1447fa3a08a2baf76368b2ac3871e11d0785df6cd1ccd4963c96", "57ef128d57c87dcaf012accbaeb85e9a8e80492cfa0f6a9ef7ba8c0967bae5d87028311baf8a8ad08fc137471e167fcb"),
            ("9bd818803c135933f555498174fabf43d1019723bd8dcc43594629956e7951d7", "4cd15583407baa13dba15e7640896a2b", "807cd026dd1fd5ffb31ec47b48cfd069840b7d032394df102b384a234626f0f0034a723577e36a8df0b3337cfaff1a4f7021f5a725bbeaa3748385b72c3f1e3609cca1ceee5e0c43c42f8c21034fce33d4f94c5354e8", "42dbcca8848055d34f64442d9b8895f5d478fabee42590ff0fada656296d2d5a8767a72c0477a9b89552ddfa77cce6c997b9233b3849837794570fa0f7c34e357d922cec674963c8dab28a063cb716ee5826dfe0a758a84433623423427a2629"),
        ];
        assert!(v.len() >= 10);
        for (k, iv, p, c) in v {
            let ct = aes_cbc_encrypt_pkcs5(&unhex(k), &iv16(iv), &unhex(p));
            assert_eq!(hex(&ct), *c);
            assert_eq!(ct.len(), (unhex(p).len() / 16 + 1) * 16);
            assert_eq!(aes_cbc_decrypt_pkcs5(&unhex(k), &iv16(iv), &ct).map(|x| hex(&x)), Some(p.to_string()));
        }
    }

    #[test]
    fn pkcs5_rejects_bad_input() {
        let key = [7u8; 16];
        let iv = [9u8; 16];
        assert_eq!(aes_cbc_decrypt_pkcs5(&key, &iv, &[]), None);
        assert_eq!(aes_cbc_decrypt_pkcs5(&key, &iv, &[0u8; 15]), None);
        assert_eq!(aes_cbc_decrypt_pkcs5(&key, &iv, &[0u8; 17]), None);
        // plaintext blocks whose last byte is not valid padding: 0, 17, and 3 with mismatching fill
        for last in [[1u8, 2, 0], [0, 0, 17], [3, 4, 3]] {
            let mut blk = [0x41u8; 16];
            blk[13..].copy_from_slice(&last);
            let ct = aes_cbc_encrypt_nopad(&key, &iv, &blk);
            assert_eq!(aes_cbc_decrypt_pkcs5(&key, &iv, &ct), None, "{:?}", last);
        }
        // a full block of 0x10 decrypts to the empty string
        let ct = aes_cbc_encrypt_nopad(&key, &iv, &[16u8; 16]);
        assert_eq!(aes_cbc_decrypt_pkcs5(&key, &iv, &ct), Some(vec![]));
    }
}
