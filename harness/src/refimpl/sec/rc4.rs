//! RC4 stream cipher. std only.

/// Encrypts or decrypts (same operation). The key must be 1..=256 bytes.
pub fn rc4(key: &[u8], data: &[u8]) -> Vec<u8> {
    assert!(!key.is_empty() && key.len() <= 256, "RC4 key must be 1..=256 bytes");
    let mut s = [0u8; 256];
    for (i, b) in s.iter_mut().enumerate() {
        *b = i as u8;
    }
    let mut j = 0usize;
    for i in 0..256 {
        j = (j + s[i] as usize + key[i % key.len()] as usize) % 256;
        s.swap(i, j);
    }
    let (mut i, mut j) = (0usize, 0usize);
    data.iter()
        .map(|&b| {
            i = (i + 1) % 256;
            j = (j + s[i] as usize) % 256;
            s.swap(i, j);
            b ^ s[(s[i] as usize + s[j] as usize) % 256]
        })
        .collect()
}

#[cfg(test)]
mod tests {
    use super::*;

    fn hex(b: &[u8]) -> String {
        b.iter().map(|x| format!("{:02x}", x)).collect()
    }
    fn unhex(s: &str) -> Vec<u8> {
        (0..s.len() / 2).map(|i| u8::from_str_radix(&s[2 * i..2 * i + 2], 16).unwrap()).collect()
    }

    #[test]
    fn classic_vectors() {
        assert_eq!(hex(&rc4(b"Key", b"Plaintext")), "bbf316e8d940af0ad3");
        assert_eq!(hex(&rc4(b"Wiki", b"pedia")), "1021bf0420");
        assert_eq!(hex(&rc4(b"Secret", b"Attack at dawn")), "45a01f645fc35b383552544b9bf5");
        assert_eq!(rc4(b"Secret", &rc4(b"Secret", b"Attack at dawn")), b"Attack at dawn");
        assert_eq!(rc4(b"k", b""), Vec::<u8>::new());
    }

    #[test]
    fn rfc6229_keystream_prefixes() {
        // RFC 6229: first 16 keystream bytes for the 40-bit key 0102030405 and the 128-bit key 0102..10
        assert_eq!(hex(&rc4(&unhex("0102030405"), &[0u8; 16])), "b2396305f03dc027ccc3524a0a1118a8");
        assert_eq!(hex(&rc4(&unhex("0102030405060708090a0b0c0d0e0f10"), &[0u8; 16])), "9ac7cc9a609d1ef7b2932899cde41b97");
    }

    #[test]
    fn openssl_vectors() {
        // (key, plaintext, ciphertext) from `openssl enc -rc4-40 / -rc4 -provider legacy -provider default -K ..`
        let v: &[(&str, &str, &str)] = &[
            ("9fd7339ee2", "", ""),
            ("0117abfda7", "67", "36"),
            ("18bcf96a07", "d268dd5042dff5d5d9190ea83ee6d4dc64", "0ec3f5c2ade82e439977312cf8a9395331"),
            ("9eae596d2313f607c1738df5de962761", "5607e20edbc13c8d6d5eef83eee288ca73d3a89a249d4c1d76fb2670eb3864d538c33a849fa4387f4543a9fd3836b459fa3901097dca83d353e7ad7360f33fd0", "74ea05836a1221f7387b469af79425788e872e3d814b83016ac5e3bbe6e642589f0756416f3b8e554985803c3840bd334a09d460a825df14dd37f783ab97baf9"),
            ("fedcc7714fc647387598ee0b60f7ea7b", "53ca3ea15adc250db7ec5e31a3de83c6aef13bb5b27f94e003561e9d8dc796c23832668a395db22efcfc7a800535d73e7808ebcf440afa5b40bbcac6a126d6bd55c1e41a244088527b2d5921c4a33cc2cf3d4f43906d0ef39ab78d3c82560b9042e99f34", "378075a2db27fb5e1d0af6290fc4f7697c5356fd7354ea9e594d9046ccd030c2b98c3f4d167b425e19ad66d57446fc083b54976ab567b83a58b2dbab5030bc96a0a99a03359caf0165aea06d9bd8ec45562eb2742bc226fd6e44d127f36170ada6463344"),
        ];
        for (k, p, c) in v {
            assert_eq!(hex(&rc4(&unhex(k), &unhex(p))), *c);
            assert_eq!(hex(&rc4(&unhex(k), &unhex(c))), *p);
        }
    }
}
