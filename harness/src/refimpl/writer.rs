//! REF-W — independent reference PDF writer (DESIGN.md §4, Appendix B).
//! Every lexical/structural freedom of ISO 32000-1 §7.2–7.5 is driven by a "choice tape": a byte string
//! consumed sequentially; an exhausted or all-zero tape yields the plainest spelling, so shrinking the tape
//! shrinks the style.

use crate::model::{ADict, AObj, B};
use crate::refimpl::filt::png;
use serde::{Deserialize, Serialize};
use std::collections::{BTreeMap, BTreeSet};

#[derive(Clone, Debug, Serialize, Deserialize, PartialEq)]
pub struct WRevision {
    /// objects defined (base revision) or replaced/added (update revisions); distinct numbers
    pub objects: Vec<(u32, u16, AObj)>,
    /// abstract trailer entries (no Size/Prev/xref-stream keys)
    pub trailer: ADict,
}

#[derive(Clone, Debug, Serialize, Deserialize, PartialEq)]
pub struct WFile {
    pub version: String,
    pub binary_mark: B,
    /// bytes before the header (never containing "%PDF-")
    pub junk: B,
    pub xref_stream: bool,
    /// allow object streams (only with xref streams)
    pub objstm: bool,
    pub revisions: Vec<WRevision>,
    pub tape: B,
    /// switches for constructs tied to known findings
    pub raw_eol_in_strings: bool,
    /// constructs outside the strict reader's domain, for the schedule check only (bit 0: an object number that no
    /// cross-reference entry names, present in two object streams; bit 1: a number listed twice in one object stream)
    #[serde(default)]
    pub quirks: u8,
}

#[derive(Clone, Debug, Default)]
pub struct WOutput {
    pub bytes: Vec<u8>,
    pub features: BTreeSet<&'static str>,
    /// absolute end offset (exclusive) of each revision (a prefix ending there is a complete file)
    pub revision_ends: Vec<usize>,
    /// per revision: numbers of containers / xref stream objects written by the writer itself
    pub structural: Vec<BTreeSet<u32>>,
    /// per revision: integer objects holding indirect stream lengths
    pub length_objects: Vec<BTreeMap<(u32, u16), AObj>>,
    /// per revision: for every abstract object number, Some(container) if stored in an object stream
    pub placement: Vec<BTreeMap<u32, Option<u32>>>,
}

struct Tape<'a> {
    t: &'a [u8],
    pos: usize,
}

impl<'a> Tape<'a> {
    fn byte(&mut self) -> u8 {
        let b = self.t.get(self.pos).copied().unwrap_or(0);
        self.pos += 1;
        b
    }
    /// 0..n, 0 when the tape is exhausted
    fn pick(&mut self, n: usize) -> usize {
        if n <= 1 {
            return 0;
        }
        self.byte() as usize % n
    }
    /// true with probability ~ num/256 (false when exhausted)
    fn chance(&mut self, num: u8) -> bool {
        let b = self.byte();
        b != 0 && b <= num
    }
}

struct W<'a> {
    out: Vec<u8>,
    tape: Tape<'a>,
    feat: BTreeSet<&'static str>,
    raw_eol: bool,
    /// restrict white-space (no comments, no NUL) — used inside object-stream index blocks
    plain_ws: bool,
    /// the next token is written without a leading separator (it must start exactly here)
    no_sep: bool,
}

fn is_ws(c: u8) -> bool {
    matches!(c, 0 | 9 | 10 | 12 | 13 | 32)
}
fn is_delim(c: u8) -> bool {
    b"()<>[]{}/%".contains(&c)
}

impl<'a> W<'a> {
    fn eol(&mut self) -> &'static [u8] {
        match self.tape.pick(3) {
            0 => b"\n",
            1 => {
                self.feat.insert("eol-cr");
                b"\r"
            }
            _ => {
                self.feat.insert("eol-crlf");
                b"\r\n"
            }
        }
    }
    /// a white-space run; `required` = at least one white-space character needed
    fn ws(&mut self, required: bool) {
        let n = self.tape.pick(8);
        if n == 0 {
            if required {
                self.out.push(b' ');
            }
            return;
        }
        if n == 1 && !required {
            self.feat.insert("no-space-next-to-delimiter");
            return;
        }
        let count = 1 + self.tape.pick(3);
        for _ in 0..count {
            match self.tape.pick(if self.plain_ws { 5 } else { 8 }) {
                0 => self.out.push(b' '),
                1 => {
                    self.out.push(b'\t');
                    self.feat.insert("ws-tab");
                }
                2 => {
                    self.out.push(b'\n');
                    self.feat.insert("ws-lf");
                }
                3 => {
                    self.out.extend_from_slice(b"\r\n");
                    self.feat.insert("ws-crlf");
                }
                4 => {
                    self.out.push(b'\r');
                    self.feat.insert("ws-cr");
                }
                5 => {
                    self.out.push(0x0c);
                    self.feat.insert("ws-ff");
                }
                6 => {
                    self.out.push(0);
                    self.feat.insert("ws-nul");
                }
                _ => {
                    self.feat.insert("comment");
                    // a comment needs something before it that ends the previous token only if required; it always ends with an EOL
                    self.out.extend_from_slice(b"%");
                    let k = self.tape.pick(4);
                    self.out.extend_from_slice(&b" c) (<< obj"[..k * 3]);
                    let e = self.eol();
                    self.out.extend_from_slice(e);
                }
            }
        }
    }
    /// separator between two tokens where the left ends with `l` and the right begins with `r`
    fn sep(&mut self, l: u8, r: u8) {
        // a trailing '/' is an empty name: the next regular character would be absorbed into it
        let need = !((is_delim(l) && l != b'/') || is_delim(r) || is_ws(l));
        self.ws(need);
    }
    fn last(&self) -> u8 {
        *self.out.last().unwrap_or(&b' ')
    }
    fn token(&mut self, t: &[u8]) {
        if self.no_sep {
            self.no_sep = false;
        } else {
            let l = self.last();
            self.sep(l, t[0]);
        }
        self.out.extend_from_slice(t);
    }

    fn int(&mut self, v: i64) {
        let mut s = String::new();
        if v >= 0 && self.tape.chance(20) {
            s.push('+');
            self.feat.insert("num-plus-sign");
        }
        if v < 0 {
            s.push('-');
        }
        if self.tape.chance(20) {
            s.push_str("00");
            self.feat.insert("num-leading-zeros");
        }
        s.push_str(&v.unsigned_abs().to_string());
        self.token(s.as_bytes());
    }
    fn real(&mut self, v: f32) {
        // shortest decimal that round-trips, without exponent
        let mut body = format!("{}", v.abs());
        if !body.contains('.') {
            match self.tape.pick(3) {
                0 => body.push_str(".0"),
                1 => {
                    body.push('.');
                    self.feat.insert("real-trailing-point");
                }
                _ => body.push_str(".000"),
            }
        } else {
            if body.starts_with("0.") && self.tape.chance(60) {
                body.remove(0);
                self.feat.insert("real-leading-point");
            }
            if self.tape.chance(30) {
                body.push_str("00");
                self.feat.insert("real-trailing-zeros");
            }
        }
        let mut s = String::new();
        if v.is_sign_negative() {
            s.push('-');
        } else if self.tape.chance(20) {
            s.push('+');
            self.feat.insert("num-plus-sign");
        }
        s.push_str(&body);
        self.token(s.as_bytes());
    }
    fn name(&mut self, n: &[u8]) {
        let mut s = vec![b'/'];
        for &c in n {
            let must = is_ws(c) || is_delim(c) || c == b'#' || !(0x21..=0x7e).contains(&c);
            if must || self.tape.chance(12) {
                if !must {
                    self.feat.insert("name-optional-escape");
                }
                let hex = if self.tape.pick(2) == 0 { format!("#{:02X}", c) } else { format!("#{:02x}", c) };
                s.extend_from_slice(hex.as_bytes());
            } else {
                s.push(c);
            }
        }
        self.token(&s);
    }
    fn lit_string(&mut self, v: &[u8]) {
        let mut s = vec![b'('];
        // parentheses: balanced ones may stay raw
        let mut raw_ok = vec![false; v.len()];
        let mut stack = vec![];
        for (i, &c) in v.iter().enumerate() {
            if c == b'(' {
                stack.push(i);
            } else if c == b')' {
                if let Some(j) = stack.pop() {
                    // keep the raw nesting below lopdf's documented limit of 100 (MAX_BRACKET) — deeper ones are escaped;
                    // the decision is taken per pair so that raw parentheses stay balanced
                    if stack.len() < 90 && self.tape.pick(3) != 1 {
                        raw_ok[i] = true;
                        raw_ok[j] = true;
                    }
                }
            }
        }
        let mut i = 0;
        while i < v.len() {
            let c = v[i];
            let next_is_digit = v.get(i + 1).map(|d| d.is_ascii_digit()).unwrap_or(false);
            if self.tape.chance(8) {
                // line continuation: backslash + EOL contributes nothing
                s.push(b'\\');
                let mut e = self.eol();
                if e == b"\r" && c == b'\n' {
                    // CR followed by a content LF would read as one CRLF marker
                    e = b"\n";
                }
                s.extend_from_slice(e);
                self.feat.insert("string-line-continuation");
            }
            let next_is_lf = v.get(i + 1) == Some(&b'\n');
            match c {
                b'(' | b')' => {
                    if raw_ok[i] {
                        s.push(c);
                        self.feat.insert("string-raw-balanced-parens");
                    } else {
                        s.push(b'\\');
                        s.push(c);
                    }
                }
                b'\\' => s.extend_from_slice(b"\\\\"),
                b'\n' => match self.tape.pick(if self.raw_eol { 5 } else { 3 }) {
                    0 => s.extend_from_slice(b"\\n"),
                    1 => s.push(b'\n'),
                    2 => self.octal(&mut s, c, next_is_digit),
                    3 if !next_is_lf => {
                        s.push(b'\r');
                        self.feat.insert("string-raw-cr-reads-as-lf");
                    }
                    3 => s.extend_from_slice(b"\\n"),
                    _ => {
                        s.extend_from_slice(b"\r\n");
                        self.feat.insert("string-raw-crlf-reads-as-lf");
                    }
                },
                b'\r' => {
                    if self.tape.pick(2) == 0 {
                        s.extend_from_slice(b"\\r")
                    } else {
                        self.octal(&mut s, c, next_is_digit)
                    }
                }
                b'\t' | 8 | 12 => match self.tape.pick(3) {
                    0 => {
                        s.push(b'\\');
                        s.push(match c {
                            b'\t' => b't',
                            8 => b'b',
                            _ => b'f',
                        });
                        self.feat.insert("string-named-escape");
                    }
                    1 => s.push(c),
                    _ => self.octal(&mut s, c, next_is_digit),
                },
                _ => {
                    let t = self.tape.pick(12);
                    if t == 1 {
                        self.octal(&mut s, c, next_is_digit);
                    } else if t == 2 && !b"nrtbf()\\01234567\r\n".contains(&c) {
                        // backslash before an ordinary character is ignored
                        s.push(b'\\');
                        s.push(c);
                        self.feat.insert("string-useless-backslash");
                    } else {
                        s.push(c);
                    }
                }
            }
            i += 1;
        }
        s.push(b')');
        self.token(&s);
    }
    fn octal(&mut self, s: &mut Vec<u8>, c: u8, next_is_digit: bool) {
        self.feat.insert("string-octal-escape");
        let full = format!("\\{:03o}", c);
        if next_is_digit || self.tape.pick(2) == 0 {
            s.extend_from_slice(full.as_bytes());
        } else {
            self.feat.insert("string-short-octal");
            s.extend_from_slice(format!("\\{:o}", c).as_bytes());
        }
    }
    fn hex_string(&mut self, v: &[u8]) {
        let mut s = vec![b'<'];
        let upper = self.tape.pick(2) == 0;
        let n = v.len();
        for (i, &c) in v.iter().enumerate() {
            let h = if upper { format!("{:02X}", c) } else { format!("{:02x}", c) };
            let hb = h.as_bytes();
            s.push(hb[0]);
            if self.tape.chance(10) {
                s.push([b' ', b'\n', b'\r', b'\t'][self.tape.pick(4)]);
                self.feat.insert("hex-embedded-whitespace");
            }
            // odd number of digits: a final 0 may be omitted
            if i + 1 == n && c & 0x0f == 0 && self.tape.chance(128) {
                self.feat.insert("hex-odd-digits");
            } else {
                s.push(hb[1]);
            }
            if self.tape.chance(10) {
                s.push(b' ');
                self.feat.insert("hex-embedded-whitespace");
            }
        }
        s.push(b'>');
        self.token(&s);
    }
    fn object(&mut self, o: &AObj) {
        match o {
            AObj::Null => self.token(b"null"),
            AObj::Bool(true) => self.token(b"true"),
            AObj::Bool(false) => self.token(b"false"),
            AObj::Int(i) => self.int(*i),
            AObj::Real(b) => self.real(f32::from_bits(*b)),
            AObj::Name(n) => self.name(&n.0),
            AObj::Str(s, false) => self.lit_string(&s.0),
            AObj::Str(s, true) => self.hex_string(&s.0),
            AObj::Array(a) => {
                self.token(b"[");
                for x in a {
                    self.object(x);
                }
                self.token(b"]");
            }
            AObj::Dict(d) => self.dict(d),
            AObj::Ref(n, g) => {
                self.token(n.to_string().as_bytes());
                self.ws(true);
                self.out.extend_from_slice(g.to_string().as_bytes());
                self.ws(true);
                self.out.push(b'R');
            }
            AObj::Stream(..) => panic!("stream written through object()"),
        }
    }
    fn dict(&mut self, d: &ADict) {
        self.token(b"<<");
        for (k, v) in d {
            self.name(&k.0);
            self.object(v);
        }
        self.token(b">>");
    }
}

fn deflate(data: &[u8], level: u32) -> Vec<u8> {
    use std::io::Write;
    let mut e = flate2::write::ZlibEncoder::new(Vec::new(), flate2::Compression::new(level));
    e.write_all(data).unwrap();
    e.finish().unwrap()
}

fn be(v: u64, w: usize) -> Vec<u8> {
    (0..w).rev().map(|i| if i >= 8 { 0 } else { (v >> (8 * i)) as u8 }).collect()
}

fn width_for(v: u64) -> usize {
    let mut w = 1;
    while w < 8 && v >> (8 * w) != 0 {
        w += 1;
    }
    w
}

#[derive(Clone, Debug)]
enum XEntry {
    Free,
    InUse(usize, u16),
    Compressed(u32, u32),
}

fn ensure_ws(w: &mut W) {
    if !is_ws(w.last()) {
        w.out.push(b'\n');
    }
}

/// `n g obj … endobj`; for a stream, `length` is the value of its /Length entry (integer or reference)
fn write_indirect(w: &mut W, num: u32, gen: u16, obj: &AObj, length: Option<AObj>, entries: &mut BTreeMap<u32, XEntry>) {
    w.ws(false);
    ensure_ws(w);
    let off = w.out.len();
    entries.insert(num, XEntry::InUse(off, gen));
    w.out.extend_from_slice(num.to_string().as_bytes());
    w.ws(true);
    w.out.extend_from_slice(gen.to_string().as_bytes());
    w.ws(true);
    w.out.extend_from_slice(b"obj");
    match obj {
        AObj::Stream(d, c) => {
            let mut d2: ADict = d.iter().filter(|(k, _)| k.0 != b"Length").cloned().collect();
            let pos = w.tape.pick(d2.len() + 1);
            d2.insert(pos, (B::from("Length"), length.unwrap_or(AObj::Int(c.0.len() as i64))));
            w.dict(&d2);
            w.ws(false);
            w.out.extend_from_slice(b"stream");
            if w.tape.pick(2) == 0 {
                w.out.push(b'\n');
            } else {
                w.out.extend_from_slice(b"\r\n");
                w.feat.insert("stream-keyword-crlf");
            }
            w.out.extend_from_slice(&c.0);
            match w.tape.pick(4) {
                0 => w.out.push(b'\n'),
                1 => {
                    w.out.extend_from_slice(b"\r\n");
                    w.feat.insert("endstream-after-crlf");
                }
                2 => {
                    w.out.push(b'\r');
                    w.feat.insert("endstream-after-cr");
                }
                _ => {
                    w.feat.insert("endstream-without-eol");
                }
            }
            w.out.extend_from_slice(b"endstream");
        }
        other => w.object(other),
    }
    w.token(b"endobj");
}

fn alloc_number(w: &mut W, next_free: &mut u32, gaps: &mut Vec<u32>) -> u32 {
    if !gaps.is_empty() && w.tape.chance(70) {
        w.feat.insert("structural-number-in-gap");
        let i = w.tape.pick(gaps.len());
        return gaps.remove(i);
    }
    let n = *next_free;
    *next_free += 1;
    n
}

/// Encryption applied while writing (ISO 32000-1 7.6.1): every string and stream of an indirect object written
/// plainly is transformed with that object's number and generation; objects placed inside an object stream stay as they
/// are and the container stream is transformed instead; cross-reference streams and the objects in `skip` (the encryption
/// dictionary) are left alone, and `skip` objects are never placed in an object stream.
pub struct WEnc<'a> {
    pub f: &'a dyn Fn(u32, u16, &AObj) -> AObj,
    pub skip: BTreeSet<u32>,
    /// may the integer holding an indirect /Length live in an (encrypted) object stream? A reader then has to decrypt
    /// the container before it can delimit the stream (legal; tied to a known finding)
    pub length_in_objstm: bool,
}

pub fn write(f: &WFile) -> WOutput {
    write_with(f, None)
}

pub fn write_with(f: &WFile, enc: Option<&WEnc>) -> WOutput {
    let crypt = |num: u32, gen: u16, o: &AObj| -> AObj {
        match enc {
            Some(e) if !e.skip.contains(&num) => (e.f)(num, gen, o),
            _ => o.clone(),
        }
    };
    let mut res = WOutput::default();
    let mut w = W { out: Vec::new(), tape: Tape { t: &f.tape.0, pos: 0 }, feat: BTreeSet::new(), raw_eol: f.raw_eol_in_strings, plain_ws: false, no_sep: false };
    let junk_len = f.junk.0.len();
    if junk_len > 0 {
        w.feat.insert("junk-prefix");
    }
    // header (fixed format)
    w.out.extend_from_slice(b"%PDF-");
    w.out.extend_from_slice(f.version.as_bytes());
    let e = w.eol();
    w.out.extend_from_slice(e);
    w.out.push(b'%');
    w.out.extend_from_slice(&f.binary_mark.0);
    let e = w.eol();
    w.out.extend_from_slice(e);
    // fresh numbers for writer-made objects (containers, xref streams, length holders): above every abstract number
    // or, sometimes, an unused number in a gap below (a producer may reuse free numbers)
    let used: BTreeSet<u32> = f.revisions.iter().flat_map(|r| r.objects.iter().map(|o| o.0)).collect();
    let top = used.iter().max().copied().unwrap_or(0);
    let mut gaps: Vec<u32> = (1..top.min(2000)).filter(|n| !used.contains(n)).collect();
    let mut next_free = top + 1;
    let mut prev_xref: Option<usize> = None;
    let mut max_num_so_far = 0u32;
    let use_objstm = f.xref_stream && f.objstm;
    for (ri, rev) in f.revisions.iter().enumerate() {
        let mut entries: BTreeMap<u32, XEntry> = BTreeMap::new();
        let mut structural = BTreeSet::new();
        let mut length_objs: BTreeMap<(u32, u16), AObj> = BTreeMap::new();
        let mut placement = BTreeMap::new();
        // placement: object streams hold non-stream objects of generation 0
        let mut plain: Vec<(u32, u16, AObj)> = vec![];
        let mut packed: Vec<Vec<(u32, AObj)>> = vec![];
        for o in &rev.objects {
            let eligible = use_objstm && o.1 == 0 && !matches!(o.2, AObj::Stream(..)) && !enc.map(|e| e.skip.contains(&o.0)).unwrap_or(false);
            if eligible && w.tape.pick(3) != 1 {
                let limit = 1 + w.tape.pick(6);
                if packed.last().map(|g| g.len() >= limit).unwrap_or(true) {
                    packed.push(vec![]);
                }
                packed.last_mut().unwrap().push((o.0, o.2.clone()));
            } else {
                plain.push(o.clone());
            }
        }
        if plain.len() > 1 && w.tape.chance(128) {
            w.feat.insert("objects-out-of-order");
            let k = 1 + w.tape.pick(plain.len() - 1);
            plain.rotate_left(k);
            if w.tape.pick(2) == 1 {
                plain.reverse();
            }
        }
        // plain objects; a stream's /Length may be direct, or indirect with the holder before / after it / in an object stream
        let mut after: Vec<(u32, i64)> = vec![];
        let mut in_objstm: Vec<(u32, AObj)> = vec![];
        for (num, gen, obj) in &plain {
            placement.insert(*num, None);
            let obj = &crypt(*num, *gen, obj);
            let mut length = None;
            if let AObj::Stream(_, c) = obj {
                let len = c.0.len() as i64;
                let mode = w.tape.pick(7);
                if (1..=3).contains(&mode) {
                    let ln = alloc_number(&mut w, &mut next_free, &mut gaps);
                    length = Some(AObj::Ref(ln, 0));
                    length_objs.insert((ln, 0), AObj::Int(len));
                    match mode {
                        1 => {
                            w.feat.insert("indirect-length-before");
                            write_indirect(&mut w, ln, 0, &AObj::Int(len), None, &mut entries);
                        }
                        3 if use_objstm && enc.map(|e| e.length_in_objstm).unwrap_or(true) => {
                            w.feat.insert("indirect-length-in-objstm");
                            in_objstm.push((ln, AObj::Int(len)));
                        }
                        _ => {
                            w.feat.insert("indirect-length-after");
                            after.push((ln, len));
                        }
                    }
                }
            }
            write_indirect(&mut w, *num, *gen, obj, length, &mut entries);
            if !after.is_empty() && w.tape.pick(2) == 0 {
                for (ln, len) in after.drain(..) {
                    write_indirect(&mut w, ln, 0, &AObj::Int(len), None, &mut entries);
                }
            }
        }
        for (ln, len) in after.drain(..) {
            write_indirect(&mut w, ln, 0, &AObj::Int(len), None, &mut entries);
        }
        if !in_objstm.is_empty() {
            packed.push(in_objstm);
        }
        packed.retain(|g| !g.is_empty());
        let mut orphans: BTreeSet<u32> = BTreeSet::new();
        if f.quirks & 1 != 0 && packed.len() >= 2 {
            w.feat.insert("quirk-orphan-number-in-two-containers");
            let m = alloc_number(&mut w, &mut next_free, &mut gaps);
            let a = w.tape.pick(packed.len());
            let mut b = w.tape.pick(packed.len() - 1);
            if b >= a {
                b += 1;
            }
            let pa = w.tape.pick(packed[a].len() + 1);
            packed[a].insert(pa, (m, AObj::Int(1000 + a as i64)));
            let pb = w.tape.pick(packed[b].len() + 1);
            packed[b].insert(pb, (m, AObj::Int(2000 + b as i64)));
            orphans.insert(m);
        }
        if f.quirks & 2 != 0 && !packed.is_empty() {
            w.feat.insert("quirk-number-twice-in-one-container");
            let g = w.tape.pick(packed.len());
            let k = w.tape.pick(packed[g].len());
            let num = packed[g][k].0;
            if !orphans.contains(&num) {
                let copies = 1 + w.tape.pick(2);
                for c in 0..copies {
                    let at = w.tape.pick(packed[g].len() + 1);
                    packed[g].insert(at, (num, AObj::Int(3000 + c as i64)));
                }
            }
        }
        // object streams
        for group in packed.iter().filter(|g| !g.is_empty()) {
            w.feat.insert("objstm");
            let cnum = alloc_number(&mut w, &mut next_free, &mut gaps);
            structural.insert(cnum);
            let mut body = W { out: Vec::new(), tape: Tape { t: w.tape.t, pos: w.tape.pos }, feat: BTreeSet::new(), raw_eol: f.raw_eol_in_strings, plain_ws: false, no_sep: false };
            let mut offsets = vec![];
            for (_, o) in group {
                if !body.out.is_empty() {
                    body.ws(false);
                    ensure_ws(&mut body);
                }
                offsets.push(body.out.len());
                body.no_sep = true;
                body.object(o);
            }
            if body.tape.pick(2) == 1 {
                body.ws(false);
            }
            let mut index = W { out: Vec::new(), tape: Tape { t: w.tape.t, pos: body.tape.pos }, feat: BTreeSet::new(), raw_eol: false, plain_ws: true, no_sep: false };
            for ((num, _), off) in group.iter().zip(offsets.iter()) {
                if !index.out.is_empty() {
                    index.ws(true);
                }
                index.out.extend_from_slice(num.to_string().as_bytes());
                index.ws(true);
                index.out.extend_from_slice(off.to_string().as_bytes());
            }
            index.ws(true);
            w.tape.pos = index.tape.pos;
            for ft in body.feat.iter().chain(index.feat.iter()) {
                w.feat.insert(ft);
            }
            let first = index.out.len();
            let mut data = index.out;
            data.extend_from_slice(&body.out);
            let mut d: ADict = vec![(B::from("Type"), AObj::name("ObjStm")), (B::from("N"), AObj::Int(group.len() as i64)), (B::from("First"), AObj::Int(first as i64))];
            if w.tape.pick(2) == 1 {
                w.feat.insert("objstm-compressed");
                data = deflate(&data, 6);
                d.push((B::from("Filter"), AObj::name("FlateDecode")));
            }
            for (i, (num, _)) in group.iter().enumerate() {
                if orphans.contains(num) {
                    continue;
                }
                entries.insert(*num, XEntry::Compressed(cnum, i as u32));
                placement.insert(*num, Some(cnum));
            }
            write_indirect(&mut w, cnum, 0, &crypt(cnum, 0, &AObj::Stream(d, B(data))), None, &mut entries);
        }
        max_num_so_far = max_num_so_far.max(entries.keys().max().copied().unwrap_or(0));
        // cross-reference section
        w.ws(false);
        ensure_ws(&mut w);
        let mut trailer: ADict = rev.trailer.clone();
        let xref_off;
        if !f.xref_stream {
            xref_off = w.out.len();
            w.out.extend_from_slice(b"xref");
            let e = w.eol();
            w.out.extend_from_slice(e);
            let mut all: BTreeMap<u32, XEntry> = entries.clone();
            if ri == 0 || all.is_empty() {
                // a table holds at least one sub-section
                all.insert(0, XEntry::Free);
            }
            if ri == 0 {
                if w.tape.chance(100) {
                    w.feat.insert("xref-free-entries-for-gaps");
                    let maxn = all.keys().max().copied().unwrap_or(0);
                    for n in 1..maxn.min(400) {
                        all.entry(n).or_insert(XEntry::Free);
                    }
                }
            }
            let keys: Vec<u32> = all.keys().cloned().collect();
            let mut runs: Vec<Vec<u32>> = vec![];
            for k in keys {
                let split = w.tape.chance(40);
                match runs.last_mut() {
                    Some(r) if *r.last().unwrap() + 1 == k && !split => r.push(k),
                    Some(r) => {
                        if *r.last().unwrap() + 1 == k {
                            w.feat.insert("xref-extra-subsection-split");
                        }
                        runs.push(vec![k])
                    }
                    None => runs.push(vec![k]),
                }
            }
            if runs.len() > 1 {
                w.feat.insert("xref-multi-subsection");
            }
            for r in runs {
                w.out.extend_from_slice(format!("{} {}", r[0], r.len()).as_bytes());
                let e = w.eol();
                w.out.extend_from_slice(e);
                for k in r {
                    let (a, b, c) = match &all[&k] {
                        XEntry::InUse(off, g) => (*off, *g as u32, b'n'),
                        _ => (0, if k == 0 { 65535 } else { 0 }, b'f'),
                    };
                    w.out.extend_from_slice(format!("{:010} {:05} ", a, b).as_bytes());
                    w.out.push(c);
                    match w.tape.pick(3) {
                        0 => w.out.extend_from_slice(b" \n"),
                        1 => {
                            w.out.extend_from_slice(b"\r\n");
                            w.feat.insert("xref-entry-crlf");
                        }
                        _ => {
                            w.out.extend_from_slice(b" \r");
                            w.feat.insert("xref-entry-sp-cr");
                        }
                    }
                }
            }
            w.out.extend_from_slice(b"trailer");
            let size = max_num_so_far as i64 + 1;
            let pos = w.tape.pick(trailer.len() + 1);
            trailer.insert(pos, (B::from("Size"), AObj::Int(size)));
            if let Some(p) = prev_xref {
                trailer.push((B::from("Prev"), AObj::Int(p as i64)));
            }
            w.dict(&trailer);
        } else {
            let xnum = alloc_number(&mut w, &mut next_free, &mut gaps);
            structural.insert(xnum);
            max_num_so_far = max_num_so_far.max(xnum);
            xref_off = w.out.len();
            let mut all: BTreeMap<u32, XEntry> = entries.clone();
            all.insert(xnum, XEntry::InUse(xref_off, 0));
            if ri == 0 && w.tape.pick(2) == 0 {
                all.insert(0, XEntry::Free);
            }
            let max_f2 = all.values().map(|e| match e { XEntry::InUse(o, _) => *o as u64, XEntry::Compressed(c, _) => *c as u64, XEntry::Free => 0 }).max().unwrap_or(0);
            let max_f3 = all.values().map(|e| match e { XEntry::InUse(_, g) => *g as u64, XEntry::Compressed(_, i) => *i as u64, XEntry::Free => 65535 }).max().unwrap_or(0);
            let all_inuse = all.values().all(|e| matches!(e, XEntry::InUse(..)));
            let all_zero3 = all.values().all(|e| match e { XEntry::InUse(_, g) => *g == 0, XEntry::Compressed(_, i) => *i == 0, XEntry::Free => false });
            let mut w1 = 1 + w.tape.pick(2);
            if all_inuse && w.tape.chance(100) {
                w1 = 0;
                w.feat.insert("xref-W-zero-type-field");
            }
            let mut w2 = (width_for(max_f2) + w.tape.pick(3)).min(8);
            if w.tape.chance(40) {
                w2 = (5 + w.tape.pick(4)).max(w2);
            }
            if w2 > 4 {
                w.feat.insert("xref-W-wider-than-4");
            }
            let mut w3 = width_for(max_f3) + w.tape.pick(2);
            if all_zero3 && w.tape.chance(100) {
                w3 = 0;
                w.feat.insert("xref-W-zero-gen-field");
            }
            let keys: Vec<u32> = all.keys().cloned().collect();
            let mut runs: Vec<(u32, u32)> = vec![];
            for k in &keys {
                let split = w.tape.chance(30);
                match runs.last_mut() {
                    Some((s, c)) if *s + *c == *k && !split => *c += 1,
                    _ => runs.push((*k, 1)),
                }
            }
            let mut data = vec![];
            for k in &keys {
                let (t, a, b) = match &all[k] {
                    XEntry::Free => (0u64, 0u64, if *k == 0 { 65535u64 } else { 0 }),
                    XEntry::InUse(o, g) => (1, *o as u64, *g as u64),
                    XEntry::Compressed(c, i) => (2, *c as u64, *i as u64),
                };
                data.extend(be(t, w1));
                data.extend(be(a, w2));
                data.extend(be(b, w3));
            }
            let size = max_num_so_far as i64 + 1;
            let mut d: ADict = vec![(B::from("Type"), AObj::name("XRef"))];
            d.extend(trailer.clone());
            d.push((B::from("Size"), AObj::Int(size)));
            d.push((B::from("W"), AObj::Array(vec![AObj::Int(w1 as i64), AObj::Int(w2 as i64), AObj::Int(w3 as i64)])));
            let default_index = runs.len() == 1 && runs[0].0 == 0 && runs[0].1 as i64 == size;
            if !default_index || w.tape.pick(2) == 1 {
                d.push((B::from("Index"), AObj::Array(runs.iter().flat_map(|(s, c)| vec![AObj::Int(*s as i64), AObj::Int(*c as i64)]).collect())));
                if runs.len() > 1 {
                    w.feat.insert("xref-Index-multi");
                }
            } else {
                w.feat.insert("xref-Index-default");
            }
            if let Some(p) = prev_xref {
                d.push((B::from("Prev"), AObj::Int(p as i64)));
            }
            match w.tape.pick(3) {
                1 => {
                    w.feat.insert("xref-stream-flate");
                    data = deflate(&data, 6);
                    d.push((B::from("Filter"), AObj::name("FlateDecode")));
                }
                2 => {
                    let cols = w1 + w2 + w3;
                    if cols > 0 && !data.is_empty() {
                        w.feat.insert("xref-stream-predictor");
                        let nrows = data.len() / cols;
                        let filters: Vec<u8> = (0..nrows).map(|_| w.tape.pick(5) as u8).collect();
                        for ft in &filters {
                            w.feat.insert(["pred-row-none", "pred-row-sub", "pred-row-up", "pred-row-average", "pred-row-paeth"][*ft as usize]);
                        }
                        let enc = png::encode(&data, 1, 8, cols, &filters);
                        data = deflate(&enc, 6);
                        d.push((B::from("Filter"), AObj::name("FlateDecode")));
                        let mut parms: ADict = vec![(B::from("Predictor"), AObj::Int(10 + w.tape.pick(6) as i64)), (B::from("Columns"), AObj::Int(cols as i64))];
                        if w.tape.pick(2) == 1 {
                            parms.push((B::from("Colors"), AObj::Int(1)));
                            parms.push((B::from("BitsPerComponent"), AObj::Int(8)));
                        }
                        // one file in four (decided by the data, not by the tape, so that older replay files render as
                        // before): the predictor stream wrapped in ASCII85, parameters as an array parallel to the filters
                        if crate::engine::fnv64(&data) % 4 == 0 {
                            w.feat.insert("xref-stream-filter-chain");
                            data = crate::refimpl::filt::ascii85::encode(&data, &Default::default());
                            d.retain(|(k, _)| k.0 != b"Filter");
                            d.push((B::from("Filter"), AObj::Array(vec![AObj::name("ASCII85Decode"), AObj::name("FlateDecode")])));
                            d.push((B::from("DecodeParms"), AObj::Array(vec![AObj::Null, AObj::Dict(parms)])));
                        } else {
                            d.push((B::from("DecodeParms"), AObj::Dict(parms)));
                        }
                    }
                }
                _ => {}
            }
            d.push((B::from("Length"), AObj::Int(data.len() as i64)));
            w.out.extend_from_slice(format!("{} 0 obj", xnum).as_bytes());
            w.dict(&d);
            w.ws(false);
            w.out.extend_from_slice(b"stream");
            w.out.extend_from_slice(if w.tape.pick(2) == 0 { &b"\n"[..] } else { &b"\r\n"[..] });
            w.out.extend_from_slice(&data);
            w.out.extend_from_slice(if w.tape.pick(2) == 0 { &b"\n"[..] } else { &b"\r\n"[..] });
            w.out.extend_from_slice(b"endstream");
            w.token(b"endobj");
        }
        // startxref … %%EOF: compact, fixed format
        w.ws(false);
        if !matches!(w.last(), b'\n' | b'\r') {
            w.out.push(b'\n');
        }
        w.out.extend_from_slice(b"startxref");
        let e = w.eol();
        w.out.extend_from_slice(e);
        w.out.extend_from_slice(xref_off.to_string().as_bytes());
        let e = w.eol();
        w.out.extend_from_slice(e);
        w.out.extend_from_slice(b"%%EOF");
        if ri + 1 < f.revisions.len() || w.tape.pick(2) == 0 {
            let e = w.eol();
            w.out.extend_from_slice(e);
        }
        prev_xref = Some(xref_off);
        res.revision_ends.push(junk_len + w.out.len());
        res.structural.push(structural);
        res.length_objects.push(length_objs);
        res.placement.push(placement);
        if ri > 0 {
            w.feat.insert("update-revision");
        }
    }
    let mut full = f.junk.0.clone();
    full.extend_from_slice(&w.out);
    res.bytes = full;
    res.features = w.feat;
    res
}
