//! zlib (RFC 1950) container with deflate stored blocks only (RFC 1951 §3.2.4).

pub fn adler32(data: &[u8]) -> u32 {
    let (mut a, mut b) = (1u32, 0u32);
    for &x in data {
        a = (a + x as u32) % 65521;
        b = (b + a) % 65521;
    }
    (b << 16) | a
}

/// Header 0x78 0x01, stored blocks of at most `block` (1..=65535) bytes, Adler-32 big-endian.
pub fn encode_stored(data: &[u8], block: usize) -> Vec<u8> {
    assert!((1..=65535).contains(&block), "block size must be 1..=65535");
    let mut out = vec![0x78, 0x01];
    let nblocks = data.len().div_ceil(block).max(1);
    for i in 0..nblocks {
        let chunk = &data[(i * block).min(data.len())..((i + 1) * block).min(data.len())];
        out.push((i + 1 == nblocks) as u8); // BFINAL bit, BTYPE = 00, padding to the byte boundary
        let len = chunk.len() as u16;
        out.extend_from_slice(&len.to_le_bytes());
        out.extend_from_slice(&(!len).to_le_bytes());
        out.extend_from_slice(chunk);
    }
    out.extend_from_slice(&adler32(data).to_be_bytes());
    out
}

#[cfg(test)]
mod tests {
    use super::*;
    use crate::refimpl::testutil::Rng;
    use std::io::Read;

    #[test]
    fn adler_known_values() {
        assert_eq!(adler32(b""), 1);
        assert_eq!(adler32(b"a"), 0x0062_0062);
        assert_eq!(adler32(b"Wikipedia"), 0x11E6_0398);
        assert_eq!(adler32(&[255; 6000]), {
            // independent formula: a = 1 + 255 n, b = n + 255 n (n + 1) / 2
            let n = 6000u64;
            (((n + 255 * n * (n + 1) / 2) % 65521) << 16 | (1 + 255 * n) % 65521) as u32
        });
    }

    #[test]
    fn exact_bytes() {
        assert_eq!(encode_stored(b"", 100), [0x78, 0x01, 0x01, 0, 0, 0xFF, 0xFF, 0, 0, 0, 1]);
        assert_eq!(
            encode_stored(b"abc", 2),
            [0x78, 0x01, 0x00, 2, 0, 0xFD, 0xFF, b'a', b'b', 0x01, 1, 0, 0xFE, 0xFF, b'c', 0x02, 0x4D, 0x01, 0x27]
        );
        assert_eq!(0x7801 % 31, 0);
    }

    #[test]
    fn flate2_decodes() {
        let mut rng = Rng(0x0123_4567_89AB_CDEF);
        let sizes = [0usize, 1, 2, 3, 255, 256, 1000, 65534, 65535, 65536, 65537, 131070, 200_000];
        for &n in &sizes {
            let data = rng.bytes(n, 256);
            for block in [1usize, 2, 7, 255, 4096, 65534, 65535] {
                if block < 7 && n > 1000 {
                    continue;
                }
                let enc = encode_stored(&data, block);
                let nblocks = n.div_ceil(block).max(1);
                assert_eq!(enc.len(), 2 + 5 * nblocks + n + 4);
                let mut dec = Vec::new();
                flate2::read::ZlibDecoder::new(&enc[..]).read_to_end(&mut dec).expect("valid zlib");
                assert_eq!(dec, data, "n {n} block {block}");
            }
        }
        for _ in 0..200 {
            let (n, block) = (rng.below(3000), 1 + rng.below(300));
            let data = rng.bytes(n, 4);
            let mut dec = Vec::new();
            flate2::read::ZlibDecoder::new(&encode_stored(&data, block)[..]).read_to_end(&mut dec).unwrap();
            assert_eq!(dec, data);
        }
    }
}
