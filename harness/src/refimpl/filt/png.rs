//! PNG row filters (PNG specification §9) as used by PDF predictors 10-15.

pub fn bytes_per_pixel(colors: usize, bits: usize) -> usize {
    (colors * bits / 8).max(1)
}

pub fn row_len(colors: usize, bits: usize, columns: usize) -> usize {
    (colors * bits * columns + 7) / 8
}

pub fn paeth(a: u8, b: u8, c: u8) -> u8 {
    let (ia, ib, ic) = (a as i32, b as i32, c as i32);
    let p = ia + ib - ic;
    let (pa, pb, pc) = ((p - ia).abs(), (p - ib).abs(), (p - ic).abs());
    if pa <= pb && pa <= pc {
        a
    } else if pb <= pc {
        b
    } else {
        c
    }
}

/// Predictor for filter type `ft` from left (a), above (b) and upper-left (c) bytes.
fn predict(ft: u8, a: u8, b: u8, c: u8) -> Option<u8> {
    Some(match ft {
        0 => 0,
        1 => a,
        2 => b,
        3 => ((a as u16 + b as u16) / 2) as u8,
        4 => paeth(a, b, c),
        _ => return None,
    })
}

/// Row `i` is filtered with type `row_filters[i % row_filters.len()]`.
/// Panics if `data` is not a whole number of rows or a filter type is > 4.
pub fn encode(data: &[u8], colors: usize, bits: usize, columns: usize, row_filters: &[u8]) -> Vec<u8> {
    if data.is_empty() {
        return Vec::new();
    }
    let (bpp, rl) = (bytes_per_pixel(colors, bits), row_len(colors, bits, columns));
    assert!(rl > 0 && data.len() % rl == 0, "data is not a whole number of rows");
    let zeros = vec![0u8; rl];
    let mut prev: &[u8] = &zeros;
    let mut out = Vec::with_capacity(data.len() + data.len() / rl);
    for (i, row) in data.chunks(rl).enumerate() {
        let ft = row_filters[i % row_filters.len()];
        out.push(ft);
        for x in 0..rl {
            let (a, c) = if x >= bpp { (row[x - bpp], prev[x - bpp]) } else { (0, 0) };
            let pred = predict(ft, a, prev[x], c).expect("filter type must be 0..=4");
            out.push(row[x].wrapping_sub(pred));
        }
        prev = row;
    }
    out
}

/// Inverse of `encode`; `None` on a tag byte > 4 or a truncated final row.
pub fn decode(data: &[u8], colors: usize, bits: usize, columns: usize) -> Option<Vec<u8>> {
    let (bpp, rl) = (bytes_per_pixel(colors, bits), row_len(colors, bits, columns));
    if data.len() % (rl + 1) != 0 {
        return None;
    }
    let mut prev = vec![0u8; rl];
    let mut out = Vec::with_capacity(data.len());
    for chunk in data.chunks(rl + 1) {
        let (ft, filtered) = (chunk[0], &chunk[1..]);
        let mut cur = Vec::with_capacity(rl);
        for x in 0..rl {
            let (a, c) = if x >= bpp { (cur[x - bpp], prev[x - bpp]) } else { (0, 0) };
            cur.push(filtered[x].wrapping_add(predict(ft, a, prev[x], c)?));
        }
        out.extend_from_slice(&cur);
        prev = cur;
    }
    Some(out)
}

#[cfg(test)]
mod tests {
    use super::*;
    use crate::refimpl::testutil::Rng;

    #[test]
    fn geometry() {
        for (c, b, bpp) in [(1, 1, 1), (1, 8, 1), (3, 4, 1), (2, 8, 2), (1, 16, 2), (3, 8, 3), (4, 8, 4), (3, 16, 6), (4, 16, 8)] {
            assert_eq!(bytes_per_pixel(c, b), bpp, "{c} {b}");
        }
        assert_eq!(row_len(1, 1, 10), 2);
        assert_eq!(row_len(1, 1, 8), 1);
        assert_eq!(row_len(3, 4, 3), 5);
        assert_eq!(row_len(3, 8, 7), 21);
        assert_eq!(row_len(4, 16, 2), 16);
        assert_eq!(row_len(1, 2, 5), 2);
    }

    #[test]
    fn paeth_values() {
        assert_eq!(paeth(0, 0, 0), 0);
        assert_eq!(paeth(7, 7, 7), 7); // all tie -> a
        assert_eq!(paeth(100, 20, 30), 100); // p=90: pa=10 pb=70 pc=60
        assert_eq!(paeth(10, 20, 100), 10); // p=-70: pa=80 pb=90 pc=170
        assert_eq!(paeth(50, 52, 51), 51); // p=51: pa=1 pb=1 pc=0
        assert_eq!(paeth(255, 0, 255), 0); // p=0: pa=255 pb=0 pc=255
        assert_eq!(paeth(255, 255, 0), 255); // p=510: pa=pb=255 -> a
        assert_eq!(paeth(0, 10, 0), 10);
        assert_eq!(paeth(20, 50, 10), 50); // p=60: pa=40 pb=10 pc=50
        assert_eq!(paeth(10, 30, 20), 20); // p=20: pa=10 pb=10 pc=0 -> c
    }

    /// (colors, bits, columns, filters, raw, expected) - all expectations computed by hand.
    fn check(c: usize, b: usize, cols: usize, f: &[u8], raw: &[u8], want: &[u8]) {
        assert_eq!(encode(raw, c, b, cols, f), want, "encode c={c} b={b} f={f:?}");
        assert_eq!(decode(want, c, b, cols).as_deref(), Some(raw), "decode c={c} b={b} f={f:?}");
    }

    #[test]
    fn hand_computed() {
        // None
        check(1, 8, 3, &[0], &[1, 2, 3, 4, 5, 6], &[0, 1, 2, 3, 0, 4, 5, 6]);
        // Sub, bpp 1 / 2 / 3 / 4
        check(1, 8, 4, &[1], &[10, 20, 30, 25], &[1, 10, 10, 10, 251]);
        check(2, 8, 2, &[1], &[5, 6, 15, 4], &[1, 5, 6, 10, 254]);
        check(3, 8, 2, &[1], &[1, 2, 3, 11, 22, 33], &[1, 1, 2, 3, 10, 20, 30]);
        check(4, 8, 2, &[1], &[1, 2, 3, 4, 2, 4, 6, 8], &[1, 1, 2, 3, 4, 1, 2, 3, 4]);
        // Sub on sub-byte samples: bpp is 1 (3 x 4 bits, 3 columns -> 5 bytes per row)
        check(3, 4, 3, &[1], &[0x12, 0x34, 0x56, 0x78, 0x90], &[1, 0x12, 0x22, 0x22, 0x22, 0x18]);
        // Up: the first row's previous row is all zeros
        check(1, 8, 3, &[2], &[1, 2, 3, 4, 1, 255], &[2, 1, 2, 3, 2, 3, 255, 252]);
        // Average, bpp 1, left + above >= 256: (100+250)/2=175, (255+100)/2=177
        check(1, 8, 3, &[0, 3], &[200, 250, 100, 100, 255, 7], &[0, 200, 250, 100, 3, 0, 80, 86]);
        // Average, bpp 6 (RGB16), single row: predictor is left/2
        check(
            3, 16, 2, &[3],
            &[10, 20, 30, 40, 50, 60, 100, 100, 100, 100, 100, 100],
            &[3, 10, 20, 30, 40, 50, 60, 95, 90, 85, 80, 75, 70],
        );
        // Paeth, bpp 1: every prediction here is b (see paeth_values)
        check(1, 8, 3, &[0, 4], &[10, 50, 90, 20, 60, 40], &[0, 10, 50, 90, 4, 10, 10, 206]);
        // Paeth, bpp 8 (CMYK16): byte 8 of row 1 has a=50 b=52 c=51 -> c; byte 0 has a=c=0 -> b
        let mut raw = vec![0u8; 32];
        (raw[0], raw[8], raw[16], raw[24]) = (51, 52, 50, 60);
        let mut want = vec![0u8; 34];
        (want[1], want[9], want[17], want[18], want[26]) = (51, 52, 4, 255, 9);
        check(4, 16, 2, &[0, 4], &raw, &want);
        // filter list cycles: rows 0,2 use Sub, row 1 uses Up
        check(1, 8, 2, &[1, 2], &[1, 3, 2, 2, 9, 4], &[1, 1, 2, 2, 1, 255, 1, 9, 251]);
        assert_eq!(encode(&[], 3, 8, 5, &[4]), Vec::<u8>::new());
        assert_eq!(decode(&[], 3, 8, 5), Some(vec![]));
    }

    #[test]
    fn decode_errors() {
        assert_eq!(decode(&[5, 1, 2, 3], 1, 8, 3), None);
        assert_eq!(decode(&[0, 1, 2, 3, 7, 1, 2, 3], 1, 8, 3), None);
        assert_eq!(decode(&[0, 1, 2], 1, 8, 3), None);
        assert_eq!(decode(&[0, 1, 2, 3, 1], 1, 8, 3), None);
    }

    #[test]
    #[should_panic]
    fn encode_partial_row_panics() {
        encode(&[1, 2, 3, 4], 1, 8, 3, &[0]);
    }

    #[test]
    fn round_trip_random() {
        let mut rng = Rng(0xDEAD_BEEF_0BAD_F00D);
        for (colors, bits) in [(1, 1), (1, 2), (3, 4), (1, 8), (2, 8), (3, 8), (4, 8), (1, 16), (3, 16), (4, 16)] {
            for columns in [1usize, 2, 3, 7, 16] {
                for rows in [1usize, 2, 5] {
                    let data = rng.bytes(rows * row_len(colors, bits, columns), 256);
                    for filters in [&[0u8][..], &[1], &[2], &[3], &[4], &[4, 3, 2, 1, 0], &[3, 4]] {
                        let enc = encode(&data, colors, bits, columns, filters);
                        assert_eq!(enc.len(), data.len() + rows);
                        assert_eq!(decode(&enc, colors, bits, columns).as_deref(), Some(&data[..]));
                    }
                }
            }
        }
    }
}
