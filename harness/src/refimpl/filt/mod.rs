//! REF-FILT — reference encoders/decoders for stream filters, written from the specifications only.
pub mod ascii85;
pub mod lzw;
pub mod png;
pub mod zlibstored;
