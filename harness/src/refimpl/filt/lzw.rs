//! LZW as used by PDF (ISO 32000-1 §7.4.4) and TIFF: 8-bit literals, 256 = clear-table,
//! 257 = EOD, first free code 258, MSB-first packing, code widths 9..=12.
//!
//! Width rule, stated on the DECODER's table (which lags the encoder's by one entry): after a
//! data code has been transferred and the decoder has `next` as the next code it would assign,
//! the width grows when `next + early_change >= 2^width` (capped at 12). So with EarlyChange 1
//! the switch to 10 bits happens after the decoder added entry 510, otherwise after entry 511.
//! Seen from the encoder (which adds entry 257+k right after writing its k-th code since the
//! last clear) that is after adding entry 511 (early) / 512 (not early); the encoder's `next`
//! *before* adding equals the decoder's `next` *after* reading, which is what `bumped` is given.
//!
//! Table full: as soon as the encoder has assigned code 4095 it writes a clear code (12 bits)
//! and starts over at 9 bits; the decoder then holds entries up to 4094, so neither side ever
//! needs a 13-bit code and code 4095 itself is never written.
use std::collections::HashMap;

const CLEAR: u16 = 256;
const EOD: u16 = 257;
const FIRST: u16 = 258;
const MAX_WIDTH: u32 = 12;
const TABLE_SIZE: u16 = 4096;

fn bumped(width: u32, next: u16, early_change: bool) -> u32 {
    if width < MAX_WIDTH && next as u32 + early_change as u32 >= (1 << width) { width + 1 } else { width }
}

struct BitWriter {
    out: Vec<u8>,
    acc: u32,
    nbits: u32,
}

impl BitWriter {
    fn put(&mut self, code: u16, width: u32) {
        debug_assert!((code as u32) < (1 << width));
        self.acc = (self.acc << width) | code as u32;
        self.nbits += width;
        while self.nbits >= 8 {
            self.nbits -= 8;
            self.out.push((self.acc >> self.nbits) as u8);
        }
        self.acc &= (1 << self.nbits) - 1;
    }
    fn finish(mut self) -> Vec<u8> {
        if self.nbits > 0 {
            self.out.push((self.acc << (8 - self.nbits)) as u8);
        }
        self.out
    }
}

/// Returns the encoded bytes and the number of clear codes written (including the initial one).
fn encode_impl(data: &[u8], early_change: bool) -> (Vec<u8>, usize) {
    let mut bw = BitWriter { out: Vec::new(), acc: 0, nbits: 0 };
    let mut dict: HashMap<(u16, u8), u16> = HashMap::new();
    let (mut width, mut next, mut clears) = (9u32, FIRST, 1usize);
    bw.put(CLEAR, width);
    let mut cur: Option<u16> = None;
    for &b in data {
        let Some(w) = cur else {
            cur = Some(b as u16);
            continue;
        };
        if let Some(&code) = dict.get(&(w, b)) {
            cur = Some(code);
            continue;
        }
        bw.put(w, width);
        width = bumped(width, next, early_change);
        dict.insert((w, b), next);
        next += 1;
        if next == TABLE_SIZE {
            bw.put(CLEAR, width);
            clears += 1;
            dict.clear();
            next = FIRST;
            width = 9;
        }
        cur = Some(b as u16);
    }
    if let Some(w) = cur {
        bw.put(w, width);
        width = bumped(width, next, early_change);
    }
    bw.put(EOD, width);
    (bw.finish(), clears)
}

pub fn encode(data: &[u8], early_change: bool) -> Vec<u8> {
    encode_impl(data, early_change).0
}

/// Reference decoder. `None` on a code that cannot be in the table (or a non-literal directly
/// after a clear). Lenient about a missing EOD: input that runs out returns what was decoded.
/// A full table (no clear after entry 4095) is tolerated: no more entries are added.
pub fn decode(data: &[u8], early_change: bool) -> Option<Vec<u8>> {
    let mut prefix = vec![0u16; TABLE_SIZE as usize];
    let mut suffix = vec![0u8; TABLE_SIZE as usize];
    let mut out = Vec::new();
    let (mut width, mut next) = (9u32, FIRST);
    let mut prev: Option<u16> = None;
    let (mut acc, mut nbits, mut pos) = (0u32, 0u32, 0usize);
    loop {
        while nbits < width {
            let Some(&byte) = data.get(pos) else { return Some(out) };
            acc = (acc << 8) | byte as u32;
            nbits += 8;
            pos += 1;
        }
        nbits -= width;
        let code = (acc >> nbits) as u16;
        acc &= (1 << nbits) - 1;
        match code {
            CLEAR => {
                width = 9;
                next = FIRST;
                prev = None;
                continue;
            }
            EOD => return Some(out),
            _ => {}
        }
        let start = out.len();
        let expand = |mut c: u16, out: &mut Vec<u8>| {
            let s = out.len();
            while c >= FIRST {
                out.push(suffix[c as usize]);
                c = prefix[c as usize];
            }
            out.push(c as u8);
            out[s..].reverse();
        };
        match prev {
            None => {
                if code > 255 {
                    return None;
                }
                out.push(code as u8);
            }
            Some(p) => {
                if code < next {
                    expand(code, &mut out);
                } else if code == next {
                    expand(p, &mut out);
                    out.push(out[start]);
                } else {
                    return None;
                }
                if next < TABLE_SIZE {
                    prefix[next as usize] = p;
                    suffix[next as usize] = out[start];
                    next += 1;
                }
            }
        }
        width = bumped(width, next, early_change);
        prev = Some(code);
    }
}

#[cfg(test)]
mod tests {
    use super::*;
    use crate::refimpl::testutil::Rng;
    use weezl::{decode::Decoder, encode::Encoder, BitOrder::Msb};

    /// Round trip + weezl cross-check in both directions, for both EarlyChange settings.
    fn check(data: &[u8]) -> usize {
        let mut clears = 0;
        for early in [true, false] {
            let (enc, n) = encode_impl(data, early);
            clears = n;
            assert_eq!(decode(&enc, early).as_deref(), Some(data), "self len {} early {early}", data.len());
            let mut wd = if early { Decoder::with_tiff_size_switch(Msb, 8) } else { Decoder::new(Msb, 8) };
            assert_eq!(wd.decode(&enc).expect("weezl accepts").as_slice(), data, "weezl len {} early {early}", data.len());
            let mut we = if early { Encoder::with_tiff_size_switch(Msb, 8) } else { Encoder::new(Msb, 8) };
            let wenc = we.encode(data).unwrap();
            assert_eq!(decode(&wenc, early).as_deref(), Some(data), "weezl-encoded len {} early {early}", data.len());
        }
        clears
    }

    #[test]
    fn spec_example_and_tiny() {
        // ISO 32000-1 §7.4.4.2 example
        let data = [45, 45, 45, 45, 45, 65, 45, 45, 45, 66];
        let want = [0x80, 0x0B, 0x60, 0x50, 0x22, 0x0C, 0x0C, 0x85, 0x01];
        assert_eq!(encode(&data, true), want);
        assert_eq!(encode(&data, false), want);
        assert_eq!(decode(&want, true).unwrap(), data);
        assert_eq!(encode(&[], true), [0x80, 0x40, 0x40]); // clear, EOD, 6 padding bits
        assert_eq!(encode(&[0xFF], false), [0x80, 0x3F, 0xE0, 0x20]); // clear, 255, EOD
        assert_eq!(decode(&[0x80, 0x40, 0x40], true).unwrap(), Vec::<u8>::new());
        assert_eq!(decode(&[], true).unwrap(), Vec::<u8>::new());
        // 256 then 258: a table code directly after clear is invalid; 256 45 260 is out of range
        assert_eq!(decode(&[0x80, 0x40, 0x80], true), None);
        assert_eq!(decode(&[0x80, 0x0B, 0x60, 0x80], true), None);
    }

    #[test]
    fn width_switch_position() {
        // 0,1,2,...: every code is a literal, so code k (1-based, after the clear) is byte k-1.
        // early: codes 1..=254 have 9 bits, from code 255 on 10 bits; not early: one code later.
        let data: Vec<u8> = (0..=255).collect();
        for (early, nine) in [(true, 254usize), (false, 255)] {
            let enc = encode(&data[..nine + 1], early);
            // clear + `nine` 9-bit codes + one 10-bit code + 10-bit EOD
            assert_eq!(enc.len(), (9 * (1 + nine) + 10 + 10 + 7) / 8, "early {early}");
            let enc = encode(&data[..nine], early);
            // the width still grows before EOD once `nine` codes have been written
            assert_eq!(enc.len(), (9 * (1 + nine) + 10 + 7) / 8);
            let enc = encode(&data[..nine - 1], early);
            assert_eq!(enc.len(), (9 * (1 + nine - 1) + 9 + 7) / 8);
            // the two settings are not interchangeable once a width switch has happened
            let enc = encode(&data, early);
            assert_ne!(decode(&enc, !early).as_deref(), Some(&data[..]));
            assert_eq!(decode(&enc, early).as_deref(), Some(&data[..]));
        }
    }

    #[test]
    fn all_short_lengths_and_random_lengths() {
        let mut rng = Rng(0x9E37_79B9_7F4A_7C15);
        for len in 0..700 {
            check(&rng.bytes(len, 256));
            check(&rng.bytes(len, 2));
        }
        for _ in 0..40 {
            let len = rng.below(20001);
            let alphabet = [1, 2, 3, 16, 256][rng.below(5)];
            check(&rng.bytes(len, alphabet));
        }
        check(&rng.bytes(20000, 256));
    }

    #[test]
    fn table_resets() {
        let mut rng = Rng(0x0DDB_A11C_0FFE_E123);
        // all-distinct: 80 permutations of 0..=255 with different odd strides -> almost only literals
        let distinct: Vec<u8> = (0..80usize).flat_map(|s| (0..256usize).map(move |x| (x * (2 * s + 1)) as u8)).collect();
        assert!(check(&distinct) >= 4, "all-distinct data must reset at least 3 times");
        assert!(check(&rng.bytes(20000, 256)) >= 4);
        // highly repetitive (tiny alphabets / periodic) yet long enough to fill the table >= 3 times
        assert!(check(&rng.bytes(150_000, 4)) >= 4);
        assert!(check(&rng.bytes(400_000, 2)) >= 4);
        let periodic: Vec<u8> = (0..3_000_000usize).map(|i| b"abcabd"[i % 6]).collect();
        assert!(check(&periodic) >= 1);
        // around every reset: cut the all-distinct data at each length near multiples of 3838 codes
        for base in [3837usize, 3838 * 2, 3838 * 3] {
            for len in base - 6..base + 8 {
                check(&distinct[..len]);
            }
        }
    }

    #[test]
    fn same_byte_runs_cross_width_switches() {
        // n equal bytes -> code k covers k bytes (KwKwK case); 254 codes cover 32385 bytes
        for len in (32_370..32_660).step_by(5).chain([1, 2, 3, 4, 5, 6, 7, 10, 130_800, 131_330, 524_000]) {
            check(&vec![0x41; len]);
        }
        // 3838 codes cover 7_367_041 bytes: a reset inside a run
        assert_eq!(check(&vec![0u8; 7_367_041 + 5000]), 2);
    }
}
