//! ASCII85 (ISO 32000-1 §7.4.3) reference encoder / decoder.

#[derive(Clone, Copy, Debug)]
pub struct A85Style {
    /// Encode an all-zero full group as `z` (otherwise `!!!!!`).
    pub use_z: bool,
    /// Append the `~>` end-of-data marker.
    pub eod: bool,
    /// Insert `ws_byte` after every this many encoded characters (0 = none).
    pub whitespace_every: usize,
    pub ws_byte: u8,
}

impl Default for A85Style {
    fn default() -> Self {
        A85Style { use_z: true, eod: true, whitespace_every: 0, ws_byte: b'\n' }
    }
}

pub fn encode(data: &[u8], style: &A85Style) -> Vec<u8> {
    let mut chars = Vec::new();
    for chunk in data.chunks(4) {
        let mut g = [0u8; 4];
        g[..chunk.len()].copy_from_slice(chunk);
        let mut v = u32::from_be_bytes(g);
        if chunk.len() == 4 && v == 0 && style.use_z {
            chars.push(b'z');
            continue;
        }
        let mut d = [0u8; 5];
        for i in (0..5).rev() {
            d[i] = b'!' + (v % 85) as u8;
            v /= 85;
        }
        chars.extend_from_slice(&d[..chunk.len() + 1]);
    }
    let mut out = Vec::new();
    for (i, &c) in chars.iter().enumerate() {
        out.push(c);
        if style.whitespace_every > 0 && (i + 1) % style.whitespace_every == 0 {
            out.push(style.ws_byte);
        }
    }
    if style.eod {
        out.extend_from_slice(b"~>"); // never split by white-space
    }
    out
}

fn group_value(g: &[u8; 5]) -> Option<u32> {
    let v = g.iter().fold(0u64, |a, &d| a * 85 + d as u64);
    u32::try_from(v).ok()
}

/// Reference decoder. `None` on: a byte that is not white-space / `!`..`u` / `z` / `~>`,
/// `z` inside a group, `~` not immediately followed by `>`, a single leftover digit,
/// or a group value above 2^32 - 1. Stops at `~>` or at the end of the input.
pub fn decode(data: &[u8]) -> Option<Vec<u8>> {
    let mut out = Vec::new();
    let mut grp = [0u8; 5];
    let mut n = 0;
    let mut i = 0;
    while i < data.len() {
        let c = data[i];
        i += 1;
        match c {
            0 | 9 | 10 | 12 | 13 | 32 => {}
            b'~' => {
                if data.get(i) != Some(&b'>') {
                    return None;
                }
                break;
            }
            b'z' => {
                if n != 0 {
                    return None;
                }
                out.extend_from_slice(&[0; 4]);
            }
            b'!'..=b'u' => {
                grp[n] = c - b'!';
                n += 1;
                if n == 5 {
                    out.extend_from_slice(&group_value(&grp)?.to_be_bytes());
                    n = 0;
                }
            }
            _ => return None,
        }
    }
    match n {
        0 => {}
        1 => return None,
        _ => {
            grp[n..].fill(84);
            out.extend_from_slice(&group_value(&grp)?.to_be_bytes()[..n - 1]);
        }
    }
    Some(out)
}

#[cfg(test)]
mod tests {
    use super::*;
    use crate::refimpl::testutil::Rng;

    const PLAIN: A85Style = A85Style { use_z: true, eod: true, whitespace_every: 0, ws_byte: b'\n' };

    #[test]
    fn small_vectors() {
        assert_eq!(encode(b"", &PLAIN), b"~>");
        assert_eq!(encode(b"Man ", &PLAIN), b"9jqo^~>");
        assert_eq!(encode(b"sure.", &PLAIN), b"F*2M7/c~>");
        assert_eq!(encode(&[0, 0, 0, 0], &PLAIN), b"z~>");
        assert_eq!(encode(&[0, 0, 0, 0], &A85Style { use_z: false, ..PLAIN }), b"!!!!!~>");
        assert_eq!(encode(&[0, 0, 0], &PLAIN), b"!!!!~>"); // partial group is never 'z'
        assert_eq!(encode(&[0], &A85Style { eod: false, ..PLAIN }), b"!!");
        assert_eq!(encode(&[255; 4], &PLAIN), b"s8W-!~>");
        assert_eq!(encode(&[255], &PLAIN), b"rr~>");
        assert_eq!(decode(b"9jqo^~>").unwrap(), b"Man ");
        assert_eq!(decode(b"9j qo\n^").unwrap(), b"Man ");
        assert_eq!(decode(b"F*2M7/c~>ignored{}").unwrap(), b"sure.");
        assert_eq!(decode(b"zz!!~>").unwrap(), [0u8; 9]);
        assert_eq!(decode(b"rr").unwrap(), [255]);
        assert_eq!(decode(b"s8W-!").unwrap(), [255; 4]);
    }

    #[test]
    fn wikipedia_example() {
        let text = "Man is distinguished, not only by his reason, but by this singular passion from \
other animals, which is a lust of the mind, that by a perseverance of delight in the continued and \
indefatigable generation of knowledge, exceeds the short vehemence of any carnal pleasure.";
        let enc = concat!(
            r#"9jqo^BlbD-BleB1DJ+*+F(f,q/0JhKF<GL>Cj@.4Gp$d7F!,L7@<6@)/0JDEF<G%<+EV:2F!,"#,
            r#"O<DJ+*.@<*K0@<6L(Df-\0Ec5e;DffZ(EZee.Bl.9pF"AGXBPCsi+DGm>@3BB/F*&OCAfu2/AKY"#,
            r#"i(DIb:@FD,*)+C]U=@3BN#EcYf8ATD3s@q?d$AftVqCh[NqF<G:8+EV:.+Cf>-FD5W8ARlolDIa"#,
            r#"l(DId<j@<?3r@:F%a+D58'ATD4$Bl@l3De:,-DJs`8ARoFb/0JMK@qB4^F!,R<AKZ&-DfTqBG%G"#,
            r#">uD.RTpAKYo'+CT/5+Cei#DII?(E,9)oF*2M7/c~>"#
        );
        assert_eq!(String::from_utf8(encode(text.as_bytes(), &PLAIN)).unwrap(), enc);
        assert_eq!(decode(enc.as_bytes()).unwrap(), text.as_bytes());
        let wrapped = encode(text.as_bytes(), &A85Style { whitespace_every: 75, ..PLAIN });
        assert_eq!(wrapped.iter().filter(|&&c| c == b'\n').count(), 4);
        assert_eq!(decode(&wrapped).unwrap(), text.as_bytes());
    }

    #[test]
    fn decode_errors() {
        assert_eq!(decode(b"!"), None); // single leftover digit
        assert_eq!(decode(b"9jqo^9~>"), None);
        assert_eq!(decode(b"s8W-\""), None); // 2^32
        assert_eq!(decode(b"uuuuu"), None);
        assert_eq!(decode(b"s8W"), None); // padded with 'u' exceeds 2^32 - 1
        assert_eq!(decode(b"!!z"), None); // z inside a group
        assert_eq!(decode(b"!!v"), None);
        assert_eq!(decode(b"!!~"), None);
        assert_eq!(decode(b"!!~ >"), None);
        assert_eq!(decode(b"!!{"), None);
    }

    #[test]
    fn whitespace_placement() {
        let s = A85Style { use_z: true, eod: true, whitespace_every: 5, ws_byte: b' ' };
        assert_eq!(encode(b"Man Man ", &s), b"9jqo^ 9jqo^ ~>");
        let s2 = A85Style { whitespace_every: 1, ws_byte: b'\r', ..s };
        assert_eq!(encode(&[0, 0, 0, 0, 255], &s2), b"z\rr\rr\r~>");
        let s3 = A85Style { whitespace_every: 3, eod: false, ..s };
        assert_eq!(encode(b"Man ", &s3), b"9jq o^");
    }

    #[test]
    fn round_trip_random() {
        let mut rng = Rng(0x1234_5678_9ABC_DEF1);
        for len in 0..300 {
            for alphabet in [1usize, 2, 256] {
                let data = rng.bytes(len, alphabet);
                for (use_z, eod, every, ws) in
                    [(true, true, 0, b' '), (false, true, 7, b'\n'), (true, false, 1, 0u8), (false, false, 64, b'\t')]
                {
                    let style = A85Style { use_z, eod, whitespace_every: every, ws_byte: ws };
                    let enc = encode(&data, &style);
                    assert_eq!(decode(&enc).as_deref(), Some(&data[..]), "len {len} {style:?}");
                    assert_eq!(enc.ends_with(b"~>"), eod);
                    assert!(use_z || !enc.contains(&b'z'));
                    let body = if eod { &enc[..enc.len() - 2] } else { &enc[..] };
                    let payload = body.iter().filter(|&&c| c != ws).count();
                    assert!(!body.contains(&b'~'));
                    if !use_z {
                        assert_eq!(payload, len / 4 * 5 + if len % 4 > 0 { len % 4 + 1 } else { 0 });
                    }
                }
            }
        }
    }
}
