//! STRICT-R — strict independent PDF reader (DESIGN.md §4, Appendix C).
//! Written from ISO 32000-1 §7.2–7.5; follows only the file structure, never searches or recovers.

use crate::model::{ADict, AObj, B};
use std::collections::{BTreeMap, BTreeSet};

#[derive(Debug, Clone)]
pub struct StrictError {
    pub rule: u32,
    pub msg: String,
}

fn err<T>(rule: u32, msg: impl Into<String>) -> Result<T, StrictError> {
    Err(StrictError { rule, msg: msg.into() })
}

#[derive(Debug, Clone, PartialEq)]
pub enum Entry {
    Free,
    InUse { offset: usize, gen: u16 },
    Compressed { container: u32, index: u32 },
}

#[derive(Debug, Clone)]
pub struct Section {
    pub offset: usize,
    pub is_stream: bool,
    pub entries: BTreeMap<u32, Entry>,
    pub trailer: ADict,
    /// object number of the xref stream itself
    pub stream_id: Option<(u32, u16)>,
    pub end: usize,
}

#[derive(Debug, Clone)]
pub struct StrictDoc {
    pub version: String,
    pub binary_mark: Vec<u8>,
    pub base: usize,
    /// newest first
    pub sections: Vec<Section>,
    /// merged view, newest wins (containers and xref streams included)
    pub objects: BTreeMap<(u32, u16), AObj>,
    /// newest trailer
    pub trailer: ADict,
    /// (start, end) of every indirect object parsed, keyed by id, for the newest revision's own objects etc.
    pub object_spans: BTreeMap<usize, (usize, (u32, u16))>,
    pub startxref: usize,
    /// number of bytes attributed
    pub accounted: usize,
}

pub fn is_ws(c: u8) -> bool {
    matches!(c, 0 | 9 | 10 | 12 | 13 | 32)
}
pub fn is_delim(c: u8) -> bool {
    b"()<>[]{}/%".contains(&c)
}
fn is_regular(c: u8) -> bool {
    !is_ws(c) && !is_delim(c)
}

pub struct Lexer<'a> {
    pub buf: &'a [u8],
    pub pos: usize,
}

#[derive(Debug, Clone, PartialEq)]
pub enum Tok {
    Int(i64),
    Real(f32),
    Name(Vec<u8>),
    LitStr(Vec<u8>),
    HexStr(Vec<u8>),
    ArrOpen,
    ArrClose,
    DictOpen,
    DictClose,
    Keyword(Vec<u8>),
    Eof,
}

impl<'a> Lexer<'a> {
    pub fn new(buf: &'a [u8], pos: usize) -> Self {
        Lexer { buf, pos }
    }
    fn peek(&self) -> Option<u8> {
        self.buf.get(self.pos).copied()
    }
    /// skip white-space and comments
    pub fn skip_ws(&mut self) {
        loop {
            match self.peek() {
                Some(c) if is_ws(c) => self.pos += 1,
                Some(b'%') => {
                    while let Some(c) = self.peek() {
                        if c == b'\r' || c == b'\n' {
                            break;
                        }
                        self.pos += 1;
                    }
                }
                _ => break,
            }
        }
    }
    pub fn next(&mut self) -> Result<Tok, StrictError> {
        self.skip_ws();
        let Some(c) = self.peek() else { return Ok(Tok::Eof) };
        match c {
            b'[' => {
                self.pos += 1;
                Ok(Tok::ArrOpen)
            }
            b']' => {
                self.pos += 1;
                Ok(Tok::ArrClose)
            }
            b'<' => {
                if self.buf.get(self.pos + 1) == Some(&b'<') {
                    self.pos += 2;
                    Ok(Tok::DictOpen)
                } else {
                    self.pos += 1;
                    self.hex_string()
                }
            }
            b'>' => {
                if self.buf.get(self.pos + 1) == Some(&b'>') {
                    self.pos += 2;
                    Ok(Tok::DictClose)
                } else {
                    err(6, format!("stray '>' at {}", self.pos))
                }
            }
            b'(' => {
                self.pos += 1;
                self.lit_string()
            }
            b'/' => {
                self.pos += 1;
                self.name()
            }
            b')' | b'{' | b'}' => err(6, format!("unexpected delimiter {:?} at {}", c as char, self.pos)),
            _ => {
                let start = self.pos;
                while let Some(c) = self.peek() {
                    if is_regular(c) {
                        self.pos += 1;
                    } else {
                        break;
                    }
                }
                let w = &self.buf[start..self.pos];
                Ok(classify_word(w))
            }
        }
    }
    fn name(&mut self) -> Result<Tok, StrictError> {
        let mut out = vec![];
        while let Some(c) = self.peek() {
            if !is_regular(c) {
                break;
            }
            if c == b'#' {
                let h = self.buf.get(self.pos + 1..self.pos + 3).ok_or(StrictError { rule: 6, msg: "truncated # escape in name".into() })?;
                let s = std::str::from_utf8(h).map_err(|_| StrictError { rule: 6, msg: "bad # escape".into() })?;
                let v = u8::from_str_radix(s, 16).map_err(|_| StrictError { rule: 6, msg: format!("bad # escape {:?} at {}", s, self.pos) })?;
                out.push(v);
                self.pos += 3;
            } else {
                out.push(c);
                self.pos += 1;
            }
        }
        Ok(Tok::Name(out))
    }
    fn hex_string(&mut self) -> Result<Tok, StrictError> {
        let mut out = vec![];
        let mut hi: Option<u8> = None;
        loop {
            let Some(c) = self.peek() else { return err(6, "unterminated hex string") };
            self.pos += 1;
            if c == b'>' {
                break;
            }
            if is_ws(c) {
                continue;
            }
            let v = (c as char).to_digit(16).ok_or(StrictError { rule: 6, msg: format!("non-hex byte {:#x} in hex string at {}", c, self.pos - 1) })? as u8;
            match hi.take() {
                None => hi = Some(v),
                Some(h) => out.push(h << 4 | v),
            }
        }
        if let Some(h) = hi {
            out.push(h << 4);
        }
        Ok(Tok::HexStr(out))
    }
    fn lit_string(&mut self) -> Result<Tok, StrictError> {
        let mut out = vec![];
        let mut depth = 1usize;
        loop {
            let Some(c) = self.peek() else { return err(6, "unterminated literal string") };
            self.pos += 1;
            match c {
                b'(' => {
                    depth += 1;
                    out.push(c)
                }
                b')' => {
                    depth -= 1;
                    if depth == 0 {
                        break;
                    }
                    out.push(c)
                }
                b'\r' => {
                    // an end-of-line marker inside a literal string reads as LF
                    if self.peek() == Some(b'\n') {
                        self.pos += 1;
                    }
                    out.push(b'\n')
                }
                b'\\' => {
                    let Some(e) = self.peek() else { return err(6, "unterminated escape") };
                    self.pos += 1;
                    match e {
                        b'n' => out.push(b'\n'),
                        b'r' => out.push(b'\r'),
                        b't' => out.push(b'\t'),
                        b'b' => out.push(8),
                        b'f' => out.push(12),
                        b'(' | b')' | b'\\' => out.push(e),
                        b'\r' => {
                            if self.peek() == Some(b'\n') {
                                self.pos += 1;
                            }
                        }
                        b'\n' => {}
                        b'0'..=b'7' => {
                            let mut v = (e - b'0') as u32;
                            for _ in 0..2 {
                                match self.peek() {
                                    Some(d @ b'0'..=b'7') => {
                                        v = v * 8 + (d - b'0') as u32;
                                        self.pos += 1;
                                    }
                                    _ => break,
                                }
                            }
                            out.push(v as u8)
                        }
                        other => out.push(other),
                    }
                }
                _ => out.push(c),
            }
        }
        Ok(Tok::LitStr(out))
    }
}

fn classify_word(w: &[u8]) -> Tok {
    let s = match std::str::from_utf8(w) {
        Ok(s) => s,
        Err(_) => return Tok::Keyword(w.to_vec()),
    };
    let body = s.strip_prefix(['+', '-']).unwrap_or(s);
    if !body.is_empty() && body.bytes().all(|c| c.is_ascii_digit()) {
        return match s.parse::<i64>() {
            Ok(v) => Tok::Int(v),
            // beyond the implementation limit: converted to a real (7.3.3)
            Err(_) => Tok::Real(s.parse::<f32>().unwrap_or(f32::INFINITY)),
        };
    }
    let digits = body.bytes().filter(|c| c.is_ascii_digit()).count();
    let dots = body.bytes().filter(|c| *c == b'.').count();
    if digits >= 1 && dots == 1 && digits + dots == body.len() {
        if let Ok(v) = s.parse::<f32>() {
            return Tok::Real(v);
        }
    }
    Tok::Keyword(w.to_vec())
}

/// parse one direct object starting at the lexer position; `first` may be a pre-read token
pub fn parse_object(lx: &mut Lexer, first: Option<Tok>, depth: usize) -> Result<AObj, StrictError> {
    if depth > 2000 {
        return err(6, "nesting too deep for the strict reader");
    }
    let t = match first {
        Some(t) => t,
        None => lx.next()?,
    };
    match t {
        Tok::Int(n) => {
            // reference look-ahead: int int R
            let save = lx.pos;
            if n >= 0 {
                if let Ok(Tok::Int(g)) = lx.next() {
                    if (0..=65535).contains(&g) {
                        let save2 = lx.pos;
                        if let Ok(Tok::Keyword(k)) = lx.next() {
                            if k == b"R" && n <= u32::MAX as i64 {
                                return Ok(AObj::Ref(n as u32, g as u16));
                            }
                        }
                        lx.pos = save2;
                    }
                }
            }
            lx.pos = save;
            Ok(AObj::Int(n))
        }
        Tok::Real(v) => Ok(AObj::Real(v.to_bits())),
        Tok::Name(n) => Ok(AObj::Name(B(n))),
        Tok::LitStr(s) => Ok(AObj::Str(B(s), false)),
        Tok::HexStr(s) => Ok(AObj::Str(B(s), true)),
        Tok::ArrOpen => {
            let mut items = vec![];
            loop {
                let t = lx.next()?;
                if t == Tok::ArrClose {
                    break;
                }
                if t == Tok::Eof {
                    return err(6, "unterminated array");
                }
                items.push(parse_object(lx, Some(t), depth + 1)?);
            }
            Ok(AObj::Array(items))
        }
        Tok::DictOpen => Ok(AObj::Dict(parse_dict_body(lx, depth)?)),
        Tok::Keyword(k) => match k.as_slice() {
            b"true" => Ok(AObj::Bool(true)),
            b"false" => Ok(AObj::Bool(false)),
            b"null" => Ok(AObj::Null),
            _ => err(6, format!("unexpected keyword {:?} at {}", String::from_utf8_lossy(&k), lx.pos)),
        },
        Tok::ArrClose | Tok::DictClose | Tok::Eof => err(6, format!("unexpected token {:?} at {}", t, lx.pos)),
    }
}

fn parse_dict_body(lx: &mut Lexer, depth: usize) -> Result<ADict, StrictError> {
    let mut d: ADict = vec![];
    loop {
        match lx.next()? {
            Tok::DictClose => break,
            Tok::Name(k) => {
                let v = parse_object(lx, None, depth + 1)?;
                if let Some(e) = d.iter_mut().find(|(k2, _)| k2.0 == k) {
                    e.1 = v;
                } else {
                    d.push((B(k), v));
                }
            }
            t => return err(6, format!("dictionary key expected, got {:?} at {}", t, lx.pos)),
        }
    }
    Ok(d)
}

fn dget<'a>(d: &'a ADict, k: &str) -> Option<&'a AObj> {
    d.iter().find(|(k2, _)| k2.0 == k.as_bytes()).map(|(_, v)| v)
}

fn dint(d: &ADict, k: &str) -> Option<i64> {
    match dget(d, k) {
        Some(AObj::Int(i)) => Some(*i),
        _ => None,
    }
}

struct Ctx<'a> {
    buf: &'a [u8],
    base: usize,
    cover: Vec<bool>,
}

impl<'a> Ctx<'a> {
    fn mark(&mut self, a: usize, b: usize) {
        for x in &mut self.cover[a..b.min(self.buf.len())] {
            *x = true;
        }
    }
}

/// Parse the indirect object at absolute position `pos`. `resolve_len` resolves an indirect /Length.
/// Returns (id, object, end position).
fn parse_indirect(
    buf: &[u8], pos: usize, resolve_len: &dyn Fn(u32, u16) -> Option<i64>,
) -> Result<((u32, u16), AObj, usize), StrictError> {
    if pos >= buf.len() {
        return err(6, format!("object offset {} beyond end of file", pos));
    }
    if !buf[pos].is_ascii_digit() {
        return err(6, format!("offset {} does not point at an object header (byte {:#x})", pos, buf[pos]));
    }
    let mut lx = Lexer::new(buf, pos);
    let (Tok::Int(n), Tok::Int(g)) = (lx.next()?, lx.next()?) else {
        return err(6, format!("no 'n g obj' header at offset {}", pos));
    };
    if lx.next()? != Tok::Keyword(b"obj".to_vec()) {
        return err(6, format!("no 'obj' keyword at offset {}", pos));
    }
    if !(0..=u32::MAX as i64).contains(&n) || !(0..=65535).contains(&g) {
        return err(6, "object header numbers out of range");
    }
    let id = (n as u32, g as u16);
    let obj = parse_object(&mut lx, None, 0)?;
    let save = lx.pos;
    let t = lx.next()?;
    if t == Tok::Keyword(b"endobj".to_vec()) {
        return Ok((id, obj, lx.pos));
    }
    if t == Tok::Keyword(b"stream".to_vec()) {
        let AObj::Dict(d) = obj else { return err(7, "stream keyword after a non-dictionary") };
        let _ = save;
        // stream keyword must be followed by CRLF or LF
        let mut p = lx.pos;
        if buf.get(p) == Some(&b'\r') && buf.get(p + 1) == Some(&b'\n') {
            p += 2;
        } else if buf.get(p) == Some(&b'\n') {
            p += 1;
        } else {
            return err(7, format!("'stream' at {} not followed by CRLF or LF", lx.pos));
        }
        let len = match dget(&d, "Length") {
            Some(AObj::Int(l)) => *l,
            Some(AObj::Ref(rn, rg)) => resolve_len(*rn, *rg).ok_or(StrictError { rule: 7, msg: format!("indirect Length {} {} R of object {} {} cannot be resolved to an integer", rn, rg, id.0, id.1) })?,
            other => return err(7, format!("stream {} {} has Length {:?}", id.0, id.1, other)),
        };
        if len < 0 || p + len as usize > buf.len() {
            return err(7, format!("stream {} {} Length {} runs past the end of the file", id.0, id.1, len));
        }
        let content = buf[p..p + len as usize].to_vec();
        let mut q = p + len as usize;
        // optional EOL
        if buf.get(q) == Some(&b'\r') && buf.get(q + 1) == Some(&b'\n') {
            q += 2;
        } else if buf.get(q) == Some(&b'\n') || buf.get(q) == Some(&b'\r') {
            q += 1;
        }
        if !buf[q..].starts_with(b"endstream") {
            return err(
                7,
                format!(
                    "stream {} {}: 'endstream' not found right after Length = {} bytes (+ optional EOL); found {:?}",
                    id.0,
                    id.1,
                    len,
                    B(buf[q..buf.len().min(q + 16)].to_vec())
                ),
            );
        }
        let mut lx2 = Lexer::new(buf, q + 9);
        if lx2.next()? != Tok::Keyword(b"endobj".to_vec()) {
            return err(6, format!("stream {} {}: 'endobj' missing after endstream", id.0, id.1));
        }
        return Ok((id, AObj::Stream(d, B(content)), lx2.pos));
    }
    err(6, format!("object {} {}: 'endobj' expected after the object body, found {:?}", id.0, id.1, t))
}

fn read_line_end(buf: &[u8], p: usize) -> Option<usize> {
    if buf.get(p) == Some(&b'\r') && buf.get(p + 1) == Some(&b'\n') {
        Some(p + 2)
    } else if buf.get(p) == Some(&b'\n') || buf.get(p) == Some(&b'\r') {
        Some(p + 1)
    } else {
        None
    }
}

fn parse_xref_table(buf: &[u8], pos: usize) -> Result<Section, StrictError> {
    let mut p = pos + 4;
    p = read_line_end(buf, p).ok_or(StrictError { rule: 3, msg: "'xref' not followed by EOL".into() })?;
    let mut entries = BTreeMap::new();
    let mut seen_subsection = false;
    loop {
        // sub-section header or 'trailer'
        let mut q = p;
        while buf.get(q).map(|c| is_ws(*c)).unwrap_or(false) {
            q += 1;
        }
        if buf[q..].starts_with(b"trailer") {
            if entries.is_empty() && !seen_subsection {
                return err(3, "cross-reference table without any sub-section");
            }
            p = q;
            break;
        }
        seen_subsection = true;
        // "first count" EOL
        let line_start = p;
        let mut e = p;
        while e < buf.len() && buf[e] != b'\r' && buf[e] != b'\n' {
            e += 1;
        }
        let line = std::str::from_utf8(&buf[line_start..e]).map_err(|_| StrictError { rule: 3, msg: "sub-section header not ASCII".into() })?;
        let parts: Vec<&str> = line.trim_end_matches(' ').split(' ').collect();
        if parts.len() != 2 || !parts.iter().all(|s| !s.is_empty() && s.bytes().all(|c| c.is_ascii_digit())) {
            return err(3, format!("bad xref sub-section header {:?} at {}", line, line_start));
        }
        let first: u64 = parts[0].parse().map_err(|_| StrictError { rule: 3, msg: "sub-section start overflow".into() })?;
        let count: u64 = parts[1].parse().map_err(|_| StrictError { rule: 3, msg: "sub-section count overflow".into() })?;
        p = read_line_end(buf, e).ok_or(StrictError { rule: 3, msg: "sub-section header without EOL".into() })?;
        for i in 0..count {
            let ent = buf.get(p..p + 20).ok_or(StrictError { rule: 3, msg: format!("xref entry {} truncated", first + i) })?;
            let ok = ent[..10].iter().all(|c| c.is_ascii_digit())
                && ent[10] == b' '
                && ent[11..16].iter().all(|c| c.is_ascii_digit())
                && ent[16] == b' '
                && (ent[17] == b'n' || ent[17] == b'f')
                && matches!(&ent[18..20], b" \n" | b" \r" | b"\r\n");
            if !ok {
                return err(3, format!("xref entry for object {} is not a well-formed 20-byte entry: {:?}", first + i, B(ent.to_vec())));
            }
            let off: usize = std::str::from_utf8(&ent[..10]).unwrap().parse().unwrap();
            let gen: u32 = std::str::from_utf8(&ent[11..16]).unwrap().parse().unwrap();
            let num = first + i;
            if num > u32::MAX as u64 {
                return err(3, "object number overflow");
            }
            if entries.contains_key(&(num as u32)) {
                return err(3, format!("object {} appears twice in one xref section", num));
            }
            if ent[17] == b'n' {
                if gen > 65535 {
                    return err(3, "generation > 65535 on an in-use entry");
                }
                entries.insert(num as u32, Entry::InUse { offset: off, gen: gen as u16 });
            } else {
                entries.insert(num as u32, Entry::Free);
            }
            p += 20;
        }
    }
    let mut lx = Lexer::new(buf, p + 7);
    if lx.next()? != Tok::DictOpen {
        return err(3, "trailer keyword not followed by a dictionary");
    }
    let trailer = parse_dict_body(&mut lx, 0)?;
    Ok(Section {
        offset: pos,
        is_stream: false,
        entries,
        trailer,
        stream_id: None,
        end: lx.pos,
    })
}

fn inflate(data: &[u8]) -> Option<Vec<u8>> {
    use std::io::Read;
    let mut out = vec![];
    flate2::read::ZlibDecoder::new(data).read_to_end(&mut out).ok()?;
    Some(out)
}

/// PNG predictor decoding (own implementation, PNG spec §9)
pub fn png_unpredict(data: &[u8], colors: usize, bits: usize, columns: usize) -> Option<Vec<u8>> {
    let bpp = std::cmp::max(1, colors * bits / 8);
    let row = (colors * bits * columns + 7) / 8;
    if row == 0 || data.len() % (row + 1) != 0 {
        return None;
    }
    let mut out: Vec<u8> = Vec::with_capacity(data.len());
    let mut prev = vec![0u8; row];
    for chunk in data.chunks(row + 1) {
        let tag = chunk[0];
        let mut cur = chunk[1..].to_vec();
        for i in 0..row {
            let a = if i >= bpp { cur[i - bpp] as i32 } else { 0 };
            let b = prev[i] as i32;
            let c = if i >= bpp { prev[i - bpp] as i32 } else { 0 };
            let pred = match tag {
                0 => 0,
                1 => a,
                2 => b,
                3 => (a + b) / 2,
                4 => {
                    let p = a + b - c;
                    let (pa, pb, pc) = ((p - a).abs(), (p - b).abs(), (p - c).abs());
                    if pa <= pb && pa <= pc {
                        a
                    } else if pb <= pc {
                        b
                    } else {
                        c
                    }
                }
                _ => return None,
            };
            cur[i] = (cur[i] as i32 + pred) as u8;
        }
        out.extend_from_slice(&cur);
        prev = cur;
    }
    Some(out)
}

/// decode the (structural) stream's data: no filter, FlateDecode with optional PNG predictor, or a chain of
/// ASCII85Decode / FlateDecode filters whose parameters, when given as an array, are parallel to the filters
pub fn decode_structural(d: &ADict, content: &[u8]) -> Result<Vec<u8>, StrictError> {
    let filters: Vec<Vec<u8>> = match dget(d, "Filter") {
        None | Some(AObj::Null) => return Ok(content.to_vec()),
        Some(AObj::Name(n)) => vec![n.0.clone()],
        Some(AObj::Array(a)) => {
            let mut v = vec![];
            for x in a {
                match x {
                    AObj::Name(n) => v.push(n.0.clone()),
                    _ => return err(4, "Filter array element is not a name"),
                }
            }
            v
        }
        other => return err(4, format!("unsupported Filter {:?} on a structural stream", other)),
    };
    let parms_for = |i: usize| -> Option<ADict> {
        match dget(d, "DecodeParms") {
            Some(AObj::Dict(p)) if filters.len() == 1 => Some(p.clone()),
            Some(AObj::Array(a)) => match a.get(i) {
                Some(AObj::Dict(p)) => Some(p.clone()),
                _ => None,
            },
            _ => None,
        }
    };
    let mut data = content.to_vec();
    for (i, filter) in filters.iter().enumerate() {
        match filter.as_slice() {
            b"ASCII85Decode" => {
                data = crate::refimpl::filt::ascii85::decode(&data).ok_or(StrictError { rule: 4, msg: "structural stream is not valid ASCII85".into() })?;
            }
            b"FlateDecode" => {
                data = inflate(&data).ok_or(StrictError { rule: 4, msg: "structural stream does not inflate".into() })?;
                if let Some(p) = parms_for(i) {
                    let pred = dint(&p, "Predictor").unwrap_or(1);
                    if pred >= 10 {
                        let colors = dint(&p, "Colors").unwrap_or(1) as usize;
                        let bits = dint(&p, "BitsPerComponent").unwrap_or(8) as usize;
                        let columns = dint(&p, "Columns").unwrap_or(1) as usize;
                        data = png_unpredict(&data, colors, bits, columns).ok_or(StrictError { rule: 4, msg: "PNG predictor data malformed".into() })?;
                    } else if pred != 1 {
                        return err(4, "TIFF predictor not supported by the strict reader");
                    }
                }
            }
            other => return err(4, format!("unsupported filter {:?} on a structural stream", String::from_utf8_lossy(other))),
        }
    }
    Ok(data)
}

fn parse_xref_stream(buf: &[u8], pos: usize) -> Result<Section, StrictError> {
    let (id, obj, end) = parse_indirect(buf, pos, &|_, _| None)?;
    let AObj::Stream(d, content) = obj else { return err(2, format!("startxref/Prev offset {} is neither 'xref' nor a stream object", pos)) };
    if dget(&d, "Type") != Some(&AObj::name("XRef")) {
        return err(2, "cross-reference stream lacks /Type /XRef");
    }
    let size = dint(&d, "Size").ok_or(StrictError { rule: 5, msg: "xref stream without integer Size".into() })?;
    let w: Vec<i64> = match dget(&d, "W") {
        Some(AObj::Array(a)) if a.len() == 3 => a.iter().map(|x| if let AObj::Int(i) = x { *i } else { -1 }).collect(),
        other => return err(4, format!("W must be an array of three integers, got {:?}", other)),
    };
    if w.iter().any(|x| *x < 0 || *x > 8) {
        return err(4, format!("W entries out of range: {:?}", w));
    }
    let index: Vec<i64> = match dget(&d, "Index") {
        None => vec![0, size],
        Some(AObj::Array(a)) if a.len() % 2 == 0 => {
            let v: Vec<i64> = a.iter().map(|x| if let AObj::Int(i) = x { *i } else { -1 }).collect();
            if v.iter().any(|x| *x < 0) {
                return err(4, "Index holds a negative or non-integer value");
            }
            v
        }
        other => return err(4, format!("Index must be an array of an even number of integers, got {:?}", other)),
    };
    let data = decode_structural(&d, &content.0)?;
    let wsum: usize = w.iter().map(|x| *x as usize).sum();
    let total: usize = index.chunks(2).map(|c| c[1] as usize).sum();
    if data.len() != total * wsum {
        return err(4, format!("xref stream data length {} != sum(Index counts) {} x sum(W) {}", data.len(), total, wsum));
    }
    let mut entries = BTreeMap::new();
    let mut p = 0usize;
    let rd = |p: &mut usize, n: usize| -> u64 {
        let mut v = 0u64;
        for _ in 0..n {
            v = v << 8 | data[*p] as u64;
            *p += 1;
        }
        v
    };
    for c in index.chunks(2) {
        for i in 0..c[1] {
            let num = c[0] + i;
            if num > u32::MAX as i64 {
                return err(4, "object number overflow in Index");
            }
            let t = if w[0] == 0 { 1 } else { rd(&mut p, w[0] as usize) };
            let f2 = rd(&mut p, w[1] as usize);
            let f3 = rd(&mut p, w[2] as usize);
            let e = match t {
                0 => Entry::Free,
                1 => {
                    if f3 > 65535 {
                        return err(4, "generation > 65535");
                    }
                    Entry::InUse { offset: f2 as usize, gen: f3 as u16 }
                }
                2 => Entry::Compressed { container: f2 as u32, index: f3 as u32 },
                _ => return err(4, format!("xref stream entry type {} for object {}", t, num)),
            };
            if entries.contains_key(&(num as u32)) {
                return err(4, format!("object {} appears twice in one xref stream", num));
            }
            entries.insert(num as u32, e);
        }
    }
    Ok(Section {
        offset: pos,
        is_stream: true,
        entries,
        trailer: d,
        stream_id: Some(id),
        end,
    })
}

/// Read a whole file strictly.
pub fn read(file: &[u8]) -> Result<StrictDoc, StrictError> {
    // rule 1: header (bytes before %PDF- are tolerated as a prefix; offsets are relative to the header)
    let base = file.windows(5).position(|w| w == b"%PDF-").ok_or(StrictError { rule: 1, msg: "no %PDF- header".into() })?;
    let buf = &file[base..];
    let mut ctx = Ctx { buf, base, cover: vec![false; buf.len()] };
    let mut e = 5;
    while e < buf.len() && buf[e] != b'\r' && buf[e] != b'\n' {
        e += 1;
    }
    let version = String::from_utf8(buf[5..e].to_vec()).map_err(|_| StrictError { rule: 1, msg: "version not UTF-8".into() })?;
    let l2 = read_line_end(buf, e).ok_or(StrictError { rule: 1, msg: "header line without EOL".into() })?;
    ctx.mark(0, l2);
    // binary comment on the second line
    let mut binary_mark = vec![];
    if buf.get(l2) == Some(&b'%') {
        let mut e2 = l2 + 1;
        while e2 < buf.len() && buf[e2] != b'\r' && buf[e2] != b'\n' {
            e2 += 1;
        }
        binary_mark = buf[l2 + 1..e2].to_vec();
        if !binary_mark.iter().all(|c| *c >= 0x80) {
            return err(1, "second-line comment holds bytes < 0x80 (not a binary marker)");
        }
    } else {
        return err(1, "binary comment missing on the second line");
    }
    // rule 2: tail
    let mut t = buf.len();
    if t >= 2 && &buf[t - 2..] == b"\r\n" {
        t -= 2;
    } else if t >= 1 && (buf[t - 1] == b'\n' || buf[t - 1] == b'\r') {
        t -= 1;
    }
    if t < 5 || &buf[t - 5..t] != b"%%EOF" {
        return err(2, "file does not end with %%EOF");
    }
    let mut q = t - 5;
    // EOL before %%EOF
    let strip_eol = |q: &mut usize| -> bool {
        if *q >= 2 && &buf[*q - 2..*q] == b"\r\n" {
            *q -= 2;
            true
        } else if *q >= 1 && (buf[*q - 1] == b'\n' || buf[*q - 1] == b'\r') {
            *q -= 1;
            true
        } else {
            false
        }
    };
    if !strip_eol(&mut q) {
        return err(2, "no EOL before %%EOF");
    }
    let dend = q;
    while q > 0 && buf[q - 1].is_ascii_digit() {
        q -= 1;
    }
    if q == dend {
        return err(2, "no digits before %%EOF");
    }
    let startxref: usize = std::str::from_utf8(&buf[q..dend]).unwrap().parse().map_err(|_| StrictError { rule: 2, msg: "startxref overflow".into() })?;
    if !strip_eol(&mut q) {
        return err(2, "no EOL between startxref and its number");
    }
    if q < 9 || &buf[q - 9..q] != b"startxref" {
        return err(2, "startxref keyword missing");
    }
    // sections
    let mut sections: Vec<Section> = vec![];
    let mut seen = BTreeSet::new();
    let mut next = Some(startxref);
    while let Some(off) = next {
        if !seen.insert(off) {
            return err(5, "Prev chain has a cycle");
        }
        if off >= buf.len() {
            return err(2, format!("cross-reference offset {} beyond end of file", off));
        }
        let sec = if buf[off..].starts_with(b"xref") {
            parse_xref_table(buf, off)?
        } else {
            parse_xref_stream(buf, off)?
        };
        ctx.mark(sec.offset, sec.end);
        next = match dget(&sec.trailer, "Prev") {
            None => None,
            Some(AObj::Int(p)) if *p >= 0 => {
                if (*p as usize) >= off {
                    return err(5, format!("Prev {} does not point at an earlier section than {}", p, off));
                }
                Some(*p as usize)
            }
            other => return err(5, format!("Prev is {:?}", other)),
        };
        if dget(&sec.trailer, "XRefStm").is_some() {
            return err(5, "hybrid-reference file (XRefStm) not supported by the strict reader");
        }
        sections.push(sec);
    }
    // rule 5: Size of the newest section exceeds every object number
    let newest_size = dint(&sections[0].trailer, "Size").ok_or(StrictError { rule: 5, msg: "Size missing or not an integer".into() })?;
    for s in &sections {
        let size = dint(&s.trailer, "Size").ok_or(StrictError { rule: 5, msg: "Size missing or not an integer in an older section".into() })?;
        if let Some(m) = s.entries.iter().filter(|(_, e)| **e != Entry::Free).map(|(k, _)| *k).max() {
            if m as i64 >= size {
                return err(5, format!("Size {} does not exceed object number {} of its own section", size, m));
            }
            if m as i64 >= newest_size {
                return err(5, format!("newest Size {} does not exceed object number {}", newest_size, m));
            }
        }
    }
    // merged entries, newest wins
    let mut merged: BTreeMap<u32, Entry> = BTreeMap::new();
    for s in &sections {
        for (k, e) in &s.entries {
            merged.entry(*k).or_insert_with(|| e.clone());
        }
    }
    // every in-use entry of every section: parse the object it points to
    let mut spans: BTreeMap<usize, (usize, (u32, u16))> = BTreeMap::new();
    let mut parsed_at: BTreeMap<usize, ((u32, u16), AObj)> = BTreeMap::new();
    // resolver for indirect Length: look up in merged entries, parse that object (must be an integer, not in an ObjStm… or in one)
    let merged_ref = merged.clone();
    let resolve_len = move |n: u32, g: u16| -> Option<i64> {
        match merged_ref.get(&n)? {
            Entry::InUse { offset, gen } if *gen == g => {
                let (_, o, _) = parse_indirect(buf, *offset, &|_, _| None).ok()?;
                if let AObj::Int(i) = o {
                    Some(i)
                } else {
                    None
                }
            }
            Entry::Compressed { container, index } => {
                // length stored inside an object stream
                let Entry::InUse { offset, .. } = merged_ref.get(container)? else { return None };
                let (_, o, _) = parse_indirect(buf, *offset, &|_, _| None).ok()?;
                let AObj::Stream(d, c) = o else { return None };
                let members = expand_objstm(&d, &c.0).ok()?;
                match members.get(*index as usize) {
                    Some((num, AObj::Int(i))) if *num == n => Some(*i),
                    _ => None,
                }
            }
            _ => None,
        }
    };
    for s in &sections {
        let mut offsets_in_section = BTreeSet::new();
        for (num, e) in &s.entries {
            if let Entry::InUse { offset, gen } = e {
                if !offsets_in_section.insert(*offset) {
                    return err(8, format!("two in-use entries of one section point at offset {}", offset));
                }
                if !parsed_at.contains_key(offset) {
                    let (id, obj, end) = parse_indirect(buf, *offset, &resolve_len)?;
                    parsed_at.insert(*offset, (id, obj));
                    spans.insert(*offset, (end, id));
                    ctx.mark(*offset, end);
                }
                let (id, _) = &parsed_at[offset];
                if *id != (*num, *gen) {
                    return err(6, format!("entry for object {} {} points at offset {} where object {} {} lives", num, gen, offset, id.0, id.1));
                }
            }
        }
    }
    // merged object view
    let mut objects: BTreeMap<(u32, u16), AObj> = BTreeMap::new();
    for (num, e) in &merged {
        match e {
            Entry::InUse { offset, gen } => {
                objects.insert((*num, *gen), parsed_at[offset].1.clone());
            }
            Entry::Compressed { container, index } => {
                let Some(Entry::InUse { offset, .. }) = merged.get(container) else {
                    return err(6, format!("object {} lives in container {} which is not an in-use object", num, container));
                };
                let AObj::Stream(d, c) = &parsed_at[offset].1 else { return err(6, format!("container {} is not a stream", container)) };
                if dget(d, "Type") != Some(&AObj::name("ObjStm")) {
                    return err(6, format!("container {} lacks /Type /ObjStm", container));
                }
                let members = expand_objstm(d, &c.0)?;
                match members.get(*index as usize) {
                    Some((n2, o)) if n2 == num => {
                        objects.insert((*num, 0), o.clone());
                    }
                    other => return err(6, format!("object {} not at index {} of container {} (found {:?})", num, index, container, other.map(|x| x.0))),
                }
            }
            Entry::Free => {}
        }
    }
    // rule 9: byte accounting
    let mut accounted = ctx.cover.iter().filter(|c| **c).count();
    let mut i = 0;
    while i < buf.len() {
        if ctx.cover[i] {
            i += 1;
            continue;
        }
        let mut j = i;
        while j < buf.len() && !ctx.cover[j] {
            j += 1;
        }
        check_gap(&buf[i..j], i)?;
        accounted += j - i;
        i = j;
    }
    // rule 8 (second half): every "n g obj" at a line start is the target of an entry — covered by rule 9,
    // because an unreferenced object is not white-space/comment/startxref and fails the gap grammar.
    Ok(StrictDoc {
        version,
        binary_mark,
        base,
        trailer: sections[0].trailer.clone(),
        sections,
        objects,
        object_spans: spans,
        startxref,
        accounted: accounted + base,
    })
}

/// gap grammar: (white-space | comment | "startxref" ws digits)*
fn check_gap(g: &[u8], at: usize) -> Result<(), StrictError> {
    let mut p = 0;
    while p < g.len() {
        let c = g[p];
        if is_ws(c) {
            p += 1;
        } else if c == b'%' {
            while p < g.len() && g[p] != b'\r' && g[p] != b'\n' {
                p += 1;
            }
        } else if g[p..].starts_with(b"startxref") {
            p += 9;
            let ws = p;
            while p < g.len() && is_ws(g[p]) {
                p += 1;
            }
            let d = p;
            while p < g.len() && g[p].is_ascii_digit() {
                p += 1;
            }
            if ws == d || d == p {
                return err(9, format!("malformed startxref block at byte {}", at + p));
            }
        } else {
            return err(
                9,
                format!("unattributed bytes at offset {}: {:?}", at + p, B(g[p..g.len().min(p + 40)].to_vec())),
            );
        }
    }
    Ok(())
}

/// expand an object stream: returns (object number, object) in index order
pub fn expand_objstm(d: &ADict, content: &[u8]) -> Result<Vec<(u32, AObj)>, StrictError> {
    let data = decode_structural(d, content)?;
    let n = dint(d, "N").ok_or(StrictError { rule: 6, msg: "ObjStm without N".into() })?;
    let first = dint(d, "First").ok_or(StrictError { rule: 6, msg: "ObjStm without First".into() })?;
    if n < 0 || first < 0 || first as usize > data.len() {
        return err(6, "ObjStm N/First out of range");
    }
    let mut lx = Lexer::new(&data[..first as usize], 0);
    let mut pairs = vec![];
    for _ in 0..n {
        let (Tok::Int(num), Tok::Int(off)) = (lx.next()?, lx.next()?) else { return err(6, "ObjStm index block malformed") };
        if num < 0 || off < 0 {
            return err(6, "ObjStm index block holds a negative number");
        }
        pairs.push((num as u32, off as usize));
    }
    let mut out = vec![];
    for (num, off) in pairs {
        let start = first as usize + off;
        if start > data.len() {
            return err(6, "ObjStm member offset out of range");
        }
        let mut lx = Lexer::new(&data, start);
        out.push((num, parse_object(&mut lx, None, 0)?));
    }
    Ok(out)
}
