//! lv — verification harness for lopdf (see /verif/DESIGN.md).

use lv::{alloc, engine, props, worker};

#[global_allocator]
static GLOBAL: alloc::Counting = alloc::Counting;

use engine::{Run, Tier};

fn usage() -> ! {
    eprintln!("usage: lv check <ID> | lv replay <ID> <file> | lv selftest | lv worker");
    std::process::exit(2)
}

fn tier_from_env() -> Tier {
    match std::env::var("VERIF_TIER").as_deref() {
        Ok("thorough") => Tier::Thorough,
        _ => Tier::Quick,
    }
}

fn seed_from_env() -> u64 {
    std::env::var("VERIF_SEED").ok().and_then(|s| s.parse::<i64>().ok()).map(|v| v as u64).unwrap_or(1)
}

fn static_id(id: &str) -> &'static str {
    const IDS: &[&str] = &[
        "C01", "C02", "C03", "C04", "C05", "C06", "C07", "C08", "C09", "C10", "C11", "C12", "C13", "C14", "C15", "C16", "C17",
        "C18", "C19",
    ];
    IDS.iter().find(|x| **x == id).copied().unwrap_or_else(|| usage())
}

fn main() {
    let args: Vec<String> = std::env::args().collect();
    if args.len() < 2 {
        usage();
    }
    match args[1].as_str() {
        "check" => {
            if args.len() < 3 {
                usage();
            }
            engine::quiet_panics();
            // safety net for the sandbox: a runaway allocation inside an in-process property aborts this
            // process (the driver reports exit 2, inconclusive) instead of exhausting the machine
            alloc::arm(usize::MAX, 24usize << 30);
            let id = static_id(&args[2]);
            let mut run = Run::new(id, tier_from_env(), seed_from_env());
            match props::registry(id) {
                Some((f, _)) => f(&mut run),
                None => {
                    eprintln!("property {} has no check in this build", id);
                    std::process::exit(2);
                }
            }
            std::process::exit(run.finish());
        }
        "worker" => {
            worker::worker_main(props::entries::dispatch);
        }
        "inproc" => {
            // triage helper: run a C04 replay case in this process (for gdb): lv inproc <replay.json>
            let text = std::fs::read_to_string(&args[2]).expect("read replay");
            let file: serde_json::Value = serde_json::from_str(&text).expect("json");
            let case: props::c04::Case = engine::replay_case(&file).expect("case");
            let (entry, payload) = case.materialise();
            if std::env::var("VERIF_DUMP").is_ok() {
                std::fs::write("/tmp/case.bin", &payload).unwrap();
            }
            let (status, info) = worker::run_guarded(entry, &payload, props::entries::dispatch);
            println!("{} {}", status, info);
        }
        "c18-chrono" => {
            props::c18::chrono_child();
        }
        "digest-server" => {
            engine::quiet_panics();
            props::c08::digest_server();
        }
        "replay" => {
            if args.len() < 4 {
                usage();
            }
            let id = static_id(&args[2]);
            let text = std::fs::read_to_string(&args[3]).unwrap_or_else(|e| {
                eprintln!("cannot read {}: {}", args[3], e);
                std::process::exit(2)
            });
            let file: serde_json::Value = serde_json::from_str(&text).unwrap_or_else(|e| {
                eprintln!("cannot parse {}: {}", args[3], e);
                std::process::exit(2)
            });
            let verdict = match props::registry(id) {
                Some((_, r)) => r(&file),
                None => Err(format!("no replay for {}", id)),
            };
            match verdict {
                Ok(Ok(_)) => {
                    println!("replay: property {} holds on this case", id);
                    std::process::exit(0)
                }
                Ok(Err(v)) => {
                    eprintln!("replay: kind={} detail={}", v.kind, v.detail);
                    println!("VIOLATION property={} replay={}", id, args[3]);
                    std::process::exit(1)
                }
                Err(e) => {
                    eprintln!("replay error: {}", e);
                    std::process::exit(2)
                }
            }
        }
        _ => usage(),
    }
}
