//! Coverage-guided campaigns (thorough tier of the totality properties): cargo-fuzz / libFuzzer targets from
//! `harness/fuzz`, started from a generated corpus, run in fork mode under a wall-clock budget. libFuzzer only
//! *proposes* inputs: every artifact it saves (crash, timeout, out-of-memory) is re-run in the isolated worker, and
//! only a failure the worker confirms becomes a VIOLATION with an ordinary replay file. An artifact the worker
//! handles cleanly is counted and otherwise ignored (different stack size / allocator / time limits in the fuzz
//! binary), so this phase cannot raise an alarm the generated campaigns' oracle would not raise.

use super::{fnv64, verif_root, CampaignSummary, Run, Violation};
use crate::model::B;
use crate::props::crash::crash_check;
use crate::props::fuzzdec;
use serde_json::{json, Value};
use std::collections::BTreeMap;
use std::path::{Path, PathBuf};
use std::process::{Command, Stdio};
use std::time::{Duration, Instant};

fn fuzz_dir() -> PathBuf {
    verif_root().join("harness").join("fuzz")
}

/// seconds per target; 0 = phase disabled. Thorough tier: 900 unless VERIF_FUZZ_SECS says otherwise; quick tier: only
/// when VERIF_FUZZ_SECS is set (used to try the phase out).
pub fn budget(run: &Run) -> u64 {
    let env = std::env::var("VERIF_FUZZ_SECS").ok().and_then(|v| v.parse::<u64>().ok());
    match (run.tier, env) {
        (_, Some(s)) => s,
        (super::Tier::Thorough, None) => 900,
        _ => 0,
    }
}

fn build() -> Result<PathBuf, String> {
    let mut cmd = Command::new("cargo");
    cmd.args(["+nightly", "fuzz", "build", "-O", "-s", "none"])
        .current_dir(verif_root().join("harness"))
        .env("CARGO_NET_OFFLINE", "true")
        // same code generation as the worker: optimised, integer-overflow checks on, hooks compiled in
        .env("RUSTFLAGS", "--cfg lopdf_verif -Coverflow-checks=on")
        .env_remove("CARGO_TARGET_DIR")
        .stdout(Stdio::piped())
        .stderr(Stdio::piped());
    let out = cmd.output().map_err(|e| format!("cannot start cargo fuzz: {}", e))?;
    if !out.status.success() {
        let err = String::from_utf8_lossy(&out.stderr);
        let tail: String = err.lines().rev().take(25).collect::<Vec<_>>().into_iter().rev().collect::<Vec<_>>().join("\n");
        return Err(format!("cargo +nightly fuzz build failed:\n{}", tail));
    }
    let dir = fuzz_dir().join("target").join("x86_64-unknown-linux-gnu").join("release");
    if !dir.is_dir() {
        return Err(format!("fuzz build output not found at {}", dir.display()));
    }
    Ok(dir)
}

fn fresh(dir: &Path) -> Result<(), String> {
    let _ = std::fs::remove_dir_all(dir);
    std::fs::create_dir_all(dir).map_err(|e| format!("cannot create {}: {}", dir.display(), e))
}

#[derive(Default, Debug)]
struct Stats {
    execs: u64,
    cov: u64,
    ft: u64,
    corp: u64,
    oom: u64,
    timeout: u64,
    crash: u64,
}

/// last status line of the fork-mode parent: `#N: cov: C ft: F corp: K exec/s E oom/timeout/crash: a/b/c time: Ts …`
fn parse_stats(log: &str) -> Stats {
    let mut st = Stats::default();
    for line in log.lines() {
        let t: Vec<&str> = line.split_whitespace().collect();
        if t.len() < 10 || !t[0].starts_with('#') || !t[0].ends_with(':') || t[1] != "cov:" {
            continue;
        }
        let num = |s: &str| s.trim_matches(|c: char| !c.is_ascii_digit()).parse::<u64>().unwrap_or(0);
        st.execs = st.execs.max(num(t[0]));
        for i in 1..t.len() - 1 {
            match t[i] {
                "cov:" => st.cov = num(t[i + 1]),
                "ft:" => st.ft = num(t[i + 1]),
                "corp:" => st.corp = num(t[i + 1]),
                "oom/timeout/crash:" => {
                    let p: Vec<u64> = t[i + 1].split('/').map(num).collect();
                    if p.len() == 3 {
                        st.oom = p[0];
                        st.timeout = p[1];
                        st.crash = p[2];
                    }
                }
                _ => {}
            }
        }
    }
    st
}

fn list_files(dir: &Path) -> Vec<PathBuf> {
    let mut v: Vec<PathBuf> = std::fs::read_dir(dir).map(|rd| rd.filter_map(|e| e.ok()).map(|e| e.path()).filter(|p| p.is_file()).collect()).unwrap_or_default();
    v.sort();
    v
}

/// Run the libFuzzer phase for `targets`; `mk_case` wraps (entry, payload) into the property's replay case.
pub fn phase(run: &mut Run, targets: &[&str], mk_case: &dyn Fn(u8, &[u8]) -> Value) {
    let secs = budget(run);
    if secs == 0 || run.violations.iter().any(|v| v.violation.kind.starts_with("hang")) {
        return;
    }
    let bins = match build() {
        Ok(d) => d,
        Err(e) => {
            eprintln!("{}", e);
            run.inconclusive.push(format!("libfuzzer: {}", super::truncate(&e, 400)));
            return;
        }
    };
    let prop = run.prop;
    for target in targets {
        let t0 = Instant::now();
        let name = format!("libfuzzer-{}", target);
        let base = fuzz_dir();
        let seeds_dir = base.join("corpus").join(format!("{}-{}-seed", prop, target));
        let corpus_dir = base.join("corpus").join(format!("{}-{}-run", prop, target));
        let art_dir = base.join("artifacts").join(format!("{}-{}", prop, target));
        let tmp_dir = base.join("tmp").join(format!("{}-{}", prop, target));
        if let Err(e) = fresh(&seeds_dir).and_then(|_| fresh(&corpus_dir)).and_then(|_| fresh(&art_dir)).and_then(|_| fresh(&tmp_dir)) {
            run.inconclusive.push(format!("{}: {}", name, e));
            continue;
        }
        let seeds = fuzzdec::seed_corpus(target, run.seed, 300);
        for (i, s) in seeds.iter().enumerate() {
            let _ = std::fs::write(seeds_dir.join(format!("seed-{:04}", i)), s);
        }
        let jobs = run.threads.clamp(1, 16);
        let log_path = art_dir.join("fuzz.log");
        let log_file = match std::fs::File::create(&log_path) {
            Ok(f) => f,
            Err(e) => {
                run.inconclusive.push(format!("{}: cannot create log: {}", name, e));
                continue;
            }
        };
        let mut art_prefix = art_dir.to_string_lossy().to_string();
        art_prefix.push('/');
        let mut child = match Command::new(bins.join(target))
            .arg(&corpus_dir)
            .arg(&seeds_dir)
            .arg(format!("-artifact_prefix={}", art_prefix))
            .arg(format!("-fork={}", jobs))
            .arg(format!("-max_total_time={}", secs))
            .arg(format!("-seed={}", (run.seed % 0xffff_fff0) + 1))
            .args(["-max_len=65536", "-len_control=0", "-timeout=30", "-rss_limit_mb=6144", "-malloc_limit_mb=1024", "-ignore_crashes=1", "-ignore_timeouts=1", "-ignore_ooms=1", "-print_final_stats=1"])
            .env("TMPDIR", &tmp_dir)
            .current_dir(&tmp_dir)
            .stdin(Stdio::null())
            .stdout(Stdio::null())
            .stderr(log_file)
            .spawn()
        {
            Ok(c) => c,
            Err(e) => {
                run.inconclusive.push(format!("{}: cannot start the fuzz binary: {}", name, e));
                continue;
            }
        };
        // the parent honours -max_total_time; a generous watchdog on top
        let deadline = Instant::now() + Duration::from_secs(secs + 300);
        let status = loop {
            match child.try_wait() {
                Ok(Some(s)) => break Some(s),
                Ok(None) if Instant::now() > deadline => {
                    let _ = child.kill();
                    let _ = child.wait();
                    break None;
                }
                Ok(None) => std::thread::sleep(Duration::from_millis(500)),
                Err(_) => break None,
            }
        };
        let log = std::fs::read_to_string(&log_path).unwrap_or_default();
        let st = parse_stats(&log);
        if status.is_none() || st.execs == 0 {
            let tail: Vec<&str> = log.lines().rev().take(8).collect();
            run.inconclusive.push(format!("{}: the campaign did not run to completion ({} executions): {:?}", name, st.execs, tail));
        }
        // confirmation of saved artifacts in the isolated worker
        let mut arts: Vec<PathBuf> = list_files(&art_dir).into_iter().filter(|p| {
            let n = p.file_name().map(|n| n.to_string_lossy().to_string()).unwrap_or_default();
            n.starts_with("crash-") || n.starts_with("oom-") || n.starts_with("timeout-") || n.starts_with("leak-")
        }).collect();
        arts.sort_by_key(|p| std::fs::metadata(p).map(|m| m.len()).unwrap_or(u64::MAX));
        let n_art = arts.len();
        let (mut confirmed, mut not_confirmed, mut known) = (0u64, 0u64, 0u64);
        'arts: for a in arts.iter().take(60) {
            let Ok(data) = std::fs::read(a) else { continue };
            let mut any = false;
            for (entry, payload) in fuzzdec::entries_for(target, &data) {
                let mut rep = super::CaseReport::new();
                match crash_check(prop, entry, &payload, &mut rep) {
                    Ok(_) => {
                        if !rep.excluded.is_empty() {
                            known += 1;
                            any = true;
                        }
                    }
                    Err(v) => {
                        any = true;
                        confirmed += 1;
                        let case = mk_case(entry, &payload);
                        let v = Violation::new(&v.kind, format!("{}\nfound by libFuzzer target '{}' (artifact {})", v.detail, target, a.file_name().map(|n| n.to_string_lossy().to_string()).unwrap_or_default()));
                        run.report_violation(&name, &case, v, None);
                        break 'arts;
                    }
                }
            }
            if !any {
                not_confirmed += 1;
            }
        }
        let new_units = list_files(&corpus_dir);
        let mut samples: Vec<Value> = vec![];
        let mut by_size = new_units.clone();
        by_size.sort_by_key(|p| std::fs::metadata(p).map(|m| m.len()).unwrap_or(0));
        for p in by_size.iter().filter(|p| std::fs::metadata(p).map(|m| m.len() >= 16 && m.len() <= 600).unwrap_or(false)).rev().take(2) {
            if let Ok(d) = std::fs::read(p) {
                samples.push(json!({"libfuzzer_target": target, "corpus_unit": p.file_name().map(|n| n.to_string_lossy().to_string()), "bytes": B(d)}));
            }
        }
        let mut labels: BTreeMap<String, u64> = BTreeMap::new();
        labels.insert("coverage-counters".to_string(), st.cov);
        labels.insert("features".to_string(), st.ft);
        labels.insert("seed-inputs".to_string(), seeds.len() as u64);
        labels.insert("artifacts-saved".to_string(), n_art as u64);
        labels.insert("artifacts-confirmed-in-worker".to_string(), confirmed);
        labels.insert("artifacts-matching-a-known-finding".to_string(), known);
        labels.insert("artifacts-handled-cleanly-by-the-worker".to_string(), not_confirmed);
        labels.insert("libfuzzer-oom/timeout/crash-events".to_string(), st.oom + st.timeout + st.crash);
        run.campaigns.push(CampaignSummary {
            name: name.clone(),
            evaluations: st.execs,
            distinct_nontrivial: new_units.len() as u64,
            labels,
            excluded: BTreeMap::new(),
            samples,
            exhaustive: false,
            note: format!(
                "cargo-fuzz target '{}', fork mode x{}, {} s budget, libFuzzer -seed derived from VERIF_SEED (pins the campaign only approximately); evaluations = executions reported by libFuzzer; distinct non-trivial = inputs libFuzzer kept because they reached new coverage (corpus {:016x})",
                target, jobs, secs, fnv64(format!("{:?}", new_units.iter().map(|p| p.file_name().map(|n| n.to_os_string())).collect::<Vec<_>>()).as_bytes())
            ),
            wall_s: t0.elapsed().as_secs_f64(),
        });
        let _ = std::fs::remove_dir_all(&tmp_dir);
        let _ = std::fs::remove_dir_all(&seeds_dir);
    }
}
