//! known_findings.json (DESIGN.md §5.4). Read-only at run time.

use serde_json::Value;

#[derive(Default, Clone)]
pub struct KnownFindings {
    pub entries: Vec<Value>,
}

impl KnownFindings {
    pub fn load() -> Self {
        let path = super::verif_root().join("known_findings.json");
        let entries = std::fs::read_to_string(&path)
            .ok()
            .and_then(|s| serde_json::from_str::<Value>(&s).ok())
            .and_then(|v| v.get("findings").and_then(|f| f.as_array().cloned()))
            .unwrap_or_default();
        KnownFindings { entries }
    }
    fn get(&self, id: &str) -> Option<&Value> {
        self.entries.iter().find(|e| e.get("id").and_then(|i| i.as_str()) == Some(id))
    }
    pub fn status(&self, id: &str) -> Option<String> {
        self.get(id).and_then(|e| e.get("status")).and_then(|s| s.as_str()).map(|s| s.to_string())
    }
    pub fn is_open(&self, id: &str) -> bool {
        self.status(id).as_deref() == Some("open")
    }
    pub fn what(&self, id: &str) -> String {
        self.get(id).and_then(|e| e.get("what")).and_then(|s| s.as_str()).unwrap_or(id).to_string()
    }
    pub fn demo(&self, id: &str) -> Option<String> {
        self.get(id).and_then(|e| e.get("demo")).and_then(|s| s.as_str()).map(|s| s.to_string())
    }
    pub fn for_property(&self, prop: &str) -> Vec<(String, String)> {
        self.entries
            .iter()
            .filter(|e| e.get("property").and_then(|p| p.as_str()) == Some(prop))
            .filter_map(|e| Some((e.get("id")?.as_str()?.to_string(), e.get("status")?.as_str()?.to_string())))
            .collect()
    }
    /// crash-signature allow-list for a property (open findings only): (entry, failure kind, lopdf fn substring, message substring)
    pub fn crash_signatures(&self, prop: &str) -> Vec<(String, CrashSig)> {
        self.entries
            .iter()
            .filter(|e| e.get("property").and_then(|p| p.as_str()) == Some(prop))
            .filter(|e| e.get("status").and_then(|p| p.as_str()) == Some("open"))
            .filter_map(|e| {
                let s = |k: &str| e.get(k).and_then(|v| v.as_str()).map(|s| s.to_string());
                Some((
                    s("id")?,
                    CrashSig {
                        entry: s("entry"),
                        failure: s("failure")?,
                        lopdf_fn: s("lopdf_fn"),
                        message: s("message"),
                    },
                ))
            })
            .collect()
    }
}

#[derive(Clone, Debug)]
pub struct CrashSig {
    pub entry: Option<String>,
    pub failure: String,
    pub lopdf_fn: Option<String>,
    pub message: Option<String>,
}
