//! Property engine: sharded proptest runner, labels, distinct non-trivial counting,
//! evidence files, replay files and known-finding triage (DESIGN.md §3.3, §5).

use proptest::strategy::Strategy;
use proptest::test_runner::{Config as PtConfig, RngSeed, TestCaseError, TestError, TestRunner};
use serde::de::DeserializeOwned;
use serde::Serialize;
use serde_json::{json, Value};
use std::collections::{BTreeMap, HashSet};
use std::fmt::Debug;
use std::sync::atomic::{AtomicBool, Ordering};
use std::sync::Mutex;
use std::time::Instant;

pub mod known;
pub mod libfuzzer;

#[derive(Clone, Copy, PartialEq, Eq, Debug)]
pub enum Tier {
    Quick,
    Thorough,
}

impl Tier {
    pub fn name(self) -> &'static str {
        match self {
            Tier::Quick => "quick",
            Tier::Thorough => "thorough",
        }
    }
    /// pick a count by tier
    pub fn pick(self, quick: u64, thorough: u64) -> u64 {
        let scale = std::env::var("VERIF_SCALE").ok().and_then(|s| s.parse::<f64>().ok()).unwrap_or(1.0);
        let n = match self {
            Tier::Quick => quick,
            Tier::Thorough => thorough,
        };
        ((n as f64) * scale).max(1.0) as u64
    }
}

/// What a property closure reports for a passing case.
#[derive(Default, Clone, Debug)]
pub struct CaseReport {
    pub nontrivial: bool,
    pub labels: Vec<&'static str>,
    /// constructs removed from the case by a known-finding switch, or cases skipped as outside the domain
    pub excluded: Vec<&'static str>,
}

impl CaseReport {
    pub fn new() -> Self {
        Self::default()
    }
    pub fn label(&mut self, l: &'static str) {
        if !self.labels.contains(&l) {
            self.labels.push(l);
        }
    }
    pub fn label_if(&mut self, c: bool, l: &'static str) {
        if c {
            self.label(l)
        }
    }
    pub fn exclude(&mut self, l: &'static str) {
        self.excluded.push(l);
    }
}

#[derive(Clone, Debug, Serialize, serde::Deserialize)]
pub struct Violation {
    pub kind: String,
    pub detail: String,
}

impl Violation {
    pub fn new(kind: &str, detail: impl Into<String>) -> Self {
        Violation {
            kind: kind.to_string(),
            detail: detail.into(),
        }
    }
}

pub type Verdict = Result<CaseReport, Violation>;

#[macro_export]
macro_rules! viol {
    ($kind:expr, $($arg:tt)*) => {
        $crate::engine::Violation::new($kind, format!($($arg)*))
    };
}

/// FNV-1a 64 — fixed, process-independent hash (no RandomState inside a property).
pub fn fnv64(data: &[u8]) -> u64 {
    let mut h: u64 = 0xcbf29ce484222325;
    for &b in data {
        h ^= b as u64;
        h = h.wrapping_mul(0x100000001b3);
    }
    h
}

pub fn mix(seed: u64, prop: &str, campaign: &str, shard: u64) -> u64 {
    let mut v = Vec::new();
    v.extend_from_slice(&seed.to_le_bytes());
    v.extend_from_slice(prop.as_bytes());
    v.push(0);
    v.extend_from_slice(campaign.as_bytes());
    v.push(0);
    v.extend_from_slice(&shard.to_le_bytes());
    let h = fnv64(&v);
    // one splitmix round to spread
    let mut z = h.wrapping_add(0x9E3779B97F4A7C15);
    z = (z ^ (z >> 30)).wrapping_mul(0xBF58476D1CE4E5B9);
    z = (z ^ (z >> 27)).wrapping_mul(0x94D049BB133111EB);
    z ^ (z >> 31)
}

#[derive(Default)]
struct CampaignStats {
    evaluations: u64,
    nontrivial_hashes: HashSet<u64>,
    labels: BTreeMap<&'static str, u64>,
    excluded: BTreeMap<&'static str, u64>,
    samples: Vec<Value>,
    biggest_nontrivial: Option<(usize, Value)>,
}

pub struct CampaignSummary {
    pub name: String,
    pub evaluations: u64,
    pub distinct_nontrivial: u64,
    pub labels: BTreeMap<String, u64>,
    pub excluded: BTreeMap<String, u64>,
    pub samples: Vec<Value>,
    pub exhaustive: bool,
    pub note: String,
    pub wall_s: f64,
}

pub struct FoundViolation {
    pub campaign: String,
    pub violation: Violation,
    pub replay_path: String,
    pub known: Option<String>,
}

/// One run of one property's check.
pub struct Run {
    pub prop: &'static str,
    pub tier: Tier,
    pub seed: u64,
    pub threads: usize,
    pub level: &'static str,
    pub rule: String,
    pub assumptions: Vec<String>,
    pub config_name: String,
    pub campaigns: Vec<CampaignSummary>,
    pub violations: Vec<FoundViolation>,
    pub known_hit: Vec<String>,
    pub extra: BTreeMap<String, Value>,
    pub inconclusive: Vec<String>,
    start: Instant,
    known: known::KnownFindings,
}

/// One KNOWN-FINDING line per finding and check: when a check runs in two build configurations the second one
/// (VERIF_PART=seq) reports on stderr only.
pub fn known_line(prop: &str, what: &str, id: &str) {
    if std::env::var("VERIF_PART").map(|p| p == "seq").unwrap_or(false) {
        eprintln!("known finding (also met in the sequential configuration): property={} [{}]", prop, id);
    } else {
        println!("KNOWN-FINDING: property={} {} [{}]", prop, what, id);
    }
}

pub fn verif_root() -> std::path::PathBuf {
    std::env::var("VERIF_ROOT").map(Into::into).unwrap_or_else(|_| "/verif".into())
}

impl Run {
    pub fn new(prop: &'static str, tier: Tier, seed: u64) -> Run {
        let threads = std::env::var("VERIF_THREADS")
            .ok()
            .and_then(|s| s.parse().ok())
            .unwrap_or_else(|| std::thread::available_parallelism().map(|n| n.get()).unwrap_or(4).min(16));
        Run {
            prop,
            tier,
            seed,
            threads,
            level: "exploration",
            rule: String::new(),
            assumptions: vec![],
            config_name: if cfg!(feature = "par") { "par".into() } else { "seq".into() },
            campaigns: vec![],
            violations: vec![],
            known_hit: vec![],
            extra: BTreeMap::new(),
            inconclusive: vec![],
            start: Instant::now(),
            known: known::KnownFindings::load(),
        }
    }

    pub fn known(&self) -> &known::KnownFindings {
        &self.known
    }

    /// Is the generator switch of an *open* known finding active (i.e. must the construct be excluded)?
    pub fn finding_open(&self, id: &str) -> bool {
        self.known.is_open(id)
    }

    /// Run a generated campaign: `cases` cases of `strat`, sharded over the worker threads.
    /// `classify` maps a (shrunk case, violation) to the id of a known finding, if it is one.
    pub fn campaign<T, S, M, F, C>(&mut self, name: &str, make: M, cases: u64, f: F, classify: C)
    where
        T: Debug + Clone + Serialize + Send + 'static,
        S: Strategy<Value = T>,
        M: Fn() -> S + Sync,
        F: Fn(&T) -> Verdict + Sync,
        C: Fn(&T, &Violation) -> Option<&'static str>,
    {
        if self.violations.iter().any(|v| v.violation.kind.starts_with("hang")) {
            // every further case that hangs costs a watchdog period plus a confirmation: the verdict (exit 1) is already
            // decided, so the remaining campaigns are skipped rather than run into the driver's time limit
            eprintln!("campaign {} skipped: a confirmed hang was already reported in this run", name);
            self.extra.insert(format!("skipped_after_hang:{}", name), json!(true));
            return;
        }
        let t0 = Instant::now();
        let shards = self.threads.max(1).min(cases.max(1) as usize);
        let stats = Mutex::new(CampaignStats::default());
        let stop = AtomicBool::new(false);
        let per = cases / shards as u64;
        let rem = cases % shards as u64;
        let mut results: Vec<Option<(String, Option<T>)>> = Vec::new();
        let verbose = std::env::var("VERIF_VERBOSE").is_ok();
        std::thread::scope(|sc| {
            let mut handles = vec![];
            for shard in 0..shards {
                let n = per + if (shard as u64) < rem { 1 } else { 0 };
                let make = &make;
                let stats = &stats;
                let stop = &stop;
                let f = &f;
                let seed = mix(self.seed, self.prop, name, shard as u64);
                let h = std::thread::Builder::new()
                    .stack_size(64 << 20)
                    .spawn_scoped(sc, move || {
                        if n == 0 {
                            return None;
                        }
                        let cfg = PtConfig {
                            cases: n as u32,
                            failure_persistence: None,
                            rng_seed: RngSeed::Fixed(seed),
                            max_shrink_iters: 20000,
                            // a failing case that hangs costs a watchdog period per shrink step: bound the time, not only the steps
                            max_shrink_time: std::env::var("VERIF_SHRINK_MS").ok().and_then(|v| v.parse().ok()).unwrap_or(300_000),
                            max_global_rejects: 65536,
                            verbose: 0,
                            ..PtConfig::default()
                        };
                        let strat = make();
                        let mut runner = TestRunner::new(cfg);
                        let failed = AtomicBool::new(false);
                        let res = runner.run(&strat, |case| {
                            if !failed.load(Ordering::Relaxed) && stop.load(Ordering::Relaxed) {
                                // another shard failed: finish quickly, do not count
                                return Ok(());
                            }
                            match f(&case) {
                                Ok(rep) => {
                                    if !failed.load(Ordering::Relaxed) {
                                        let ser = serde_json::to_vec(&case).unwrap_or_default();
                                        let mut st = stats.lock().unwrap();
                                        st.evaluations += 1;
                                        for l in &rep.labels {
                                            *st.labels.entry(l).or_insert(0) += 1;
                                        }
                                        for l in &rep.excluded {
                                            *st.excluded.entry(l).or_insert(0) += 1;
                                        }
                                        if rep.nontrivial {
                                            let h = fnv64(&ser);
                                            if st.nontrivial_hashes.insert(h) {
                                                let take = st.samples.len() < 2;
                                                let bigger = st
                                                    .biggest_nontrivial
                                                    .as_ref()
                                                    .map(|(l, _)| ser.len() > *l && ser.len() < 6000)
                                                    .unwrap_or(ser.len() < 6000);
                                                if take || bigger {
                                                    let v: Value = serde_json::from_slice(&ser).unwrap_or(Value::Null);
                                                    if take && ser.len() < 6000 {
                                                        st.samples.push(v.clone());
                                                    }
                                                    if bigger {
                                                        st.biggest_nontrivial = Some((ser.len(), v));
                                                    }
                                                }
                                            }
                                        }
                                    }
                                    Ok(())
                                }
                                Err(v) => {
                                    failed.store(true, Ordering::Relaxed);
                                    stop.store(true, Ordering::Relaxed);
                                    Err(TestCaseError::fail(format!("{}\u{1f}{}", v.kind, v.detail)))
                                }
                            }
                        });
                        match res {
                            Ok(()) => None,
                            Err(TestError::Fail(reason, value)) => Some((reason.message().to_string(), Some(value))),
                            Err(TestError::Abort(reason)) => Some((reason.message().to_string(), None)),
                        }
                    })
                    .unwrap();
                handles.push(h);
            }
            for h in handles {
                match h.join() {
                    Ok(r) => results.push(r),
                    Err(_) => results.push(None),
                }
            }
        });
        let st = stats.into_inner().unwrap();
        let mut samples = st.samples;
        if let Some((_, v)) = st.biggest_nontrivial {
            if !samples.contains(&v) {
                samples.push(v);
            }
        }
        let summary = CampaignSummary {
            name: name.to_string(),
            evaluations: st.evaluations,
            distinct_nontrivial: st.nontrivial_hashes.len() as u64,
            labels: st.labels.iter().map(|(k, v)| (k.to_string(), *v)).collect(),
            excluded: st.excluded.iter().map(|(k, v)| (k.to_string(), *v)).collect(),
            samples,
            exhaustive: false,
            note: String::new(),
            wall_s: t0.elapsed().as_secs_f64(),
        };
        if verbose {
            eprintln!(
                "[{}] campaign {}: {} evals, {} distinct non-trivial, {:.1}s, labels {:?}",
                self.prop, name, summary.evaluations, summary.distinct_nontrivial, summary.wall_s, summary.labels
            );
        }
        self.campaigns.push(summary);
        // first failing shard wins
        let mut aborted = vec![];
        let mut first = None;
        for r in results.into_iter().flatten() {
            match r {
                (reason, Some(v)) => {
                    if first.is_none() {
                        first = Some((reason, v));
                    }
                }
                (reason, None) => aborted.push(reason),
            }
        }
        for a in aborted {
            self.inconclusive.push(format!("campaign {} aborted by proptest (generator problem): {}", name, a));
        }
        if let Some((reason, value)) = first {
            // re-run the oracle on the shrunk value for the definitive violation
            let violation = match f(&value) {
                Err(v) => v,
                Ok(_) => {
                    let mut it = reason.splitn(2, '\u{1f}');
                    let kind = it.next().unwrap_or("unknown").to_string();
                    let detail = it.next().unwrap_or("").to_string();
                    Violation {
                        kind: format!("{}(not-reproduced-on-rerun)", kind),
                        detail,
                    }
                }
            };
            let known = classify(&value, &violation).map(|s| s.to_string());
            self.report_violation(name, &value, violation, known);
        }
    }

    /// Run an enumerated (non-proptest) campaign: the caller iterates; we provide counting.
    pub fn enumerated<T, I, F>(&mut self, name: &str, items: I, exhaustive: bool, note: &str, f: F)
    where
        T: Debug + Clone + Serialize + Send + Sync,
        I: IntoIterator<Item = T>,
        F: Fn(&T) -> Verdict + Sync,
    {
        let t0 = Instant::now();
        let items: Vec<T> = items.into_iter().collect();
        let stats = Mutex::new(CampaignStats::default());
        let first_fail: Mutex<Option<(usize, T, Violation)>> = Mutex::new(None);
        let threads = self.threads.max(1);
        let chunk = (items.len() + threads - 1) / threads.max(1);
        std::thread::scope(|sc| {
            for (ci, part) in items.chunks(chunk.max(1)).enumerate() {
                let stats = &stats;
                let first_fail = &first_fail;
                let f = &f;
                std::thread::Builder::new()
                    .stack_size(64 << 20)
                    .spawn_scoped(sc, move || {
                        let mut local = CampaignStats::default();
                        for (i, item) in part.iter().enumerate() {
                            let idx = ci * chunk + i;
                            {
                                let ff = first_fail.lock().unwrap();
                                if let Some((fi, _, _)) = &*ff {
                                    if *fi < idx {
                                        break;
                                    }
                                }
                            }
                            let r = std::panic::catch_unwind(std::panic::AssertUnwindSafe(|| f(item)));
                            let r = match r {
                                Ok(r) => r,
                                Err(p) => Err(Violation::new("panic", panic_message(&p))),
                            };
                            match r {
                                Ok(rep) => {
                                    local.evaluations += 1;
                                    for l in &rep.labels {
                                        *local.labels.entry(l).or_insert(0) += 1;
                                    }
                                    for l in &rep.excluded {
                                        *local.excluded.entry(l).or_insert(0) += 1;
                                    }
                                    if rep.nontrivial {
                                        let ser = serde_json::to_vec(item).unwrap_or_default();
                                        if local.nontrivial_hashes.insert(fnv64(&ser)) && local.samples.len() < 1 && ser.len() < 6000 {
                                            local.samples.push(serde_json::from_slice(&ser).unwrap_or(Value::Null));
                                        }
                                    }
                                }
                                Err(v) => {
                                    let mut ff = first_fail.lock().unwrap();
                                    let better = ff.as_ref().map(|(fi, _, _)| idx < *fi).unwrap_or(true);
                                    if better {
                                        *ff = Some((idx, item.clone(), v));
                                    }
                                    break;
                                }
                            }
                        }
                        let mut st = stats.lock().unwrap();
                        st.evaluations += local.evaluations;
                        st.nontrivial_hashes.extend(local.nontrivial_hashes);
                        for (k, v) in local.labels {
                            *st.labels.entry(k).or_insert(0) += v;
                        }
                        for (k, v) in local.excluded {
                            *st.excluded.entry(k).or_insert(0) += v;
                        }
                        if st.samples.len() < 3 {
                            st.samples.extend(local.samples);
                        }
                    })
                    .unwrap();
            }
        });
        let st = stats.into_inner().unwrap();
        let failed = first_fail.into_inner().unwrap();
        self.campaigns.push(CampaignSummary {
            name: name.to_string(),
            evaluations: st.evaluations,
            distinct_nontrivial: st.nontrivial_hashes.len() as u64,
            labels: st.labels.iter().map(|(k, v)| (k.to_string(), *v)).collect(),
            excluded: st.excluded.iter().map(|(k, v)| (k.to_string(), *v)).collect(),
            samples: st.samples,
            exhaustive: exhaustive && failed.is_none(),
            note: note.to_string(),
            wall_s: t0.elapsed().as_secs_f64(),
        });
        if std::env::var("VERIF_VERBOSE").is_ok() {
            let c = self.campaigns.last().unwrap();
            eprintln!(
                "[{}] enumerated {}: {} evals, {} distinct non-trivial, {:.1}s",
                self.prop, name, c.evaluations, c.distinct_nontrivial, c.wall_s
            );
        }
        if let Some((_, item, v)) = failed {
            self.report_violation(name, &item, v, None);
        }
    }

    /// Record a counted block of work done outside `campaign`/`enumerated` (e.g. worker-process campaigns).
    pub fn add_summary(&mut self, s: CampaignSummary) {
        if std::env::var("VERIF_VERBOSE").is_ok() {
            eprintln!(
                "[{}] block {}: {} evals, {} distinct non-trivial, {:.1}s, labels {:?}",
                self.prop, s.name, s.evaluations, s.distinct_nontrivial, s.wall_s, s.labels
            );
        }
        self.campaigns.push(s);
    }

    pub fn report_violation<T: Serialize + Debug>(&mut self, campaign: &str, case: &T, violation: Violation, known: Option<String>) {
        if let Some(k) = &known {
            if self.known.is_open(k) {
                let what = self.known.what(k);
                if !self.known_hit.contains(k) {
                    known_line(self.prop, &what, k);
                    self.known_hit.push(k.clone());
                }
                eprintln!("known finding {} met in campaign {}", k, campaign);
                return;
            }
        }
        if violation.kind.starts_with("harness-") {
            // the harness's own reference (writer, model) failed its cross-check: not a verdict about lopdf
            eprintln!("harness self-check failed in {} / {}: {} {}", self.prop, campaign, violation.kind, truncate(&violation.detail, 3000));
            self.inconclusive.push(format!("{}: {}: {}", campaign, violation.kind, truncate(&violation.detail, 300)));
            let dir = verif_root().join("replays").join(self.prop);
            let _ = std::fs::create_dir_all(&dir);
            let _ = std::fs::write(
                dir.join(format!("harness-{}.json", campaign)),
                serde_json::to_string_pretty(&json!({"property": self.prop, "campaign": campaign, "kind": violation.kind, "detail": violation.detail,
                    "case": serde_json::to_value(case).unwrap_or(Value::Null)})).unwrap(),
            );
            return;
        }
        let body = json!({
            "property": self.prop,
            "campaign": campaign,
            "config": self.config_name,
            "tier": self.tier.name(),
            "seed": self.seed,
            "kind": violation.kind,
            "detail": violation.detail,
            "case": serde_json::to_value(case).unwrap_or(Value::Null),
        });
        let text = serde_json::to_string_pretty(&body).unwrap();
        let dir = verif_root().join("replays").join(self.prop);
        let _ = std::fs::create_dir_all(&dir);
        let path = dir.join(format!("{}-{:016x}.json", campaign, fnv64(text.as_bytes())));
        let _ = std::fs::write(&path, &text);
        let p = path.to_string_lossy().to_string();
        eprintln!(
            "violation in {} / {}: kind={} detail={}",
            self.prop,
            campaign,
            violation.kind,
            truncate(&violation.detail, 1200)
        );
        println!("VIOLATION property={} replay={}", self.prop, p);
        self.violations.push(FoundViolation {
            campaign: campaign.to_string(),
            violation,
            replay_path: p,
            known,
        });
    }

    /// Report a byte-level violation (C04-style): the replay file is the raw input + side-car.
    pub fn report_raw_violation(&mut self, campaign: &str, entry: &str, input: &[u8], violation: Violation) {
        let dir = verif_root().join("replays").join(self.prop);
        let _ = std::fs::create_dir_all(&dir);
        let h = fnv64(input);
        let path = dir.join(format!("{}-{}-{:016x}.bin", campaign, entry, h));
        let _ = std::fs::write(&path, input);
        let _ = std::fs::write(
            path.with_extension("json"),
            serde_json::to_string_pretty(&json!({"property": self.prop, "campaign": campaign, "entry": entry,
                "kind": violation.kind, "detail": violation.detail, "input_file": path.to_string_lossy()}))
            .unwrap(),
        );
        let p = path.to_string_lossy().to_string();
        eprintln!("violation in {} / {} entry={}: kind={} detail={}", self.prop, campaign, entry, violation.kind, truncate(&violation.detail, 1200));
        println!("VIOLATION property={} replay={}", self.prop, p);
        self.violations.push(FoundViolation {
            campaign: campaign.to_string(),
            violation,
            replay_path: p,
            known: None,
        });
    }

    /// Replay tier for a known finding's demo: `still_fails` is the outcome of running the demo.
    pub fn known_demo(&mut self, id: &str, outcome: Result<(), Violation>) {
        let status = self.known.status(id);
        match (status.as_deref(), outcome) {
            (Some("open"), Err(_)) => {
                if !self.known_hit.iter().any(|k| k == id) {
                    known_line(self.prop, &self.known.what(id), id);
                    self.known_hit.push(id.to_string());
                }
            }
            (Some("open"), Ok(())) => {
                eprintln!("note: demo of open known finding {} no longer fails", id);
            }
            (_, Ok(())) => {}
            (_, Err(v)) => {
                // fixed (or unlisted) finding came back: a violation
                let v2 = Violation::new(&v.kind, format!("regression of fixed finding {}: {}", id, v.detail));
                let demo = self.known.demo(id).unwrap_or_default();
                eprintln!("violation in {}: fixed finding {} fails again: {}", self.prop, id, truncate(&v.detail, 1000));
                let p = verif_root().join(demo).to_string_lossy().to_string();
                println!("VIOLATION property={} replay={}", self.prop, p);
                self.violations.push(FoundViolation {
                    campaign: format!("known-demo:{}", id),
                    violation: v2,
                    replay_path: p,
                    known: None,
                });
            }
        }
    }

    /// Replay tier: run every committed demo of this property's known findings through `replay`.
    pub fn replay_known_demos(&mut self, replay: impl Fn(&Value) -> Result<Verdict, String>) {
        let list = self.known.for_property(self.prop);
        let mut n = 0u64;
        for (id, _status) in list {
            let Some(demo) = self.known.demo(&id) else { continue };
            if !demo.ends_with(".json") {
                continue;
            }
            let path = verif_root().join(&demo);
            let Ok(text) = std::fs::read_to_string(&path) else {
                self.inconclusive.push(format!("demo {} of finding {} cannot be read", demo, id));
                continue;
            };
            let Ok(file) = serde_json::from_str::<Value>(&text) else {
                self.inconclusive.push(format!("demo {} of finding {} is not JSON", demo, id));
                continue;
            };
            n += 1;
            match replay(&file) {
                Ok(Ok(_)) => self.known_demo(&id, Ok(())),
                Ok(Err(v)) => self.known_demo(&id, Err(v)),
                Err(e) => self.inconclusive.push(format!("demo {} of finding {}: {}", demo, id, e)),
            }
        }
        self.extra.insert("known_demos_replayed".into(), json!(n));
    }

    pub fn totals(&self) -> (u64, u64) {
        let e = self.campaigns.iter().map(|c| c.evaluations).sum();
        let d = self.campaigns.iter().map(|c| c.distinct_nontrivial).sum();
        (e, d)
    }

    pub fn evidence_value(&self) -> Value {
        let (evaluations, distinct) = self.totals();
        let mut samples: Vec<Value> = vec![];
        for c in &self.campaigns {
            for s in c.samples.iter().take(2) {
                if samples.len() < 8 {
                    samples.push(json!({"campaign": c.name, "case": s}));
                }
            }
        }
        if samples.is_empty() {
            samples.push(json!("no sample captured (campaigns too large to serialise or none non-trivial)"));
        }
        let mut labels: BTreeMap<String, u64> = BTreeMap::new();
        let mut excluded: BTreeMap<String, u64> = BTreeMap::new();
        let mut camp = vec![];
        for c in &self.campaigns {
            for (k, v) in &c.labels {
                *labels.entry(format!("{}:{}", c.name, k)).or_insert(0) += v;
            }
            for (k, v) in &c.excluded {
                *excluded.entry(format!("{}:{}", c.name, k)).or_insert(0) += v;
            }
            camp.push(json!({"name": c.name, "evaluations": c.evaluations, "distinct_nontrivial": c.distinct_nontrivial,
                "exhaustive": c.exhaustive, "note": c.note, "wall_s": (c.wall_s*100.0).round()/100.0}));
        }
        let all_exh = !self.campaigns.is_empty() && self.campaigns.iter().all(|c| c.exhaustive);
        let mut coverage = json!({
            "evaluations": evaluations,
            "distinct_nontrivial": distinct,
            "rule": self.rule,
            "samples": samples,
            "labels": labels,
            "excluded": excluded,
            "campaigns": camp,
            "configs": [self.config_name],
            "known_findings_hit": self.known_hit,
            "exhaustive": all_exh,
            "inconclusive": self.inconclusive,
        });
        for (k, v) in &self.extra {
            coverage[k] = v.clone();
        }
        json!({
            "property_id": self.prop,
            "tier": self.tier.name(),
            "seed": self.seed,
            "level": self.level,
            "coverage": coverage,
            "assumptions": self.assumptions,
            "wall_s": (self.start.elapsed().as_secs_f64()*100.0).round()/100.0,
            "violations": self.violations.len(),
        })
    }

    /// Write evidence (or an evidence part when VERIF_PART is set) and return the exit code.
    pub fn finish(self) -> i32 {
        let ev = self.evidence_value();
        let dir = verif_root().join("evidence");
        let _ = std::fs::create_dir_all(&dir);
        let path = match std::env::var("VERIF_PART") {
            Ok(p) if !p.is_empty() => {
                let d = dir.join(".parts");
                let _ = std::fs::create_dir_all(&d);
                d.join(format!("{}.{}.json", self.prop, p))
            }
            _ => dir.join(format!("{}.json", self.prop)),
        };
        if let Err(e) = std::fs::write(&path, serde_json::to_string_pretty(&ev).unwrap()) {
            eprintln!("cannot write evidence {}: {}", path.display(), e);
            return 2;
        }
        let (e, d) = self.totals();
        eprintln!(
            "[{}] {} tier, seed {}, config {}: {} evaluations, {} distinct non-trivial, {} violation(s), {} known finding(s), {:.1}s",
            self.prop,
            self.tier.name(),
            self.seed,
            self.config_name,
            e,
            d,
            self.violations.len(),
            self.known_hit.len(),
            self.start.elapsed().as_secs_f64()
        );
        if !self.violations.is_empty() {
            1
        } else if !self.inconclusive.is_empty() {
            for i in &self.inconclusive {
                eprintln!("inconclusive: {}", i);
            }
            2
        } else {
            0
        }
    }
}

pub fn truncate(s: &str, n: usize) -> String {
    if s.len() <= n {
        s.to_string()
    } else {
        let mut end = n;
        while !s.is_char_boundary(end) {
            end -= 1;
        }
        format!("{}…[{} bytes]", &s[..end], s.len())
    }
}

pub fn panic_message(p: &Box<dyn std::any::Any + Send>) -> String {
    if let Some(s) = p.downcast_ref::<&str>() {
        s.to_string()
    } else if let Some(s) = p.downcast_ref::<String>() {
        s.clone()
    } else {
        "non-string panic payload".to_string()
    }
}

/// Run a closure, converting a panic into a Violation of kind "panic".
pub fn no_panic<R>(what: &str, f: impl FnOnce() -> R) -> Result<R, Violation> {
    match std::panic::catch_unwind(std::panic::AssertUnwindSafe(f)) {
        Ok(r) => Ok(r),
        Err(p) => Err(Violation::new("panic", format!("{} panicked: {}", what, panic_message(&p)))),
    }
}

/// Deserialise the `case` field of a replay file.
pub fn replay_case<T: DeserializeOwned>(file: &Value) -> Result<T, String> {
    let case = file.get("case").cloned().unwrap_or_else(|| file.clone());
    serde_json::from_value(case).map_err(|e| format!("cannot deserialise case: {}", e))
}

/// Install a quiet panic hook (panics inside properties are reported as violations, not printed).
pub fn quiet_panics() {
    if std::env::var("VERIF_PANIC_TRACE").is_ok() {
        return;
    }
    std::panic::set_hook(Box::new(|_| {}));
}
