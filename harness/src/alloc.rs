//! Counting allocator (DESIGN.md §3.4): observes the largest single request and refuses requests that are
//! unrelated to the input size while a limit is armed (worker process only).

use std::alloc::{GlobalAlloc, Layout, System};
use std::sync::atomic::{AtomicUsize, Ordering};

pub struct Counting;

static SINGLE_LIMIT: AtomicUsize = AtomicUsize::new(usize::MAX);
static TOTAL_LIMIT: AtomicUsize = AtomicUsize::new(usize::MAX);
static REFUSED_SINGLE: AtomicUsize = AtomicUsize::new(0);
static REFUSED_TOTAL: AtomicUsize = AtomicUsize::new(0);
static MAX_REQUEST: AtomicUsize = AtomicUsize::new(0);
static CURRENT: AtomicUsize = AtomicUsize::new(0);
static PEAK: AtomicUsize = AtomicUsize::new(0);

/// arm the limits for one case and reset the per-case observations
pub fn arm(single: usize, total: usize) {
    REFUSED_SINGLE.store(0, Ordering::SeqCst);
    REFUSED_TOTAL.store(0, Ordering::SeqCst);
    MAX_REQUEST.store(0, Ordering::SeqCst);
    PEAK.store(CURRENT.load(Ordering::SeqCst), Ordering::SeqCst);
    SINGLE_LIMIT.store(single, Ordering::SeqCst);
    TOTAL_LIMIT.store(CURRENT.load(Ordering::SeqCst).saturating_add(total), Ordering::SeqCst);
}

pub fn disarm() {
    SINGLE_LIMIT.store(usize::MAX, Ordering::SeqCst);
    TOTAL_LIMIT.store(usize::MAX, Ordering::SeqCst);
}

pub struct Observed {
    pub refused_single: usize,
    pub refused_total: usize,
    pub max_request: usize,
    pub peak: usize,
}

pub fn observed() -> Observed {
    Observed {
        refused_single: REFUSED_SINGLE.load(Ordering::SeqCst),
        refused_total: REFUSED_TOTAL.load(Ordering::SeqCst),
        max_request: MAX_REQUEST.load(Ordering::SeqCst),
        peak: PEAK.load(Ordering::SeqCst),
    }
}

#[inline]
fn admit(size: usize) -> bool {
    if size > MAX_REQUEST.load(Ordering::Relaxed) {
        MAX_REQUEST.store(size, Ordering::Relaxed);
    }
    if size > SINGLE_LIMIT.load(Ordering::Relaxed) {
        REFUSED_SINGLE.store(size, Ordering::SeqCst);
        return false;
    }
    let cur = CURRENT.fetch_add(size, Ordering::Relaxed) + size;
    if cur > TOTAL_LIMIT.load(Ordering::Relaxed) {
        CURRENT.fetch_sub(size, Ordering::Relaxed);
        REFUSED_TOTAL.store(cur, Ordering::SeqCst);
        return false;
    }
    if cur > PEAK.load(Ordering::Relaxed) {
        PEAK.store(cur, Ordering::Relaxed);
    }
    true
}

unsafe impl GlobalAlloc for Counting {
    unsafe fn alloc(&self, layout: Layout) -> *mut u8 {
        if !admit(layout.size()) {
            return std::ptr::null_mut();
        }
        let p = System.alloc(layout);
        if p.is_null() {
            CURRENT.fetch_sub(layout.size(), Ordering::Relaxed);
        }
        p
    }
    unsafe fn dealloc(&self, ptr: *mut u8, layout: Layout) {
        CURRENT.fetch_sub(layout.size(), Ordering::Relaxed);
        System.dealloc(ptr, layout)
    }
    unsafe fn alloc_zeroed(&self, layout: Layout) -> *mut u8 {
        if !admit(layout.size()) {
            return std::ptr::null_mut();
        }
        let p = System.alloc_zeroed(layout);
        if p.is_null() {
            CURRENT.fetch_sub(layout.size(), Ordering::Relaxed);
        }
        p
    }
    unsafe fn realloc(&self, ptr: *mut u8, layout: Layout, new_size: usize) -> *mut u8 {
        if new_size > layout.size() {
            if !admit(new_size - layout.size()) {
                return std::ptr::null_mut();
            }
            // the single-request rule looks at the whole new block
            if new_size > SINGLE_LIMIT.load(Ordering::Relaxed) {
                CURRENT.fetch_sub(new_size - layout.size(), Ordering::Relaxed);
                REFUSED_SINGLE.store(new_size, Ordering::SeqCst);
                return std::ptr::null_mut();
            }
            if new_size > MAX_REQUEST.load(Ordering::Relaxed) {
                MAX_REQUEST.store(new_size, Ordering::Relaxed);
            }
        } else {
            CURRENT.fetch_sub(layout.size() - new_size, Ordering::Relaxed);
        }
        let p = System.realloc(ptr, layout, new_size);
        if p.is_null() && new_size > layout.size() {
            CURRENT.fetch_sub(new_size - layout.size(), Ordering::Relaxed);
        }
        p
    }
}
