//! lv — verification harness for lopdf (see /verif/DESIGN.md). Library part: engine, generators, reference
//! implementations and properties; `main.rs` is the command-line front end, `fuzz/` holds the libFuzzer targets.

pub mod alloc;
pub mod canon;
pub mod engine;
pub mod gen;
pub mod model;
pub mod props;
pub mod refimpl;
pub mod worker;

/// re-exports for the fuzz targets (which do not depend on lopdf directly)
pub type LopdfDocument = lopdf::Document;
pub fn load_for_fuzz(data: &[u8]) -> Result<lopdf::Document, ()> {
    lopdf::Document::load_mem(data).map_err(|_| ())
}
