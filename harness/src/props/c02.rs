//! C02 — well-formed PDFs from any producer load to their content (DESIGN.md §7 C02).

use super::common::*;
use crate::canon::{self, Opts};
use crate::engine::{no_panic, replay_case, CaseReport, Run, Verdict, Violation};
use crate::gen::objects::{self as g, DocOpts};
use crate::model::{adict_to_dict, ADict, AObj, B};
use crate::refimpl::strict;
use crate::refimpl::writer::{self, WFile, WOutput, WRevision};
use crate::viol;
use lopdf::{Document, Object};
use proptest::collection::vec;
use proptest::prelude::*;
use serde_json::Value;
use std::collections::BTreeMap;

/// remove constructs outside the domain from an abstract revision (structural /Type values at top level)
pub fn sanitise_rev(rev: &mut WRevision, rep: &mut CaseReport) {
    for (_, _, o) in rev.objects.iter_mut() {
        if let AObj::Dict(d) | AObj::Stream(d, _) = o {
            let before = d.len();
            d.retain(|(k, v)| !(k.0 == b"Linearized" || (k.0 == b"Type" && matches!(v, AObj::Name(n) if n.0 == b"ObjStm" || n.0 == b"XRef" || n.0 == b"Linearized"))));
            if d.len() != before {
                rep.exclude("structural-type-at-top-level");
            }
        }
    }
}

/// merged abstract view after `upto` revisions (inclusive index), newest wins
pub fn model_view(f: &WFile, out: &WOutput, upto: usize) -> BTreeMap<(u32, u16), AObj> {
    let mut m: BTreeMap<(u32, u16), AObj> = BTreeMap::new();
    for (ri, rev) in f.revisions.iter().enumerate().take(upto + 1) {
        for (n, g, o) in &rev.objects {
            // an object number is redefined regardless of generation
            m.retain(|k, _| k.0 != *n);
            m.insert((*n, *g), o.clone());
        }
        for (k, v) in &out.length_objects[ri] {
            m.insert(*k, v.clone());
        }
    }
    m
}

pub fn structural_ids(out: &WOutput, upto: usize) -> Vec<u32> {
    out.structural.iter().take(upto + 1).flat_map(|s| s.iter().cloned()).collect()
}

/// REF-W output must be accepted by STRICT-R and yield the abstract document (validates the reference itself)
pub fn selfcheck(f: &WFile, out: &WOutput, bytes: &[u8], upto: usize) -> Result<(), Violation> {
    let sd = strict::read(bytes).map_err(|e| viol!("harness-ref-writer-invalid", "STRICT-R rejects REF-W output: rule {}: {}\n{}", e.rule, e.msg, show_bytes(bytes, 4000)))?;
    let model = model_view(f, out, upto);
    for (id, o) in &model {
        let Some(a) = sd.objects.get(id) else { return Err(viol!("harness-ref-writer-invalid", "STRICT-R does not find {:?} in REF-W output\n{}", id, show_bytes(bytes, 4000))) };
        let mut act = a.to_object_raw();
        normalise_length(&mut act, &model);
        canon::obj_eq(&o.to_object(), &act, Opts::STRICT, &format!("obj {:?}", id))
            .map_err(|e| viol!("harness-ref-writer-invalid", "STRICT-R reads REF-W output differently: {}\n{}", e, show_bytes(bytes, 4000)))?;
    }
    Ok(())
}

/// a stream /Length given as a reference to a length-holder object is equivalent to the integer
pub fn normalise_length(o: &mut Object, model: &BTreeMap<(u32, u16), AObj>) {
    if let Object::Stream(s) = o {
        if let Ok(Object::Reference(id)) = s.dict.get(b"Length") {
            if let Some(AObj::Int(l)) = model.get(id) {
                let l = *l;
                s.dict.set("Length", Object::Integer(l));
            }
        }
    }
}

pub fn compare_loaded(model: &BTreeMap<(u32, u16), AObj>, structural: &[u32], loaded: &Document, what: &str) -> Result<(), Violation> {
    compare_loaded_opts(model, structural, loaded, what, Opts::FOREIGN)
}

pub fn compare_loaded_opts(model: &BTreeMap<(u32, u16), AObj>, structural: &[u32], loaded: &Document, what: &str, opts: Opts) -> Result<(), Violation> {
    for (id, o) in model {
        match loaded.objects.get(id) {
            None => return Err(viol!("object-missing", "{}: object {:?} defined by the file is missing after load (expected {:?})", what, id, o)),
            Some(a) => {
                let mut act = a.clone();
                normalise_length(&mut act, model);
                canon::obj_eq(&o.to_object(), &act, opts, &format!("obj {:?}", id)).map_err(|e| viol!("object-differs", "{}: {}", what, e))?
            }
        }
    }
    for (id, o) in &loaded.objects {
        if !model.contains_key(id) && !(structural.contains(&id.0) && is_structural(o)) {
            return Err(viol!("unexpected-object", "{}: loaded document holds {:?} = {:?}, which the file does not define (in this revision view)", what, id, AObj::from_object(o)));
        }
    }
    Ok(())
}

pub fn compare_trailer_w(expected: &ADict, loaded: &Document, what: &str) -> Result<(), Violation> {
    let exp = canon::strip_trailer(&adict_to_dict(expected), false);
    let from_stream = loaded.trailer.has_type(b"XRef");
    let act = canon::strip_trailer(&loaded.trailer, from_stream);
    canon::dict_eq(&exp, &act, Opts::FOREIGN, "trailer", false).map_err(|e| viol!("trailer-differs", "{}: {}", what, e))
}

pub fn check(f: &WFile) -> Verdict {
    let mut rep = CaseReport::new();
    let mut f = f.clone();
    f.revisions.truncate(1);
    for r in f.revisions.iter_mut() {
        sanitise_rev(r, &mut rep);
    }
    if f.revisions.is_empty() {
        return Ok(rep);
    }
    let out = writer::write(&f);
    selfcheck(&f, &out, &out.bytes, 0)?;
    let doc = no_panic("Document::load_mem", || Document::load_mem(&out.bytes))?
        .map_err(|e| viol!("load-error", "load_mem rejects a well-formed file: {:?}\nfeatures {:?}\n{}", e, out.features, show_bytes(&out.bytes, 4000)))?;
    let ctx = |v: Violation| Violation::new(&v.kind, format!("{}\nfeatures {:?}\n{}", v.detail, out.features, show_bytes(&out.bytes, 4000)));
    if doc.version != f.version {
        return Err(ctx(viol!("version-differs", "version {:?} loaded as {:?}", f.version, doc.version)));
    }
    let model = model_view(&f, &out, 0);
    compare_loaded(&model, &structural_ids(&out, 0), &doc, "load").map_err(ctx)?;
    compare_trailer_w(&f.revisions[0].trailer, &doc, "load").map_err(ctx)?;
    for ft in &out.features {
        rep.label(ft);
    }
    rep.label_if(f.xref_stream, "xref-stream");
    rep.label_if(!f.xref_stream, "xref-table");
    rep.nontrivial = out.features.len() >= 2 && f.revisions[0].objects.len() >= 2;
    Ok(rep)
}

#[derive(Clone, Copy, Debug)]
pub struct WOpts {
    pub doc: DocOpts,
    pub max_revisions: usize,
    pub raw_eol: bool,
    pub junk: bool,
}

pub fn junk_strategy(on: bool) -> BoxedStrategy<Vec<u8>> {
    if on {
        prop_oneof![
            4 => Just(vec![]),
            1 => vec(any::<u8>(), 1..40).prop_map(|mut v| {
                // never contains "%PDF-"
                for i in 0..v.len() {
                    if v[i] == b'%' {
                        v[i] = b'$';
                    }
                }
                v
            }),
        ]
        .boxed()
    } else {
        Just(vec![]).boxed()
    }
}

/// update revisions: replacements of existing numbers (by slot) and additions above the current maximum
pub fn wfile_strategy(o: WOpts) -> BoxedStrategy<WFile> {
    let update = (vec((any::<u16>(), g::top_object(o.doc.obj)), 0..5), vec(g::top_object(o.doc.obj), 0..4));
    (
        g::document(o.doc),
        vec(update, 0..o.max_revisions.max(1)),
        any::<bool>(),
        prop::bool::weighted(0.7),
        junk_strategy(o.junk),
        prop_oneof![1 => Just(vec![]), 6 => vec(any::<u8>(), 0..400), 3 => vec(any::<u8>(), 400..3000)],
    )
        .prop_map(move |(doc, updates, xref_stream, objstm, junk, tape)| {
            let mut revisions = vec![WRevision { objects: doc.objects.clone(), trailer: doc.trailer.clone() }];
            let mut ids: Vec<(u32, u16)> = doc.objects.iter().map(|x| (x.0, x.1)).collect();
            let mut maxn = ids.iter().map(|i| i.0).max().unwrap_or(0);
            if o.max_revisions > 1 {
                for (repl, add) in updates {
                    let mut objs: Vec<(u32, u16, AObj)> = vec![];
                    for (slot, mut obj) in repl {
                        if ids.is_empty() {
                            break;
                        }
                        let id = ids[(slot as usize * ids.len()) >> 16];
                        if objs.iter().any(|x| x.0 == id.0) {
                            continue;
                        }
                        g::resolve_refs(&mut obj, &ids, maxn);
                        objs.push((id.0, id.1, obj));
                    }
                    for mut obj in add {
                        maxn += 1;
                        g::resolve_refs(&mut obj, &ids, maxn);
                        objs.push((maxn, 0, obj));
                        ids.push((maxn, 0));
                    }
                    revisions.push(WRevision { objects: objs, trailer: doc.trailer.clone() });
                }
            }
            WFile { version: doc.version.clone(), binary_mark: doc.binary_mark.clone(), junk: B(junk), xref_stream, objstm, revisions, tape: B(tape), raw_eol_in_strings: o.raw_eol, quirks: 0 }
        })
        .boxed()
}

pub fn wopts(run: &Run) -> WOpts {
    let mut doc = DocOpts::default();
    doc.max_objects = 30;
    doc.obj.allow_nul_in_names = false;
    WOpts { doc, max_revisions: 1, raw_eol: !run.finding_open("C02-raw-eol-in-string"), junk: true }
}

pub fn run(run: &mut Run) {
    run.rule = "cases: abstract documents (G-DOC without NUL in names) rendered by the independent reference writer REF-W, whose choice tape randomises every lexical/structural freedom of ISO 32000-1 7.2-7.5 (EOLs, white-space incl. NUL/FF/comments, #xx name escapes, string escapes/octal/continuations/raw balanced parentheses, hex strings with white-space and odd digits, number spellings, object order, indirect /Length before/after/in ObjStm, multi-subsection xref tables with free entries and all three entry endings, xref streams with arbitrary W/Index/Flate/PNG predictors, object streams, junk prefix). Every file is first cross-checked by STRICT-R (a failure there is a harness error, exit 2, never a violation). Oracle: loaded objects/trailer/version equal the abstract document. non-trivial = >= 2 objects and >= 2 style features outside lopdf's own dialect; distinct by case hash.".into();
    run.assumptions = vec![
        "REF-W emits only constructs ISO 32000-1 allows (Appendix B of DESIGN.md); validated per case by STRICT-R".into(),
        "a dictionary entry with value null is equivalent to an absent entry; an indirect /Length may be normalised to its integer".into(),
        "not emitted: hybrid-reference files, NUL in names, startxref far from %%EOF, NUL/comments inside object-stream index blocks".into(),
    ];
    run.replay_known_demos(replay);
    let o = wopts(run);
    let n = run.tier.pick(10_000, 400_000);
    run.campaign("foreign-files", || wfile_strategy(o), n, check, classify);
    if run.finding_open("C02-raw-eol-in-string") {
        // focused campaign with only this finding's switch on: every failure must match the finding's key
        let mut o2 = o;
        o2.raw_eol = true;
        let n2 = run.tier.pick(400, 5_000);
        // failures that match the finding's key are counted and the search goes on; anything else is reported
        let tolerant = |f: &WFile| match check(f) {
            Err(v) if !v.kind.starts_with("harness-") && classify(f, &v).is_some() => {
                let mut rep = CaseReport::new();
                rep.exclude("known:C02-raw-eol-in-string");
                Ok(rep)
            }
            other => other,
        };
        run.campaign("focused-raw-eol-in-string", || wfile_strategy(o2), n2, tolerant, classify);
    }
}

/// known-finding key: the failure disappears when raw EOLs in literal strings are spelled with escapes
pub fn classify(case: &WFile, v: &Violation) -> Option<&'static str> {
    if case.raw_eol_in_strings && matches!(v.kind.as_str(), "object-differs" | "trailer-differs") {
        let mut c2 = case.clone();
        c2.raw_eol_in_strings = false;
        // the same preparation as `check` (sanitising changes what the writer's tape is spent on)
        let mut c1 = case.clone();
        c1.revisions.truncate(1);
        let mut scratch = CaseReport::new();
        for r in c1.revisions.iter_mut() {
            sanitise_rev(r, &mut scratch);
        }
        let uses_raw = writer::write(&c1).features.iter().any(|f| f.starts_with("string-raw-c"));
        if uses_raw && check(&c2).is_ok() {
            return Some("C02-raw-eol-in-string");
        }
    }
    None
}

pub fn replay(file: &Value) -> Result<Verdict, String> {
    Ok(check(&replay_case::<WFile>(file)?))
}
