//! Entry points executed inside the isolated worker (C04, C12-malformed, C13).

use crate::model::{ADict, AObj, B};
use indexmap::IndexMap;
use lopdf::content::Content;
use lopdf::{Dictionary, Document, IncrementalDocument, Object, ObjectStream, Stream};
use serde::{Deserialize, Serialize};

pub const E_LOAD: u8 = 1;
pub const E_INCLOAD: u8 = 2;
pub const E_CONTENT: u8 = 3;
pub const E_FILTER: u8 = 4;
pub const E_OBJSTM: u8 = 5;
pub const E_XREF: u8 = 6;
pub const E_CMAP: u8 = 7;
pub const E_TEXTSTRING: u8 = 8;
pub const E_QUERIES: u8 = 20;
pub const E_PAGETREE: u8 = 21;
/// raw file bytes: load_mem, then every read-only query on whatever was loaded
pub const E_FILEQUERIES: u8 = 22;

pub fn entry_name(e: u8) -> &'static str {
    match e {
        E_LOAD => "load_mem",
        E_INCLOAD => "incremental_load_from",
        E_CONTENT => "content_decode",
        E_FILTER => "stream_filters",
        E_OBJSTM => "object_stream_new",
        E_XREF => "decode_xref_stream",
        E_CMAP => "cmap_decode_text",
        E_TEXTSTRING => "decode_text_string",
        E_QUERIES => "queries",
        E_PAGETREE => "page_tree",
        E_FILEQUERIES => "file_queries",
        _ => "unknown",
    }
}

pub fn entry_by_name(n: &str) -> Option<u8> {
    [E_LOAD, E_INCLOAD, E_CONTENT, E_FILTER, E_OBJSTM, E_XREF, E_CMAP, E_TEXTSTRING, E_QUERIES, E_PAGETREE, E_FILEQUERIES].into_iter().find(|e| entry_name(*e) == n)
}

#[derive(Clone, Debug, Serialize, Deserialize)]
pub struct StreamSpec {
    pub dict: ADict,
    pub content: B,
}

impl StreamSpec {
    pub fn to_stream(&self) -> Stream {
        match AObj::Stream(self.dict.clone(), self.content.clone()).to_object_raw() {
            Object::Stream(s) => s,
            _ => unreachable!(),
        }
    }
}

#[derive(Clone, Debug, Serialize, Deserialize)]
pub struct CMapSpec {
    pub cmap: B,
    pub codes: B,
    /// /Encoding name of the font (None = absent)
    pub encoding: Option<B>,
    /// Flate-compress the ToUnicode stream
    pub compress: bool,
}

#[derive(Clone, Debug, Serialize, Deserialize)]
pub struct GraphSpec {
    pub objects: Vec<(u32, u16, AObj)>,
    pub trailer: ADict,
}

impl GraphSpec {
    pub fn to_document(&self) -> Document {
        let mut doc = Document::with_version("1.7");
        for (n, g, o) in &self.objects {
            doc.objects.insert((*n, *g), o.to_object_raw());
        }
        doc.trailer = crate::model::adict_to_dict(&self.trailer);
        doc.max_id = self.objects.iter().map(|o| o.0).max().unwrap_or(0);
        doc
    }
}

fn short_err<T, E: std::fmt::Debug>(r: &Result<T, E>) -> String {
    match r {
        Ok(_) => "ok".into(),
        Err(e) => {
            let s = format!("{:?}", e);
            format!("err:{}", crate::engine::truncate(&s, 60))
        }
    }
}

pub fn cmap_document(spec: &CMapSpec) -> (Document, lopdf::ObjectId) {
    let mut doc = Document::with_version("1.5");
    let mut sd = Dictionary::new();
    let content = if spec.compress {
        use std::io::Write;
        let mut e = flate2::write::ZlibEncoder::new(Vec::new(), flate2::Compression::default());
        e.write_all(&spec.cmap.0).unwrap();
        sd.set("Filter", Object::Name(b"FlateDecode".to_vec()));
        e.finish().unwrap()
    } else {
        spec.cmap.0.clone()
    };
    let sid = doc.add_object(Object::Stream(Stream::new(sd, content)));
    let mut font = Dictionary::new();
    font.set("Type", Object::Name(b"Font".to_vec()));
    font.set("Subtype", Object::Name(b"Type0".to_vec()));
    if let Some(e) = &spec.encoding {
        font.set("Encoding", Object::Name(e.0.clone()));
    }
    font.set("ToUnicode", Object::Reference(sid));
    let fid = doc.add_object(Object::Dictionary(font));
    (doc, fid)
}

/// all read-only queries of C13 on one document; returns a short summary
pub fn run_queries(doc: &Document) -> String {
    let ids: Vec<lopdf::ObjectId> = doc.objects.keys().cloned().collect();
    let mut n_ok = 0usize;
    let mut n_err = 0usize;
    let mut tally = |ok: bool| {
        if ok {
            n_ok += 1
        } else {
            n_err += 1
        }
    };
    tally(doc.catalog().is_ok());
    tally(doc.get_encrypted().is_ok());
    tally(doc.is_encrypted());
    let _ = doc.get_crypt_filters();
    let pages = doc.get_pages();
    let it = doc.page_iter();
    let _ = it.size_hint();
    let n_pages = doc.page_iter().count();
    let mut it2 = doc.page_iter();
    let _ = it2.next();
    let _ = it2.size_hint();
    for id in ids.iter().chain([(0u32, 0u16), (9999, 0)].iter()) {
        tally(doc.get_object(*id).is_ok());
        tally(doc.get_dictionary(*id).is_ok());
        tally(doc.get_object_page(*id).is_ok());
        let _ = doc.get_page_contents(*id);
        tally(doc.get_page_content(*id).is_ok());
        tally(doc.get_and_decode_page_content(*id).is_ok());
        tally(doc.get_page_resources(*id).is_ok());
        tally(doc.get_page_fonts(*id).is_ok());
        tally(doc.get_page_annotations(*id).is_ok());
        tally(doc.get_page_images(*id).is_ok());
        let _ = doc.has_object(*id);
    }
    for (_, o) in doc.objects.iter() {
        tally(doc.dereference(o).is_ok());
        let _ = o.as_datetime();
        let d = match o {
            Object::Dictionary(d) => Some(d),
            Object::Stream(s) => Some(&s.dict),
            _ => None,
        };
        if let Some(d) = d {
            tally(d.get_font_encoding(doc).is_ok());
            let mut nd = IndexMap::new();
            tally(doc.get_named_destinations(d, &mut nd).is_ok());
            let mut nd2 = IndexMap::new();
            tally(doc.get_outline(d, &mut nd2).is_ok());
            for key in [&b"Resources"[..], b"Parent", b"Font", b"First", b"Next", b"A", b"Length"] {
                tally(d.get_deref(key, doc).is_ok());
                tally(doc.get_dict_in_dict(d, key).is_ok());
            }
            if let Ok(enc) = d.get_font_encoding(doc) {
                let _ = Document::decode_text(&enc, b"\x00\x01AB\xff\xfe");
            }
        }
        if let Object::Stream(s) = o {
            tally(s.decompressed_content().is_ok());
            tally(s.get_plain_content().is_ok());
            tally(s.decode_content().is_ok());
            let _ = s.filters();
        }
    }
    let nums: Vec<u32> = (0..=(pages.len() as u32 + 1)).collect();
    tally(doc.extract_text(&nums).is_ok());
    let _ = doc.extract_text_chunks(&nums);
    tally(doc.get_toc().is_ok());
    let mut nd = IndexMap::new();
    tally(doc.get_outlines(None, None, &mut nd).map(|_| ()).is_ok());
    format!("pages={} ok={} err={}", n_pages, n_ok, n_err)
}

/// C12 malformed trees: enumeration terminates and yields only /Type /Page dictionaries
pub fn run_pagetree(doc: &Document) -> String {
    let mut n = 0usize;
    let mut ids: Vec<u32> = vec![];
    for id in doc.page_iter() {
        n += 1;
        if ids.len() < 5000 {
            ids.push(id.0);
        }
        let ok = doc.get_dictionary(id).map(|d| d.has_type(b"Page")).unwrap_or(false);
        if !ok {
            return format!("NONPAGE {:?}", id);
        }
        if n > 10_000_000 {
            return "UNBOUNDED".into();
        }
    }
    let pages = doc.get_pages();
    if pages.len() != n || !pages.keys().cloned().eq(1..=(n as u32)) {
        return format!("NUMBERING pages={} iter={}", pages.len(), n);
    }
    format!("pages={} ids={}", n, ids.iter().map(|i| i.to_string()).collect::<Vec<_>>().join(","))
}

/// the worker's dispatch function
pub fn dispatch(entry: u8, payload: &[u8]) -> String {
    match entry {
        E_LOAD => match Document::load_mem(payload) {
            Ok(d) => format!("loaded objects={}", d.objects.len()),
            Err(e) => format!("err:{}", crate::engine::truncate(&format!("{:?}", e), 60)),
        },
        E_INCLOAD => match IncrementalDocument::load_from(payload) {
            Ok(d) => format!("loaded objects={}", d.get_prev_documents().objects.len()),
            Err(e) => format!("err:{}", crate::engine::truncate(&format!("{:?}", e), 60)),
        },
        E_CONTENT => match Content::decode(payload) {
            Ok(c) => {
                // the decoded operations must be encodable again without panicking
                let _ = c.encode();
                format!("ops={}", c.operations.len())
            }
            Err(e) => format!("err:{:?}", e),
        },
        E_FILTER | E_OBJSTM | E_XREF => {
            let spec: StreamSpec = match serde_json::from_slice(payload) {
                Ok(s) => s,
                Err(e) => return format!("bad-payload:{}", e),
            };
            let mut s = spec.to_stream();
            match entry {
                E_FILTER => {
                    let a = s.decompressed_content();
                    let b = s.get_plain_content();
                    let mut s2 = s.clone();
                    let c = s2.decompress();
                    let _ = s2.compress();
                    format!("{} {} {}", short_err(&a), short_err(&b), short_err(&c))
                }
                E_OBJSTM => {
                    let r = ObjectStream::new(&mut s);
                    match r {
                        Ok(o) => format!("members={}", o.objects.len()),
                        Err(e) => format!("err:{}", crate::engine::truncate(&format!("{:?}", e), 60)),
                    }
                }
                _ => {
                    let r = lopdf::xref::decode_xref_stream(s);
                    match r {
                        Ok((x, _)) => format!("entries={}", x.entries.len()),
                        Err(e) => format!("err:{}", crate::engine::truncate(&format!("{:?}", e), 60)),
                    }
                }
            }
        }
        E_CMAP => {
            let spec: CMapSpec = match serde_json::from_slice(payload) {
                Ok(s) => s,
                Err(e) => return format!("bad-payload:{}", e),
            };
            let (doc, fid) = cmap_document(&spec);
            let font = doc.get_dictionary(fid).unwrap();
            match font.get_font_encoding(&doc) {
                Ok(enc) => {
                    let r = Document::decode_text(&enc, &spec.codes.0);
                    format!("encoding-ok decode:{}", short_err(&r))
                }
                Err(e) => format!("err:{}", crate::engine::truncate(&format!("{:?}", e), 60)),
            }
        }
        E_TEXTSTRING => {
            let a = lopdf::decode_text_string(&Object::String(payload.to_vec(), lopdf::StringFormat::Literal));
            let b = lopdf::decode_text_string(&Object::String(payload.to_vec(), lopdf::StringFormat::Hexadecimal));
            format!("{} {}", short_err(&a), short_err(&b))
        }
        E_QUERIES | E_PAGETREE => {
            let spec: GraphSpec = match serde_json::from_slice(payload) {
                Ok(s) => s,
                Err(e) => return format!("bad-payload:{}", e),
            };
            let doc = spec.to_document();
            if entry == E_QUERIES {
                run_queries(&doc)
            } else {
                run_pagetree(&doc)
            }
        }
        E_FILEQUERIES => match Document::load_mem(payload) {
            Ok(doc) => run_queries(&doc),
            Err(e) => format!("err:{}", crate::engine::truncate(&format!("{:?}", e), 60)),
        },
        _ => "unknown-entry".into(),
    }
}
