pub mod common;
pub mod c01;
