pub mod common;
pub mod c01;
pub mod c02;
pub mod c03;
pub mod c04;
pub mod c05;
pub mod c06;
pub mod cryptgen;
pub mod c07;
pub mod c08;
pub mod c09;
pub mod c10;
pub mod c11;
pub mod c12;
pub mod c13;
pub mod crash;
pub mod entries;
pub mod fuzzdec;
pub mod c14;
pub mod c15;
pub mod c16;
pub mod c17;
pub mod c18;
pub mod c19;

use crate::engine::{Run, Verdict};
use serde_json::Value;

pub type RunFn = fn(&mut Run);
pub type ReplayFn = fn(&Value) -> Result<Verdict, String>;

pub fn registry(id: &str) -> Option<(RunFn, ReplayFn)> {
    match id {
        "C01" => Some((c01::run, c01::replay)),
        "C02" => Some((c02::run, c02::replay)),
        "C03" => Some((c03::run, c03::replay)),
        "C04" => Some((c04::run, c04::replay)),
        "C05" => Some((c05::run, c05::replay)),
        "C06" => Some((c06::run, c06::replay)),
        "C07" => Some((c07::run, c07::replay)),
        "C08" => Some((c08::run, c08::replay)),
        "C09" => Some((c09::run, c09::replay)),
        "C10" => Some((c10::run, c10::replay)),
        "C11" => Some((c11::run, c11::replay)),
        "C12" => Some((c12::run, c12::replay)),
        "C13" => Some((c13::run, c13::replay)),
        "C14" => Some((c14::run, c14::replay)),
        "C15" => Some((c15::run, c15::replay)),
        "C16" => Some((c16::run, c16::replay)),
        "C17" => Some((c17::run, c17::replay)),
        "C18" => Some((c18::run, c18::replay)),
        "C19" => Some((c19::run, c19::replay)),
        _ => None,
    }
}
