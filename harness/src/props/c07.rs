//! C07 — incremental updates: latest revision wins, history preserved (DESIGN.md §7 C07).

use super::c02::{self, compare_loaded, compare_trailer_w, model_view, sanitise_rev, selfcheck, structural_ids, wfile_strategy, WOpts};
use super::common::*;
use crate::canon::{self, Opts};
use crate::engine::{no_panic, replay_case, CaseReport, Run, Verdict, Violation};
use crate::gen::objects as g;
use crate::model::{AObj, B};
use crate::refimpl::strict::{self, Entry};
use crate::refimpl::writer::{self, WFile};
use crate::viol;
use lopdf::{Document, IncrementalDocument};
use proptest::collection::vec;
use proptest::prelude::*;
use serde::{Deserialize, Serialize};
use serde_json::Value;
use std::collections::BTreeMap;

// ---------------- Part A: histories written by a foreign producer ----------------

pub fn prepare(f: &WFile, rep: &mut CaseReport) -> WFile {
    let mut f = f.clone();
    for (k, r) in f.revisions.iter_mut().enumerate() {
        sanitise_rev(r, rep);
        // every revision's trailer is distinguishable: the newest one must win
        r.trailer.retain(|(key, _)| key.0 != b"VRev");
        r.trailer.push((B::from("VRev"), AObj::Int(k as i64)));
    }
    f
}

pub fn check_foreign(f: &WFile) -> Verdict {
    let mut rep = CaseReport::new();
    let f = prepare(f, &mut rep);
    if f.revisions.is_empty() {
        return Ok(rep);
    }
    let out = writer::write(&f);
    let mut overridden = false;
    let mut override_in_objstm = false;
    let mut plain_over_objstm = false;
    let mut objstm_over_plain = false;
    let mut objstm_over_objstm = false;
    for k in 0..f.revisions.len() {
        let bytes = &out.bytes[..out.revision_ends[k]];
        selfcheck(&f, &out, bytes, k)?;
        let what = format!("prefix ending at revision {} of {}", k, f.revisions.len() - 1);
        let ctx = |v: Violation| {
            let kind = if k + 1 == f.revisions.len() { "final-view-differs" } else { "prefix-view-differs" };
            Violation::new(
                if v.kind == "load-error" { "load-error" } else { kind },
                format!("{} [{}]\nfeatures {:?}\n{}", v.detail, v.kind, out.features, show_bytes(bytes, 5000)),
            )
        };
        let doc = no_panic("Document::load_mem", || Document::load_mem(bytes))?
            .map_err(|e| ctx(viol!("load-error", "{}: load_mem rejects the file: {:?}", what, e)))?;
        let model = model_view(&f, &out, k);
        compare_loaded(&model, &structural_ids(&out, k), &doc, &what).map_err(ctx)?;
        compare_trailer_w(&f.revisions[k].trailer, &doc, &what).map_err(ctx)?;
        if k > 0 {
            for (n, _, _) in &f.revisions[k].objects {
                for j in 0..k {
                    if let Some(prev_place) = out.placement[j].get(n) {
                        overridden = true;
                        let now = out.placement[k].get(n).cloned().flatten();
                        match (prev_place, now) {
                            (None, Some(_)) => objstm_over_plain = true,
                            (Some(_), None) => plain_over_objstm = true,
                            (Some(_), Some(_)) => objstm_over_objstm = true,
                            _ => {}
                        }
                        override_in_objstm |= now.is_some();
                    }
                }
            }
        }
    }
    for ft in &out.features {
        if ["objstm", "junk-prefix", "xref-stream-predictor", "indirect-length-in-objstm", "update-revision"].contains(ft) {
            rep.label(ft);
        }
    }
    rep.label_if(f.xref_stream, "xref-stream");
    rep.label_if(!f.xref_stream, "xref-table");
    rep.label_if(f.revisions.len() >= 3, "revisions>=3");
    rep.label_if(overridden, "object-overridden");
    rep.label_if(override_in_objstm, "override-inside-objstm");
    rep.label_if(plain_over_objstm, "plain-over-objstm");
    rep.label_if(objstm_over_plain, "objstm-over-plain");
    rep.label_if(objstm_over_objstm, "objstm-over-objstm");
    rep.nontrivial = f.revisions.len() >= 2 && overridden;
    Ok(rep)
}

// ---------------- Part B: lopdf as the producer of the updates ----------------

#[derive(Clone, Debug, Serialize, Deserialize)]
pub enum Edit {
    /// clone an existing object into the new revision (opt_clone_object_to_new_document) and replace it by `obj`
    CloneAndSet(u16, AObj),
    /// clone and mutate in place: append an entry/element when it is a dictionary/array
    CloneAndTouch(u16),
    /// set_object directly on the new revision
    Set(u16, AObj),
    Add(AObj),
    /// turn two existing objects into a page-like dictionary and its resources: `direct` = /Resources is a direct
    /// dictionary of the page, otherwise a reference to the second object
    InstallPage(u16, u16, bool),
    /// IncrementalDocument::add_xobject (false) / add_graphics_state (true) under the names N<k> on the installed page
    /// (of this or an earlier revision), each pointing at an existing object
    AddResources(Vec<(bool, u8)>, u16),
}

#[derive(Clone, Debug, Serialize, Deserialize)]
pub struct IncCase {
    pub base: WFile,
    /// base bytes produced by lopdf's own save (true) or by the reference writer (false)
    pub base_by_lopdf: bool,
    pub updates: Vec<Vec<Edit>>,
}

// ---------------- Part A': the same histories, encrypted by the reference security handler ----------------

#[derive(Clone, Debug, Serialize, Deserialize)]
pub struct EncHist {
    pub f: WFile,
    pub cfg: super::cryptgen::Config,
    pub seed: u64,
}

pub struct EncRendered {
    /// the history without the encryption dictionary (what a reader must see after decrypting)
    pub plain: WFile,
    /// the history as written (with the encryption dictionary object and /Encrypt, /ID in every trailer)
    pub f: WFile,
    pub cfg: super::cryptgen::Config,
    pub out: writer::WOutput,
    /// unencrypted rendering with the same layout
    pub plain_out: writer::WOutput,
}

/// Render an encrypted history; None = nothing to render (no revision left after sanitising)
pub fn render_encrypted(case: &EncHist, rep: &mut CaseReport) -> Result<Option<EncRendered>, Violation> {
    let mut plain = prepare(&case.f, rep);
    if plain.revisions.is_empty() {
        return Ok(None);
    }
    if plain.objstm {
        plain.xref_stream = true;
    }
    let mut cfg = case.cfg.clone();
    // metadata streams and per-stream Crypt filters are C05/C06 topics; here the handler is the constant part
    cfg.encrypt_metadata = true;
    if cfg.revision() <= 4 && cfg.owner_pw.is_empty() {
        cfg.owner_pw = cfg.user_pw.clone();
    }
    for r in plain.revisions.iter_mut() {
        for (_, _, o) in r.objects.iter_mut() {
            if let AObj::Stream(d, _) = o {
                // a stream's own /Filter /Crypt or /Type /Metadata would select another cipher: not generated here
                d.retain(|(k, v)| !(k.0 == b"Filter" || k.0 == b"DecodeParms" || (k.0 == b"Type" && matches!(v, AObj::Name(n) if n.0 == b"Metadata"))));
            }
        }
    }
    let h = super::c06::ref_handler(&cfg, case.seed, false).map_err(|e| viol!("harness-ref-encrypt", "{}", e))?;
    let enc_num = plain.revisions.iter().flat_map(|r| r.objects.iter().map(|o| o.0)).max().unwrap_or(0) + 1;
    let id = AObj::Array(vec![AObj::Str(cfg.id0.clone(), true), AObj::Str(cfg.id0.clone(), true)]);
    let mut f = plain.clone();
    f.revisions[0].objects.push((enc_num, 0, AObj::Dict(h.encrypt_dict.clone())));
    for (fr, pr) in f.revisions.iter_mut().zip(plain.revisions.iter_mut()) {
        fr.trailer.retain(|(k, _)| k.0 != b"Encrypt" && k.0 != b"ID");
        pr.trailer.retain(|(k, _)| k.0 != b"Encrypt" && k.0 != b"ID");
        fr.trailer.push((B::from("Encrypt"), AObj::Ref(enc_num, 0)));
        fr.trailer.push((B::from("ID"), id.clone()));
        pr.trailer.push((B::from("ID"), id.clone()));
    }
    // the unencrypted rendering of the same file (same tape) validates the writer's structure through STRICT-R
    let ident = |_n: u32, _g: u16, o: &AObj| o.clone();
    let plain_out = writer::write_with(&f, Some(&writer::WEnc { f: &ident, skip: [enc_num].into_iter().collect(), length_in_objstm: false }));
    // (files with lenient-only constructs, C08, are outside the strict reader's domain)
    for k in 0..f.revisions.len() {
        if f.quirks == 0 {
            selfcheck(&f, &plain_out, &plain_out.bytes[..plain_out.revision_ends[k]], k)?;
        }
    }
    let failed = std::cell::RefCell::new(None);
    let encf = |n: u32, g: u16, o: &AObj| match h.encrypt_object(n, g, o) {
        Ok(x) => x,
        Err(e) => {
            *failed.borrow_mut() = Some(e);
            o.clone()
        }
    };
    let out = writer::write_with(&f, Some(&writer::WEnc { f: &encf, skip: [enc_num].into_iter().collect(), length_in_objstm: false }));
    if let Some(e) = failed.borrow_mut().take() {
        return Err(viol!("harness-ref-encrypt", "{}", e));
    }
    Ok(Some(EncRendered { plain, f, cfg, out, plain_out }))
}

pub fn check_foreign_encrypted(case: &EncHist) -> Verdict {
    let mut rep = CaseReport::new();
    let Some(EncRendered { plain, f, cfg, out, plain_out }) = render_encrypted(case, &mut rep)? else { return Ok(rep) };
    let mut overridden = false;
    let mut objstm_over_objstm = false;
    for k in 0..f.revisions.len() {
        let bytes = &out.bytes[..out.revision_ends[k]];
        let what = format!("encrypted file, prefix ending at revision {} of {}", k, f.revisions.len() - 1);
        let ctx = |v: Violation| {
            let kind = if k + 1 == f.revisions.len() { "final-view-differs" } else { "prefix-view-differs" };
            Violation::new(
                if v.kind == "load-error" { "load-error" } else { kind },
                format!("{} [{}]\nhandler R{} user password {:?}\nfeatures {:?}\nunencrypted rendering of the same file:\n{}", v.detail, v.kind, cfg.revision(), cfg.user_pw, out.features, show_bytes(&plain_out.bytes[..plain_out.revision_ends[k]], 5000)),
            )
        };
        let mut doc = no_panic("Document::load_mem", || Document::load_mem(bytes))?.map_err(|e| ctx(viol!("load-error", "{}: load_mem rejects the file: {:?}", what, e)))?;
        if doc.is_encrypted() {
            no_panic("decrypt", || doc.decrypt(&cfg.user_pw))?.map_err(|e| ctx(viol!("load-error", "{}: decrypt with the user password fails: {:?}", what, e)))?;
        }
        let model = model_view(&plain, &out, k);
        compare_loaded(&model, &structural_ids(&out, k), &doc, &what).map_err(ctx)?;
        compare_trailer_w(&plain.revisions[k].trailer, &doc, &what).map_err(ctx)?;
        if k > 0 {
            for (n, _, _) in &plain.revisions[k].objects {
                for j in 0..k {
                    if let Some(prev_place) = out.placement[j].get(n) {
                        overridden = true;
                        objstm_over_objstm |= prev_place.is_some() && out.placement[k].get(n).cloned().flatten().is_some();
                    }
                }
            }
        }
    }
    rep.label(match cfg.revision() {
        2 => "R2",
        3 => "R3",
        4 => "R4",
        5 => "R5",
        _ => "R6",
    });
    rep.label_if(out.features.contains("objstm"), "encrypted-object-streams");
    rep.label_if(cfg.user_pw.is_empty(), "empty-user-password");
    rep.label_if(f.revisions.len() >= 2, "update-revision");
    rep.label_if(overridden, "object-overridden");
    rep.label_if(objstm_over_objstm, "objstm-over-objstm");
    rep.nontrivial = f.revisions.len() >= 2 && overridden;
    Ok(rep)
}

fn sanitise_obj(o: AObj, rep: &mut CaseReport) -> AObj {
    let mut tmp = writer::WRevision { objects: vec![(1, 0, o)], trailer: vec![] };
    sanitise_rev(&mut tmp, rep);
    tmp.objects.pop().unwrap().2
}

pub fn check_incremental(case: &IncCase) -> Verdict {
    let mut rep = CaseReport::new();
    let mut base = prepare(&case.base, &mut rep);
    base.revisions.truncate(1);
    if base.revisions.is_empty() {
        return Ok(rep);
    }
    let out = writer::write(&base);
    let mut model = model_view(&base, &out, 0);
    let mut structural: Vec<u32> = structural_ids(&out, 0);
    let mut bytes = if case.base_by_lopdf {
        let adoc = crate::model::ADoc { version: base.version.clone(), binary_mark: base.binary_mark.clone(), objects: base.revisions[0].objects.clone(), trailer: base.revisions[0].trailer.clone(), max_id_slack: 0 };
        model = adoc.objects.iter().map(|(n, g, o)| ((*n, *g), o.clone())).collect();
        structural.clear();
        save(&mut adoc.to_document(base.xref_stream))?
    } else {
        selfcheck(&base, &out, &out.bytes, 0)?;
        out.bytes.clone()
    };
    let mut n_updates = 0;
    let mut touched_any = false;
    let mut resources_added = false;
    for (ui, edits) in case.updates.iter().enumerate() {
        let what = format!("update #{}", ui + 1);
        let prev_sd = strict::read(&bytes).map_err(|e| viol!("harness-strict-rejects-previous", "rule {}: {}", e.rule, e.msg))?;
        let inc = no_panic("IncrementalDocument::load_from", || IncrementalDocument::load_from(&bytes[..]))?;
        let mut inc = inc.map_err(|e| viol!("reload-error", "{}: load_from of the previous file fails: {:?}\n{}", what, e, show_bytes(&bytes, 4000)))?;
        let prev_digest = canon::digest(inc.get_prev_documents());
        // objects that hold a stream's indirect /Length are part of the file structure: never edited
        let ids: Vec<(u32, u16)> = model.keys().filter(|k| case.base_by_lopdf || !out.length_objects[0].contains_key(k)).cloned().collect();
        let maxn = model.keys().map(|k| k.0).chain(structural.iter().cloned()).max().unwrap_or(0);
        let mut edited: BTreeMap<(u32, u16), AObj> = BTreeMap::new();
        for e in edits {
            match e {
                Edit::CloneAndSet(slot, obj) | Edit::Set(slot, obj) => {
                    if ids.is_empty() {
                        continue;
                    }
                    let id = ids[(*slot as usize * ids.len()) >> 16];
                    let mut o = obj.clone();
                    g::resolve_refs(&mut o, &ids, maxn);
                    let o = sanitise_obj(o, &mut rep);
                    if matches!(e, Edit::CloneAndSet(..)) {
                        let cur_is_ref = matches!(edited.get(&id).unwrap_or(&model[&id]), AObj::Ref(..));
                        let r = no_panic("opt_clone_object_to_new_document", || inc.opt_clone_object_to_new_document(id))?;
                        if !cur_is_ref {
                            // (an object that is itself a reference is followed by the API and may dangle: Err is its answer)
                            r.map_err(|er| viol!("clone-error", "{}: opt_clone_object_to_new_document({:?}) fails for an existing object: {:?}", what, id, er))?;
                        }
                    }
                    inc.new_document.set_object(id, o.to_object());
                    edited.insert(id, o);
                }
                Edit::CloneAndTouch(slot) => {
                    if ids.is_empty() {
                        continue;
                    }
                    let id = ids[(*slot as usize * ids.len()) >> 16];
                    let cur = edited.get(&id).cloned().unwrap_or_else(|| model[&id].clone());
                    if matches!(cur, AObj::Ref(..)) {
                        continue;
                    }
                    no_panic("opt_clone_object_to_new_document", || inc.opt_clone_object_to_new_document(id))?
                        .map_err(|er| viol!("clone-error", "{}: opt_clone_object_to_new_document({:?}) fails for an existing object: {:?}", what, id, er))?;
                    // the clone must equal the current view of the object (a top-level reference is followed by get_object)
                    let cloned = inc.new_document.objects.get(&id).cloned();
                    let expect_obj = match &cur {
                        AObj::Ref(..) => None, // get_object dereferences: the clone is the referenced object, not checked here
                        other => Some(other.to_object()),
                    };
                    if let (Some(exp), Some(act)) = (&expect_obj, &cloned) {
                        let mut act = act.clone();
                        c02::normalise_length(&mut act, &model);
                        canon::obj_eq(exp, &act, Opts { real_as_int: true, ..Opts::FOREIGN }, &format!("clone of {:?}", id)).map_err(|er| viol!("clone-differs", "{}: {}", what, er))?;
                    }
                    if expect_obj.is_none() {
                        continue;
                    }
                    let mut new = cur.clone();
                    match &mut new {
                        AObj::Dict(d) => d.push((B::from("VTouched"), AObj::Int(ui as i64))),
                        AObj::Array(a) => a.push(AObj::Int(ui as i64)),
                        AObj::Stream(_, c) => c.0.extend_from_slice(b"%touched"),
                        other => *other = AObj::Int(ui as i64 + 1000),
                    }
                    inc.new_document.set_object(id, new.to_object());
                    edited.insert(id, new);
                    touched_any = true;
                }
                Edit::InstallPage(ps, rs, direct) => {
                    if ids.len() < 2 {
                        continue;
                    }
                    let p = ids[(*ps as usize * ids.len()) >> 16];
                    let r = ids[(*rs as usize * ids.len()) >> 16];
                    // one installed page per file keeps the model simple
                    let installed = model.values().chain(edited.values()).any(|o| o.get("VPage").is_some());
                    if p == r || installed {
                        continue;
                    }
                    let res = AObj::dict(vec![("Font", AObj::dict(vec![]))]);
                    let page = AObj::dict(vec![("VPage", AObj::Int(1)), ("Resources", if *direct { res.clone() } else { AObj::Ref(r.0, r.1) })]);
                    inc.new_document.set_object(p, page.to_object());
                    edited.insert(p, page);
                    if !*direct {
                        inc.new_document.set_object(r, res.to_object());
                        edited.insert(r, res);
                        // a second page sharing the same resources object (the usual layout of real files)
                        if let Some(p2) = ids.iter().find(|id| **id != p && **id != r).cloned() {
                            let page2 = AObj::dict(vec![("VPage", AObj::Int(2)), ("Resources", AObj::Ref(r.0, r.1))]);
                            inc.new_document.set_object(p2, page2.to_object());
                            edited.insert(p2, page2);
                        }
                    }
                }
                Edit::AddResources(items, ts) => {
                    let current = |id: &(u32, u16)| edited.get(id).or_else(|| model.get(id)).cloned();
                    let Some(p1) = ids.iter().chain(edited.keys()).find(|id| current(id).map(|o| o.get("VPage") == Some(&AObj::Int(1))).unwrap_or(false)).cloned() else { continue };
                    let p2 = ids.iter().chain(edited.keys()).find(|id| current(id).map(|o| o.get("VPage") == Some(&AObj::Int(2))).unwrap_or(false)).cloned();
                    let target = ids[(*ts as usize * ids.len()) >> 16];
                    let page = current(&p1).unwrap();
                    let res_ref = match page.get("Resources") {
                        Some(AObj::Ref(n, g)) => Some((*n, *g)),
                        _ => None,
                    };
                    // the object that carries the resource dictionaries, as the model sees it now
                    let mut holder = match res_ref {
                        Some(r) => match current(&r) {
                            Some(o @ AObj::Dict(_)) => o,
                            _ => continue,
                        },
                        None => page.clone(),
                    };
                    let mut pages_used: Vec<(u32, u16)> = vec![];
                    for (gs, k) in items {
                        // the second page (when there is one) reaches the same resources object by another route
                        let p = match (p2, k & 4 != 0) {
                            (Some(q), true) => q,
                            _ => p1,
                        };
                        if !pages_used.contains(&p) {
                            pages_used.push(p);
                        }
                        let name = format!("N{}", k % 4);
                        let r = if *gs {
                            no_panic("IncrementalDocument::add_graphics_state", || inc.add_graphics_state(p, name.as_bytes().to_vec(), target))?
                        } else {
                            no_panic("IncrementalDocument::add_xobject", || inc.add_xobject(p, name.as_bytes().to_vec(), target))?
                        };
                        r.map_err(|er| viol!("edit-error", "{}: adding resource {} to the page {:?} fails: {:?}", what, name, p, er))?;
                        let key = if *gs { "ExtGState" } else { "XObject" };
                        let resources: &mut AObj = if res_ref.is_some() {
                            &mut holder
                        } else if let AObj::Dict(d) = &mut holder {
                            &mut d.iter_mut().find(|(k2, _)| k2.0 == b"Resources").unwrap().1
                        } else {
                            unreachable!()
                        };
                        if let AObj::Dict(rd) = resources {
                            if !rd.iter().any(|(k2, _)| k2.0 == key.as_bytes()) {
                                rd.push((B::from(key), AObj::dict(vec![])));
                            }
                            if let Some((_, AObj::Dict(sub))) = rd.iter_mut().find(|(k2, _)| k2.0 == key.as_bytes()) {
                                sub.retain(|(k2, _)| k2.0 != name.as_bytes());
                                sub.push((B(name.clone().into_bytes()), AObj::Ref(target.0, target.1)));
                            }
                        }
                        resources_added = true;
                    }
                    // the page is cloned into the new revision in any case; the resources object when it is separate
                    match res_ref {
                        Some(r) => {
                            let cloned_pages: Vec<((u32, u16), AObj)> = pages_used.iter().map(|q| (*q, current(q).unwrap())).collect();
                            edited.insert(r, holder);
                            for (q, cur) in cloned_pages {
                                edited.insert(q, cur);
                            }
                        }
                        None => {
                            edited.insert(p1, holder);
                        }
                    }
                }
                Edit::Add(obj) => {
                    let mut o = obj.clone();
                    g::resolve_refs(&mut o, &ids, maxn);
                    let o = sanitise_obj(o, &mut rep);
                    let id = inc.new_document.add_object(o.to_object());
                    if model.contains_key(&id) || structural.contains(&id.0) || edited.contains_key(&id) {
                        return Err(viol!("id-collision", "{}: add_object on the new revision returned {:?}, which already exists in the file", what, id));
                    }
                    edited.insert(id, o);
                }
            }
        }
        if canon::digest(inc.get_prev_documents()) != prev_digest {
            return Err(viol!("prev-view-mutated", "{}: editing the new revision changed get_prev_documents()", what));
        }
        let mut outb = Vec::new();
        no_panic("IncrementalDocument::save_to", || inc.save_to(&mut outb))?.map_err(|e| viol!("save-error", "{}: {}", what, e))?;
        if canon::digest(inc.get_prev_documents()) != prev_digest {
            return Err(viol!("prev-view-mutated", "{}: save_to changed get_prev_documents()", what));
        }
        if !outb.starts_with(&bytes) {
            return Err(viol!("prefix-bytes-changed", "{}: the output does not start with the previously loaded bytes", what));
        }
        for (id, o) in &edited {
            model.insert(*id, o.clone());
        }
        let ctx = |v: Violation| Violation::new(&v.kind, format!("{}\ntail: {}", v.detail, show_bytes(&outb[bytes.len()..], 3000)));
        // the tail, read strictly: one new section, Prev = previous startxref, only edited/new objects
        let sd = no_panic("strict reader", || strict::read(&outb))?
            .map_err(|e| ctx(viol!("reload-error", "{}: strict reader rejects the incremental file: rule {}: {}", what, e.rule, e.msg)))?;
        if sd.sections.len() != prev_sd.sections.len() + 1 {
            return Err(ctx(viol!("prev-wrong", "{}: {} cross-reference sections after the update, {} before", what, sd.sections.len(), prev_sd.sections.len())));
        }
        let newest = &sd.sections[0];
        match newest.trailer.iter().find(|(k, _)| k.0 == b"Prev") {
            Some((_, AObj::Int(p))) if *p as usize == prev_sd.startxref => {}
            other => return Err(ctx(viol!("prev-wrong", "{}: Prev of the new section is {:?}, previous startxref is {}", what, other.map(|x| &x.1), prev_sd.startxref))),
        }
        for (num, e) in &newest.entries {
            if let Entry::InUse { gen, .. } = e {
                let id = (*num, *gen);
                if !edited.contains_key(&id) && newest.stream_id != Some(id) {
                    return Err(ctx(viol!("tail-has-foreign-object", "{}: the new section defines {:?}, which was neither edited nor added", what, id)));
                }
            }
        }
        for id in edited.keys() {
            if !matches!(newest.entries.get(&id.0), Some(Entry::InUse { gen, .. }) if *gen == id.1) {
                return Err(ctx(viol!("tail-misses-object", "{}: the new section does not define the edited object {:?}", what, id)));
            }
        }
        // cross-reference streams / object-stream containers present in the file, as STRICT-R sees them
        structural = sd
            .objects
            .iter()
            .filter(|(_, o)| matches!(o, AObj::Stream(d, _) if d.iter().any(|(k, v)| k.0 == b"Type" && (*v == AObj::name("XRef") || *v == AObj::name("ObjStm")))))
            .map(|(id, _)| id.0)
            .collect();
        // loading the result gives the model
        let doc = load(&outb).map_err(|v| ctx(Violation::new("reload-error", v.detail)))?;
        // objects written by lopdf itself may turn an integral real into an integer (C01's permitted difference)
        let opts = Opts { real_as_int: true, ..Opts::FOREIGN };
        c02::compare_loaded_opts(&model, &structural, &doc, &what, opts).map_err(|v| ctx(Violation::new("final-view-differs", format!("{} [{}]", v.detail, v.kind))))?;
        bytes = outb;
        n_updates += 1;
    }
    rep.label_if(case.base_by_lopdf, "base-by-lopdf");
    rep.label_if(!case.base_by_lopdf, "base-by-reference-writer");
    rep.label_if(!case.base_by_lopdf && out.features.contains("objstm"), "base-has-objstm");
    rep.label_if(!case.base_by_lopdf && out.features.contains("junk-prefix"), "base-has-junk-prefix");
    rep.label_if(base.xref_stream, "xref-stream");
    rep.label_if(!base.xref_stream, "xref-table");
    rep.label_if(n_updates >= 2, "chained-updates");
    rep.label_if(touched_any, "clone-and-mutate");
    rep.label_if(resources_added, "resources-added-through-the-update-api");
    rep.nontrivial = n_updates >= 1 && model.len() >= 3;
    Ok(rep)
}

pub fn inc_strategy(o: WOpts) -> BoxedStrategy<IncCase> {
    let edit = prop_oneof![
        (any::<u16>(), g::top_object(o.doc.obj)).prop_map(|(s, ob)| Edit::CloneAndSet(s, ob)),
        any::<u16>().prop_map(Edit::CloneAndTouch),
        (any::<u16>(), g::top_object(o.doc.obj)).prop_map(|(s, ob)| Edit::Set(s, ob)),
        g::top_object(o.doc.obj).prop_map(Edit::Add),
        (any::<u16>(), any::<u16>(), any::<bool>()).prop_map(|(p, r, d)| Edit::InstallPage(p, r, d)),
        (vec((any::<bool>(), 0u8..8), 1..4), any::<u16>()).prop_map(|(items, t)| Edit::AddResources(items, t)),
    ];
    (wfile_strategy(o), any::<bool>(), vec(vec(edit, 1..5), 1..=4))
        .prop_map(|(base, base_by_lopdf, updates)| IncCase { base, base_by_lopdf, updates })
        .boxed()
}

pub fn opts_a(run: &Run) -> WOpts {
    let mut o = c02::wopts(run);
    o.doc.max_objects = 15;
    o.max_revisions = 4;
    // raw EOLs in strings belong to C02's known finding; never used here
    o.raw_eol = false;
    o
}

pub fn run(run: &mut Run) {
    run.rule = "Part A (foreign producer): base document + 1..3 update revisions (each replacing a random subset of objects and adding new ones), rendered by REF-W with Prev-chained xref tables or streams, updated objects plain or inside object streams; for EVERY prefix ending at a %%EOF, load_mem(prefix) must equal the model view 'latest revision wins' (objects, newest trailer). Part B (lopdf producer): base file by REF-W or by lopdf's own save, then 1..4 chained IncrementalDocument updates (opt_clone_object_to_new_document + mutation, set_object, add_object); after each save: output starts with the previous bytes verbatim, STRICT-R finds exactly one more section whose Prev is the previous startxref and which defines exactly the edited/new objects, get_prev_documents() digest unchanged by edits and save, load_mem(output) equals the model. non-trivial = >= 2 revisions with >= 1 object overridden (A) / >= 1 update on >= 3 objects (B); distinct by case hash.".into();
    run.assumptions = vec!["REF-W / STRICT-R / CANON as in C02 and C03".into(), "updates never free an object (outside the claimed domain)".into()];
    run.replay_known_demos(replay);
    let o = opts_a(run);
    let n = run.tier.pick(5_000, 200_000);
    run.campaign("foreign-histories", || wfile_strategy(o), n, check_foreign, |_c, _v| None);
    // the same histories encrypted by the reference handler while writing (objects inside object streams stay plain,
    // their containers are encrypted): after decrypting with the user password the latest revision must win as well
    let ne = run.tier.pick(1_500, 60_000);
    run.campaign(
        "encrypted-foreign-histories",
        || (wfile_strategy(o), super::cryptgen::config_strategy(), any::<u64>()).prop_map(|(f, cfg, seed)| EncHist { f, cfg, seed }),
        ne,
        check_foreign_encrypted,
        |_c, _v| None,
    );
    let mut ob = o;
    ob.max_revisions = 1;
    ob.junk = !run.finding_open("C07-junk-prefix-incremental");
    let nb = run.tier.pick(4_000, 150_000);
    run.campaign("lopdf-incremental", || inc_strategy(ob), nb, check_incremental, |_c, _v| None);
}

pub fn replay(file: &Value) -> Result<Verdict, String> {
    match file.get("campaign").and_then(|c| c.as_str()).unwrap_or("foreign-histories") {
        "lopdf-incremental" => Ok(check_incremental(&replay_case::<IncCase>(file)?)),
        "encrypted-foreign-histories" => Ok(check_foreign_encrypted(&replay_case::<EncHist>(file)?)),
        _ => Ok(check_foreign(&replay_case::<WFile>(file)?)),
    }
}
