//! C05 — encrypt then decrypt restores every string and stream (DESIGN.md §7 C05).

use super::common::*;
use super::cryptgen::*;
use crate::canon::{self, Opts};
use crate::engine::{no_panic, replay_case, CaseReport, Run, Verdict, Violation};
use crate::model::{ADict, AObj};
use crate::refimpl::sec::sec::Cipher;
use crate::viol;
use lopdf::{Document, Object, ObjectId};
use proptest::prelude::*;
use serde::{Deserialize, Serialize};
use serde_json::Value;

#[derive(Clone, Debug, Serialize, Deserialize)]
pub struct Case {
    pub cfg: Config,
    pub doc: CDoc,
    pub wrong_pw: String,
    pub xref_stream: bool,
    /// the document is not built in memory but loaded from a (reference-written, unencrypted) file with object streams,
    /// and one of the objects that came out of an object stream is edited before encrypting: the containers stay in the
    /// loaded document next to their members, and decrypting must not bring the stale copies back
    #[serde(default)]
    pub via_objstm_file: bool,
}

fn first_string_replaced(o: &AObj, with: &[u8], done: &mut bool) -> AObj {
    match o {
        AObj::Str(_, h) if !*done => {
            *done = true;
            AObj::Str(crate::model::B(with.to_vec()), *h)
        }
        AObj::Array(a) => AObj::Array(a.iter().map(|x| first_string_replaced(x, with, done)).collect()),
        AObj::Dict(d) => AObj::Dict(d.iter().map(|(k, v)| (k.clone(), first_string_replaced(v, with, done))).collect()),
        other => other.clone(),
    }
}

/// (document as loaded and edited, what it must contain)
fn loaded_from_objstm_file(cfg: &Config, cdoc: &CDoc, seed: u64, rep: &mut CaseReport) -> Result<Option<(Document, CDoc)>, Violation> {
    use crate::refimpl::writer::{self, WFile, WRevision};
    let id = AObj::Array(vec![AObj::Str(cfg.id0.clone(), true), AObj::Str(cfg.id0.clone(), true)]);
    let mut tape = vec![];
    let mut x = seed | 1;
    for _ in 0..96 {
        x = x.wrapping_mul(6364136223846793005).wrapping_add(1442695040888963407);
        tape.push((x >> 33) as u8);
    }
    let wf = WFile {
        version: "1.7".into(),
        binary_mark: crate::model::B(vec![0xe2, 0xe3, 0xcf, 0xd3]),
        junk: crate::model::B(vec![]),
        xref_stream: true,
        objstm: true,
        revisions: vec![WRevision { objects: cdoc.objects.clone(), trailer: vec![(crate::model::B::from("ID"), id)] }],
        tape: crate::model::B(tape),
        raw_eol_in_strings: false,
        quirks: 0,
    };
    let out = writer::write(&wf);
    crate::refimpl::strict::read(&out.bytes).map_err(|e| viol!("harness-ref-writer-invalid", "rule {}: {}", e.rule, e.msg))?;
    let Ok(mut doc) = Document::load_mem(&out.bytes) else {
        rep.exclude("object-stream-file-not-loaded (C02's business)");
        return Ok(None);
    };
    let mut model = cdoc.clone();
    let target = model.objects.iter().position(|(n, _, o)| {
        let mut has = false;
        o.visit(&mut |x| has |= matches!(x, AObj::Str(..)));
        has && !matches!(o, AObj::Stream(..)) && matches!(out.placement[0].get(n), Some(Some(_)))
    });
    if let Some(i) = target {
        let (n, g, o) = model.objects[i].clone();
        let mut done = false;
        let edited = first_string_replaced(&o, b"edited after loading from an object stream", &mut done);
        doc.objects.insert((n, g), edited.to_object());
        model.objects[i] = (n, g, edited);
        rep.label("edited-member-of-object-stream");
    }
    // stream lengths held by separate objects are the writer's business: make them direct
    let ids: Vec<ObjectId> = doc.objects.keys().cloned().collect();
    for id in ids {
        if let Some(Object::Stream(s)) = doc.objects.get_mut(&id) {
            let len = s.content.len() as i64;
            s.dict.set("Length", len);
        }
    }
    // the integers holding indirect stream lengths stay in the document as ordinary objects
    for ((n, g), v) in &out.length_objects[0] {
        model.objects.push((*n, *g, v.clone()));
    }
    rep.label("base-loaded-from-object-stream-file");
    Ok(Some((doc, model)))
}

/// Crypt filters on streams only exist from V4 on
pub fn normalise_doc(cfg: &Config, doc: &CDoc) -> CDoc {
    let mut d = doc.clone();
    // strings in the dictionary of a /Metadata stream under EncryptMetadata false: the standard is silent; not generated
    for (_, _, o) in d.objects.iter_mut() {
        if let AObj::Stream(dict, _) = o {
            if dict.iter().any(|(k, v)| k.0 == b"Type" && *v == AObj::name("Metadata")) {
                dict.retain(|(k, _)| k.0 != b"DictString" && k.0 != b"Extra");
            }
        }
    }
    if cfg.version < 4 {
        for (_, _, o) in d.objects.iter_mut() {
            if let AObj::Stream(dict, _) = o {
                let crypt = dict.iter().any(|(k, v)| k.0 == b"Filter" && (*v == AObj::name("Crypt") || *v == AObj::Array(vec![AObj::name("Crypt")])));
                if crypt {
                    dict.retain(|(k, _)| k.0 != b"Filter" && k.0 != b"DecodeParms");
                }
            }
        }
    }
    d
}

/// every (path, plaintext, cipher) of an object: strings everywhere (stream dictionaries included), stream bodies
fn leaves<'a>(cfg: &Config, o: &'a AObj, path: String, out: &mut Vec<(String, &'a [u8], Cipher, bool)>) {
    match o {
        AObj::Str(s, _) => out.push((path, &s.0, cfg.cipher_of(cfg.str_f), false)),
        AObj::Array(a) => a.iter().enumerate().for_each(|(i, x)| leaves(cfg, x, format!("{}[{}]", path, i), out)),
        AObj::Dict(d) => d.iter().for_each(|(k, v)| leaves(cfg, v, format!("{}/{}", path, String::from_utf8_lossy(&k.0)), out)),
        AObj::Stream(d, c) => {
            d.iter().for_each(|(k, v)| leaves(cfg, v, format!("{}.dict/{}", path, String::from_utf8_lossy(&k.0)), out));
            out.push((format!("{}.content", path), &c.0, stream_cipher(cfg, d), true));
        }
        _ => {}
    }
}

fn find<'a>(o: &'a Object, path: &[PathEl]) -> Option<&'a Object> {
    let mut cur = o;
    for p in path {
        cur = match (p, cur) {
            (PathEl::Idx(i), Object::Array(a)) => a.get(*i)?,
            (PathEl::Key(k), Object::Dictionary(d)) => d.get(k).ok()?,
            (PathEl::Key(k), Object::Stream(s)) => s.dict.get(k).ok()?,
            _ => return None,
        };
    }
    Some(cur)
}

#[derive(Clone, Debug)]
enum PathEl {
    Idx(usize),
    Key(Vec<u8>),
}

fn leaves_paths(cfg: &Config, o: &AObj, path: Vec<PathEl>, out: &mut Vec<(Vec<PathEl>, Vec<u8>, Cipher, bool)>) {
    match o {
        AObj::Str(s, _) => out.push((path, s.0.clone(), cfg.cipher_of(cfg.str_f), false)),
        AObj::Array(a) => a.iter().enumerate().for_each(|(i, x)| {
            let mut p = path.clone();
            p.push(PathEl::Idx(i));
            leaves_paths(cfg, x, p, out)
        }),
        AObj::Dict(d) => d.iter().for_each(|(k, v)| {
            let mut p = path.clone();
            p.push(PathEl::Key(k.0.clone()));
            leaves_paths(cfg, v, p, out)
        }),
        AObj::Stream(d, c) => {
            d.iter().for_each(|(k, v)| {
                let mut p = path.clone();
                p.push(PathEl::Key(k.0.clone()));
                leaves_paths(cfg, v, p, out)
            });
            out.push((path, c.0.clone(), stream_cipher(cfg, d), true));
        }
        _ => {}
    }
}

fn compare_plain(cdoc: &CDoc, doc: &Document, what: &str, kind: &str) -> Result<(), Violation> {
    for (n, g, o) in &cdoc.objects {
        match doc.objects.get(&(*n, *g)) {
            None => return Err(Violation::new(kind, format!("{}: object {} {} missing", what, n, g))),
            Some(a) => canon::obj_eq(&o.to_object(), a, Opts::ROUNDTRIP, &format!("obj {} {}", n, g)).map_err(|e| Violation::new(kind, format!("{}: {}", what, e)))?,
        }
    }
    for (id, o) in &doc.objects {
        if !cdoc.objects.iter().any(|(n, g, _)| (*n, *g) == *id) && !is_structural(o) {
            return Err(Violation::new(kind, format!("{}: unexpected object {:?} = {:?} left in the document", what, id, AObj::from_object(o))));
        }
    }
    if doc.trailer.has(b"Encrypt") {
        return Err(viol!("encrypt-dict-left", "{}: the trailer still has /Encrypt", what));
    }
    Ok(())
}

pub fn check(case: &Case) -> Verdict {
    let mut rep = CaseReport::new();
    let cfg = &case.cfg;
    let cdoc = normalise_doc(cfg, &case.doc);
    let case_hash = crate::engine::fnv64(&serde_json::to_vec(case).unwrap_or_default());
    let (plain, cdoc) = match if case.via_objstm_file { loaded_from_objstm_file(cfg, &cdoc, case_hash, &mut rep)? } else { None } {
        Some(x) => x,
        None => (cdoc.to_document(&cfg.id0.0, case.xref_stream), cdoc),
    };
    let _rng = FixedLopdfRng::new(case_hash);
    let state = match no_panic("EncryptionState::try_from", || cfg.lopdf_state(&plain))? {
        Ok(s) => s,
        Err(e) => {
            // e.g. a password the revision's encoding cannot represent: not a round-trip claim
            let _ = e;
            rep.exclude("state-rejected");
            return Ok(rep);
        }
    };
    let mut enc = plain.clone();
    no_panic("encrypt", || enc.encrypt(&state))?.map_err(|e| viol!("encrypt-error", "encrypt fails: {:?}", e))?;
    if !enc.is_encrypted() {
        return Err(viol!("encrypt-error", "is_encrypted() is false after encrypt()"));
    }
    // nothing of >= 16 bytes under a non-identity filter still equals its plaintext
    let mut n_str = 0;
    let mut n_stm = 0;
    for (n, g, o) in &cdoc.objects {
        let mut ls = vec![];
        leaves_paths(cfg, o, vec![], &mut ls);
        let eo = enc.objects.get(&(*n, *g)).ok_or_else(|| viol!("encrypt-error", "object {} {} vanished during encrypt", n, g))?;
        for (path, plaintext, cipher, is_stream) in ls {
            if cipher == Cipher::Identity || plaintext.len() < 16 {
                continue;
            }
            let now = if is_stream {
                find(eo, &path).and_then(|x| x.as_stream().ok()).map(|s| s.content.clone())
            } else {
                find(eo, &path).and_then(|x| x.as_str().ok()).map(|s| s.to_vec())
            };
            if is_stream {
                n_stm += 1
            } else {
                n_str += 1
            }
            if now.as_deref() == Some(&plaintext[..]) {
                return Err(viol!(
                    "still-plaintext",
                    "after encrypt() the {} at {:?} of object {} {} ({} bytes, filter {:?}) still equals its plaintext",
                    if is_stream { "stream body" } else { "string" },
                    path,
                    n,
                    g,
                    plaintext.len(),
                    cipher
                ));
            }
        }
    }
    let _ = leaves;
    // decrypt with either password, in memory and after save + load
    let saved = save(&mut enc.clone())?;
    let same_pw = cfg.effective(&cfg.user_pw) == cfg.effective(&cfg.owner_pw);
    for (who, pw) in [("user", &cfg.user_pw), ("owner", &cfg.owner_pw)] {
        let kind_err = if who == "user" { "decrypt-user-error" } else { "decrypt-owner-error" };
        let kind_diff = if who == "user" { "plaintext-differs-user" } else { "plaintext-differs-owner" };
        let mut d = enc.clone();
        no_panic("decrypt", || d.decrypt(pw))?.map_err(|e| Violation::new(kind_err, format!("decrypt({} password {:?}) fails on the document encrypted with it: {:?}", who, pw, e)))?;
        compare_plain(&cdoc, &d, &format!("in memory, {} password", who), kind_diff)?;
        // through the file
        let mut l = load(&saved).map_err(|v| Violation::new("reload-differs", v.detail))?;
        if l.is_encrypted() {
            no_panic("decrypt", || l.decrypt(pw))?.map_err(|e| Violation::new(kind_err, format!("after save + load, decrypt({} password {:?}) fails: {:?}", who, pw, e)))?;
        } else if !cfg.effective(&cfg.user_pw).is_empty() && !cfg.effective(&cfg.owner_pw).is_empty() {
            return Err(viol!("wrong-password-accepted", "the file opened without a password although neither password is empty"));
        }
        compare_plain(&cdoc, &l, &format!("after save + load, {} password", who), "reload-differs")?;
    }
    // a wrong password is rejected and leaves the document as it was
    let w = &case.wrong_pw;
    let weff = cfg.effective(w);
    if weff == cfg.effective(&cfg.user_pw) || weff == cfg.effective(&cfg.owner_pw) {
        rep.exclude("wrong-password-equals-a-real-one");
    } else {
        let mut d = enc.clone();
        let before = canon::digest(&d);
        match no_panic("decrypt(wrong)", || d.decrypt(w))? {
            Ok(()) => return Err(viol!("wrong-password-accepted", "decrypt({:?}) succeeds; user {:?}, owner {:?}", w, cfg.user_pw, cfg.owner_pw)),
            Err(_) => {
                if canon::digest(&d) != before || !d.is_encrypted() {
                    return Err(viol!("wrong-password-mutated", "a rejected password changed the document: {}", canon::doc_diff(&enc, &d)));
                }
            }
        }
    }
    rep.label(match cfg.version {
        1 => "V1",
        2 => "V2",
        4 => "V4",
        5 => "R5",
        _ => "V5-R6",
    });
    rep.label_if(cfg.version == 4 && cfg.cipher_of(cfg.stm_f) != cfg.cipher_of(cfg.str_f), "V4-StmF!=StrF");
    rep.label_if(cfg.version >= 4 && !cfg.encrypt_metadata, "EncryptMetadata-false");
    rep.label_if(same_pw, "owner==user");
    rep.label_if(cfg.user_pw.is_empty(), "empty-user-password");
    rep.label_if(!cfg.user_pw.is_ascii() || !cfg.owner_pw.is_ascii(), "non-ascii-password");
    rep.label_if(cfg.effective(&cfg.user_pw).len() >= 32, "long-password");
    rep.label_if(cdoc.objects.iter().any(|(_, _, o)| matches!(o, AObj::Stream(d, _) if d.iter().any(|(k, _)| k.0 == b"DictString"))), "string-in-stream-dict");
    rep.label_if(cdoc.objects.iter().any(|(_, _, o)| matches!(o, AObj::Stream(d, _) if has_crypt(d))), "crypt-override");
    rep.nontrivial = n_str >= 1 && n_stm >= 1;
    Ok(rep)
}

fn has_crypt(d: &ADict) -> bool {
    d.iter().any(|(k, v)| k.0 == b"Filter" && (*v == AObj::name("Crypt") || *v == AObj::Array(vec![AObj::name("Crypt")])))
}

pub fn strategy(sw: Switches) -> BoxedStrategy<Case> {
    (config_strategy(), doc_strategy(), "[ -~]{0,12}", any::<bool>())
        .prop_map(move |(mut cfg, mut doc, wrong_pw, xref_stream)| {
            if !sw.predefined_identity {
                if cfg.stm_f % 3 == 2 {
                    cfg.stm_f = 0;
                }
                if cfg.str_f % 3 == 2 {
                    cfg.str_f = 0;
                }
            }
            if !sw.stream_dict_strings {
                for (_, _, o) in doc.objects.iter_mut() {
                    if let AObj::Stream(d, _) = o {
                        d.retain(|(k, _)| k.0 != b"DictString" && k.0 != b"Extra");
                    }
                }
            }
            Case { cfg, doc, wrong_pw, xref_stream, via_objstm_file: false }
        })
        .boxed()
}

#[derive(Clone, Copy, Debug)]
pub struct Switches {
    pub predefined_identity: bool,
    pub stream_dict_strings: bool,
}

pub fn switches(run: &Run) -> Switches {
    Switches { predefined_identity: !run.finding_open("C06-predefined-identity-filter"), stream_dict_strings: !run.finding_open("C06-stream-dict-strings") }
}

pub fn run(run: &mut Run) {
    run.rule = "cases: documents (strings nested in arrays and dictionaries and inside stream dictionaries, binary and empty strings/streams, /Type /Metadata streams, streams with /Filter /Crypt and a named, predefined-Identity or missing filter name) x {V1; V2 with 40..128-bit keys; V4 with StdCF and Alt chosen from RC4 / AESV2 / None and StmF, StrF chosen independently incl. the predefined Identity; R5; V5} x EncryptMetadata x permission subsets x user/owner passwords (empty, ASCII, Latin-1 / non-Latin, > 32 and > 127 bytes, owner == user) x xref format; a second campaign takes the document not from memory but from a reference-written file with object streams and edits one member after loading (the containers stay in the loaded document). Oracle: after encrypt() is_encrypted and no string/stream of >= 16 bytes under a non-identity filter equals its plaintext; for BOTH passwords decrypt() is Ok and every object equals the original with /Encrypt and the encryption dictionary gone, in memory and after save_to + load_mem; a wrong password (different effective bytes) is rejected and leaves the document bit-identical. non-trivial = >= 1 string and >= 1 stream of >= 16 bytes under a non-identity filter; distinct by case hash.".into();
    run.assumptions = vec![
        "password alphabets are restricted to characters whose preparation is known independently (PDFDocEncoding code = code point for R <= 4; per-character SASLprep table from Python for R >= 5)".into(),
        "an EncryptionState that lopdf refuses to build (e.g. unencodable password) is outside the claim and counted".into(),
    ];
    run.replay_known_demos(replay);
    let sw = switches(run);
    let n = run.tier.pick(12_000, 300_000);
    run.campaign("encrypt-decrypt", move || strategy(sw), n, check, |_c, _v| None);
    // the same round trip on documents loaded from a file with object streams, one member edited after loading
    run.campaign(
        "encrypt-decrypt-loaded-from-object-streams",
        move || strategy(sw).prop_map(|mut c| {
            c.via_objstm_file = true;
            c
        }),
        run.tier.pick(2_000, 60_000),
        check,
        |_c, _v| None,
    );
}

pub fn replay(file: &Value) -> Result<Verdict, String> {
    Ok(check(&replay_case::<Case>(file)?))
}
