//! C12 — page enumeration is the depth-first order of the page tree (DESIGN.md §7 C12).

use super::crash::{crash_check, flush_known};
use super::entries::{GraphSpec, E_PAGETREE};
use crate::engine::{fnv64, no_panic, replay_case, CaseReport, Run, Verdict};
use crate::model::{ADict, AObj, B};
use crate::viol;
use proptest::collection::vec;
use proptest::prelude::*;
use serde::{Deserialize, Serialize};
use serde_json::Value;
use std::collections::BTreeMap;

#[derive(Clone, Debug, Serialize, Deserialize)]
pub enum Node {
    Page,
    /// kids, Kids array held behind a reference?
    Pages(Vec<Node>, bool),
}

#[derive(Clone, Debug, Serialize, Deserialize)]
pub struct TreeCase {
    pub root: Node,
    pub numbering_seed: u64,
    /// extra unrelated objects (so that object count != node count)
    pub extra: u8,
}

#[derive(Clone, Debug, Serialize, Deserialize)]
pub enum Malform {
    /// node `slot` (a Pages node) gets node `target` appended/prepended to its Kids (cycles, shared kids)
    KidLink { slot: u16, target: u16, front: bool },
    /// a kid entry that is not a reference to a dictionary
    BadKid { slot: u16, kind: u8 },
    DropType { slot: u16 },
    WrongType { slot: u16, kind: u8 },
    DanglingKid { slot: u16 },
    Count { slot: u16, value: i64 },
    /// Kids is not an array
    BadKids { slot: u16, kind: u8 },
    /// catalog Pages entry points somewhere else
    RootTo { target: u16 },
}

#[derive(Clone, Debug, Serialize, Deserialize)]
pub struct MalformedCase {
    pub tree: TreeCase,
    pub muts: Vec<Malform>,
}

pub struct Built {
    pub graph: GraphSpec,
    /// expected page ids in depth-first order
    pub pages: Vec<(u32, u16)>,
    /// object number of every node in preorder (pages and intermediate nodes)
    pub nodes: Vec<u32>,
    pub depth: usize,
    pub empty_intermediate: bool,
    pub kids_behind_ref: bool,
}

fn count_nodes(n: &Node) -> usize {
    match n {
        Node::Page => 1,
        Node::Pages(k, r) => 1 + (*r as usize) + k.iter().map(count_nodes).sum::<usize>(),
    }
}

fn leaves(n: &Node) -> i64 {
    match n {
        Node::Page => 1,
        Node::Pages(k, _) => k.iter().map(leaves).sum(),
    }
}

fn depth(n: &Node) -> usize {
    match n {
        Node::Page => 0,
        Node::Pages(k, _) => 1 + k.iter().map(depth).max().unwrap_or(0),
    }
}

pub fn build(case: &TreeCase) -> Built {
    // object numbers: 1 = catalog; the rest is a pseudo-random injection determined by the seed
    let total = count_nodes(&case.root) + case.extra as usize;
    let mut order: Vec<usize> = (0..total).collect();
    order.sort_by_key(|i| fnv64(&[&case.numbering_seed.to_le_bytes()[..], &(*i as u64).to_le_bytes()[..]].concat()));
    // slot i (allocation order) gets number order-rank + 2, with gaps
    let mut rank = vec![0u32; total];
    for (r, i) in order.iter().enumerate() {
        rank[*i] = 2 + r as u32 + (r as u32 / 3) * (case.numbering_seed % 3) as u32;
    }
    let mut next = 0usize;
    let mut objects: Vec<(u32, u16, AObj)> = vec![];
    let mut pages = vec![];
    let mut nodes = vec![];
    let mut empty_intermediate = false;
    let mut kids_behind_ref = false;
    fn walk(
        n: &Node, parent: Option<u32>, rank: &[u32], next: &mut usize, objects: &mut Vec<(u32, u16, AObj)>, pages: &mut Vec<(u32, u16)>,
        nodes: &mut Vec<u32>, empty: &mut bool, behind: &mut bool,
    ) -> u32 {
        let num = rank[*next];
        *next += 1;
        nodes.push(num);
        match n {
            Node::Page => {
                let mut d: ADict = vec![(B::from("Type"), AObj::name("Page"))];
                if let Some(p) = parent {
                    d.push((B::from("Parent"), AObj::Ref(p, 0)));
                }
                objects.push((num, 0, AObj::Dict(d)));
                pages.push((num, 0));
            }
            Node::Pages(kids, by_ref) => {
                let arr_num = if *by_ref {
                    let a = rank[*next];
                    *next += 1;
                    Some(a)
                } else {
                    None
                };
                if kids.is_empty() && parent.is_some() {
                    *empty = true;
                }
                let mut kid_refs = vec![];
                for k in kids {
                    let kn = walk(k, Some(num), rank, next, objects, pages, nodes, empty, behind);
                    kid_refs.push(AObj::Ref(kn, 0));
                }
                let mut d: ADict = vec![(B::from("Type"), AObj::name("Pages")), (B::from("Count"), AObj::Int(leaves(n)))];
                if let Some(p) = parent {
                    d.push((B::from("Parent"), AObj::Ref(p, 0)));
                }
                match arr_num {
                    Some(a) => {
                        *behind = true;
                        objects.push((a, 0, AObj::Array(kid_refs)));
                        d.push((B::from("Kids"), AObj::Ref(a, 0)));
                    }
                    None => d.push((B::from("Kids"), AObj::Array(kid_refs))),
                }
                objects.push((num, 0, AObj::Dict(d)));
            }
        }
        num
    }
    let root = walk(&case.root, None, &rank, &mut next, &mut objects, &mut pages, &mut nodes, &mut empty_intermediate, &mut kids_behind_ref);
    for _ in 0..case.extra {
        let num = rank[next];
        next += 1;
        objects.push((num, 0, AObj::Int(num as i64)));
    }
    objects.push((1, 0, AObj::dict(vec![("Type", AObj::name("Catalog")), ("Pages", AObj::Ref(root, 0))])));
    Built {
        graph: GraphSpec { objects, trailer: vec![(B::from("Root"), AObj::Ref(1, 0))] },
        pages,
        nodes,
        depth: depth(&case.root),
        empty_intermediate,
        kids_behind_ref,
    }
}

pub fn check(case: &TreeCase) -> Verdict {
    let mut rep = CaseReport::new();
    // the root must be a Pages node
    let case = match &case.root {
        Node::Page => TreeCase { root: Node::Pages(vec![Node::Page], false), ..case.clone() },
        _ => case.clone(),
    };
    let b = build(&case);
    let doc = b.graph.to_document();
    let got: Vec<(u32, u16)> = no_panic("page_iter", || doc.page_iter().collect())?;
    if got != b.pages {
        let p = got.iter().zip(b.pages.iter()).position(|(a, c)| a != c).unwrap_or(got.len().min(b.pages.len()));
        return Err(viol!(
            "order-differs",
            "page_iter yields {} pages, depth-first order has {}; first difference at index {}: got {:?} expected {:?} (tree depth {})",
            got.len(),
            b.pages.len(),
            p,
            got.get(p),
            b.pages.get(p),
            b.depth
        ));
    }
    let pages = no_panic("get_pages", || doc.get_pages())?;
    let numbered: Vec<(u32, (u32, u16))> = pages.into_iter().collect();
    let expect: Vec<(u32, (u32, u16))> = b.pages.iter().enumerate().map(|(i, p)| (i as u32 + 1, *p)).collect();
    if numbered != expect {
        return Err(viol!("numbering-wrong", "get_pages returns {:?}…, expected {:?}…", &numbered[..numbered.len().min(5)], &expect[..expect.len().min(5)]));
    }
    let hint = doc.page_iter().size_hint();
    if hint.0 > b.pages.len() || hint.1.map(|u| u < b.pages.len()).unwrap_or(false) {
        return Err(viol!("size-hint-wrong", "size_hint {:?} inconsistent with {} pages", hint, b.pages.len()));
    }
    let sorted = b.pages.windows(2).all(|w| w[0] < w[1]);
    rep.label_if(b.depth >= 3, "depth>=3");
    rep.label_if(b.depth >= 20, "depth>=20");
    rep.label_if(b.depth >= 100, "depth>=100");
    rep.label_if(b.empty_intermediate, "empty-intermediate-node");
    rep.label_if(b.kids_behind_ref, "kids-behind-reference");
    rep.label_if(!sorted, "page-ids-out-of-page-order");
    rep.label_if(b.pages.is_empty(), "no-pages");
    rep.label_if(b.pages.len() >= 257, "pages>=257");
    rep.nontrivial = b.depth >= 3 && (b.empty_intermediate || b.kids_behind_ref);
    Ok(rep)
}

pub fn apply_malformations(b: &mut Built, muts: &[Malform]) -> Vec<&'static str> {
    let mut labels = vec![];
    let nodes = b.nodes.clone();
    let pick = |slot: u16| nodes[(slot as usize * nodes.len()) >> 16];
    for m in muts {
        match m {
            Malform::KidLink { slot, target, front } => {
                let (s, t) = (pick(*slot), pick(*target));
                for (n, _, o) in b.graph.objects.iter_mut() {
                    if *n == s {
                        if let AObj::Dict(d) = o {
                            for (k, v) in d.iter_mut() {
                                if k.0 == b"Kids" {
                                    if let AObj::Array(a) = v {
                                        if *front {
                                            a.insert(0, AObj::Ref(t, 0))
                                        } else {
                                            a.push(AObj::Ref(t, 0))
                                        }
                                    }
                                }
                            }
                        }
                    }
                }
                labels.push("kid-cycle-or-shared");
            }
            Malform::BadKid { slot, kind } => {
                let s = pick(*slot);
                let bad = match kind % 6 {
                    0 => AObj::Int(5),
                    1 => AObj::Null,
                    2 => AObj::dict(vec![("Type", AObj::name("Page"))]),
                    3 => AObj::Ref(1, 0),
                    4 => AObj::Ref(s, 0),
                    _ => AObj::Array(vec![AObj::Ref(s, 0)]),
                };
                for (n, _, o) in b.graph.objects.iter_mut() {
                    if *n == s {
                        if let AObj::Dict(d) = o {
                            for (k, v) in d.iter_mut() {
                                if k.0 == b"Kids" {
                                    if let AObj::Array(a) = v {
                                        a.insert(a.len() / 2, bad.clone());
                                    }
                                }
                            }
                        }
                    }
                }
                labels.push("non-dictionary-kid");
            }
            Malform::DropType { slot } => {
                let s = pick(*slot);
                for (n, _, o) in b.graph.objects.iter_mut() {
                    if *n == s {
                        if let AObj::Dict(d) = o {
                            d.retain(|(k, _)| k.0 != b"Type");
                        }
                    }
                }
                labels.push("missing-type");
            }
            Malform::WrongType { slot, kind } => {
                let s = pick(*slot);
                let t = match kind % 4 {
                    0 => AObj::name("Pages"),
                    1 => AObj::name("Page"),
                    2 => AObj::Int(1),
                    _ => AObj::name("Catalog"),
                };
                for (n, _, o) in b.graph.objects.iter_mut() {
                    if *n == s {
                        if let AObj::Dict(d) = o {
                            for (k, v) in d.iter_mut() {
                                if k.0 == b"Type" {
                                    *v = t.clone();
                                }
                            }
                        }
                    }
                }
                labels.push("wrong-type");
            }
            Malform::DanglingKid { slot } => {
                let s = pick(*slot);
                b.graph.objects.retain(|(n, _, _)| *n != s || s == nodes[0]);
                labels.push("dangling-kid");
            }
            Malform::Count { slot, value } => {
                let s = pick(*slot);
                for (n, _, o) in b.graph.objects.iter_mut() {
                    if *n == s {
                        if let AObj::Dict(d) = o {
                            for (k, v) in d.iter_mut() {
                                if k.0 == b"Count" {
                                    *v = AObj::Int(*value);
                                }
                            }
                        }
                    }
                }
                labels.push("wrong-count");
            }
            Malform::BadKids { slot, kind } => {
                let s = pick(*slot);
                let bad = match kind % 5 {
                    0 => AObj::Int(1),
                    1 => AObj::Ref(s, 0),
                    2 => AObj::Ref(999_999, 0),
                    3 => AObj::dict(vec![]),
                    _ => AObj::Null,
                };
                for (n, _, o) in b.graph.objects.iter_mut() {
                    if *n == s {
                        if let AObj::Dict(d) = o {
                            for (k, v) in d.iter_mut() {
                                if k.0 == b"Kids" {
                                    *v = bad.clone();
                                }
                            }
                        }
                    }
                }
                labels.push("kids-not-an-array");
            }
            Malform::RootTo { target } => {
                let t = pick(*target);
                for (n, _, o) in b.graph.objects.iter_mut() {
                    if *n == 1 {
                        *o = AObj::dict(vec![("Type", AObj::name("Catalog")), ("Pages", AObj::Ref(t, 0))]);
                    }
                }
                labels.push("root-points-elsewhere");
            }
        }
    }
    labels
}

/// number of distinct paths from the page-tree root to every object, following /Kids arrays (direct or behind
/// references) through dictionaries of any type; None when a cycle is in reach or the numbers explode
fn kids_paths(g: &crate::props::entries::GraphSpec) -> Option<BTreeMap<u32, u64>> {
    let objs: BTreeMap<u32, &AObj> = g.objects.iter().map(|(n, _, o)| (*n, o)).collect();
    let deref = |o: &AObj| -> Option<(Option<u32>, AObj)> {
        let mut cur = o.clone();
        let mut id = None;
        for _ in 0..40 {
            match cur {
                AObj::Ref(n, _) => {
                    id = Some(n);
                    cur = (*objs.get(&n)?).clone();
                }
                other => return Some((id, other)),
            }
        }
        None
    };
    let root = g.trailer.iter().find(|(k, _)| k.0 == b"Root").map(|(_, v)| v.clone())?;
    let (_, cat) = deref(&root)?;
    let (root_id, _) = deref(cat.get("Pages")?)?;
    let root_id = root_id?;
    let kids_of = |n: u32| -> Vec<u32> {
        let Some(AObj::Dict(d)) = objs.get(&n).map(|o| (*o).clone()) else { return vec![] };
        let Some(k) = d.iter().rev().find(|(k, _)| k.0 == b"Kids").map(|(_, v)| v.clone()) else { return vec![] };
        let Some((_, AObj::Array(a))) = deref(&k) else { return vec![] };
        a.iter().filter_map(|x| deref(x).and_then(|(id, o)| if matches!(o, AObj::Dict(_)) { id } else { None })).collect()
    };
    // cycle check + topological accumulation by DFS with memo
    fn visit(n: u32, kids_of: &dyn Fn(u32) -> Vec<u32>, state: &mut BTreeMap<u32, u8>, order: &mut Vec<u32>) -> bool {
        match state.get(&n) {
            Some(1) => return false,
            Some(2) => return true,
            _ => {}
        }
        state.insert(n, 1);
        for k in kids_of(n) {
            if !visit(k, kids_of, state, order) {
                return false;
            }
        }
        state.insert(n, 2);
        order.push(n);
        true
    }
    let mut state = BTreeMap::new();
    let mut order = vec![];
    if !visit(root_id, &kids_of, &mut state, &mut order) {
        return None;
    }
    let mut paths: BTreeMap<u32, u64> = BTreeMap::new();
    paths.insert(root_id, 1);
    for n in order.iter().rev() {
        let p = paths.get(n).copied().unwrap_or(0);
        for k in kids_of(*n) {
            let e = paths.entry(k).or_insert(0);
            *e = e.checked_add(p)?;
        }
    }
    Some(paths)
}

pub fn check_malformed(case: &MalformedCase) -> Verdict {
    let mut rep = CaseReport::new();
    let tree = match &case.tree.root {
        Node::Page => TreeCase { root: Node::Pages(vec![Node::Page], false), ..case.tree.clone() },
        _ => case.tree.clone(),
    };
    let mut b = build(&tree);
    let labels = apply_malformations(&mut b, &case.muts);
    let payload = serde_json::to_vec(&b.graph).unwrap();
    let o = crash_check("C12", E_PAGETREE, &payload, &mut rep)?;
    if let crate::worker::Outcome::Ok { summary, .. } = &o {
        if summary.starts_with("NONPAGE") {
            return Err(viol!("non-page-yielded", "enumeration of a malformed tree yielded an object that is not a /Type /Page dictionary: {}", summary));
        }
        if summary.starts_with("UNBOUNDED") {
            return Err(viol!("hang", "enumeration of a malformed tree did not stop after 10^7 pages"));
        }
        if summary.starts_with("NUMBERING") {
            return Err(viol!("numbering-wrong", "get_pages on a malformed tree is not numbered 1..n: {}", summary));
        }
        // "exactly the leaf page objects": a page is yielded at most once per path that leads from the root to it through
        // /Kids arrays (shared kids have several paths; with a kid cycle in reach the bound is not defined and not checked)
        if let Some(list) = summary.split(" ids=").nth(1) {
            let yielded: Vec<u32> = list.split(',').filter_map(|x| x.parse().ok()).collect();
            if let Some(paths) = kids_paths(&b.graph) {
                let mut count: BTreeMap<u32, u64> = BTreeMap::new();
                for y in &yielded {
                    *count.entry(*y).or_insert(0) += 1;
                }
                for (id, c) in count {
                    let p = paths.get(&id).copied().unwrap_or(0);
                    if c > p {
                        return Err(viol!("order-differs", "enumeration of a malformed tree yields page {} {} times, but only {} path(s) lead to it from the root through /Kids; yielded {:?}", id, c, p, crate::engine::truncate(&format!("{:?}", yielded), 300)));
                    }
                }
                rep.label("multiplicity-bound-checked");
            }
        }
    }
    for l in &labels {
        rep.label(l);
    }
    rep.nontrivial = !labels.is_empty() && b.depth >= 2;
    Ok(rep)
}

fn small_node() -> BoxedStrategy<Node> {
    let leaf = prop_oneof![4 => Just(Node::Page), 1 => Just(Node::Pages(vec![], false)), 1 => Just(Node::Pages(vec![], true))];
    leaf.prop_recursive(3, 16, 4, |inner| (vec(inner, 0..=4), prop::bool::weighted(0.3)).prop_map(|(k, r)| Node::Pages(k, r))).boxed()
}

pub fn tree_strategy(max_depth: usize) -> BoxedStrategy<TreeCase> {
    // a spine of `depth` nested Pages nodes, each with small sub-trees before and after the spine child
    let level = (vec(small_node(), 0..3), vec(small_node(), 0..3), prop::bool::weighted(0.25));
    let depth = prop_oneof![5 => 1usize..6, 3 => 6usize..=max_depth.min(40), 1 => max_depth.min(40)..=max_depth];
    // occasionally one level is very wide: a nested node followed by hundreds of sibling pages (fan-out beyond
    // the depth-limit constant, so that a guard comparing the wrong quantity shows)
    let wide = prop_oneof![12 => Just(None), 1 => (any::<u16>(), 250usize..330, any::<bool>()).prop_map(Some)];
    (depth.prop_flat_map(move |d| vec(level.clone(), d)), vec(small_node(), 0..4), any::<u64>(), 0u8..4, wide)
        .prop_map(|(spine, bottom, numbering_seed, extra, wide)| {
            let mut node = Node::Pages(bottom, false);
            let n_levels = spine.len();
            for (li, (before, after, by_ref)) in spine.into_iter().rev().enumerate() {
                let mut kids = before;
                if let Some((slot, count, in_front)) = wide {
                    if (slot as usize * n_levels) >> 16 == li && in_front {
                        kids.extend(std::iter::repeat(Node::Page).take(count));
                    }
                }
                kids.push(node);
                kids.extend(after);
                if let Some((slot, count, in_front)) = wide {
                    if (slot as usize * n_levels) >> 16 == li && !in_front {
                        kids.extend(std::iter::repeat(Node::Page).take(count));
                    }
                }
                node = Node::Pages(kids, by_ref);
            }
            TreeCase { root: node, numbering_seed, extra }
        })
        .boxed()
}

/// Combs and full trees: hundreds of intermediate nodes that are the LAST kid of their parent (a tail descent) each
/// followed by a return to pending siblings further up — state an iterator carries across sub-trees shows here.
pub fn comb_strategy() -> BoxedStrategy<TreeCase> {
    let chapter = |inner: usize| -> Node {
        // chapter -> [page?] section -> page(s): the section is the chapter's last kid
        let mut n = Node::Pages(vec![Node::Page], false);
        for _ in 0..inner {
            n = Node::Pages(vec![n], false);
        }
        n
    };
    let comb = (257usize..340, 0usize..3, any::<bool>(), any::<u64>(), 0u8..4).prop_map(move |(chapters, inner, lead_page, numbering_seed, extra)| {
        let kids: Vec<Node> = (0..chapters)
            .map(|_| {
                let mut k = vec![];
                if lead_page {
                    k.push(Node::Page);
                }
                k.push(chapter(inner + 1));
                Node::Pages(k, false)
            })
            .collect();
        TreeCase { root: Node::Pages(kids, false), numbering_seed, extra }
    });
    fn full(depth: usize) -> Node {
        if depth == 0 {
            Node::Page
        } else {
            Node::Pages(vec![full(depth - 1), full(depth - 1)], false)
        }
    }
    let binary = (8usize..=10, any::<u64>(), 0u8..4).prop_map(|(d, numbering_seed, extra)| TreeCase { root: full(d), numbering_seed, extra });
    prop_oneof![3 => comb, 1 => binary].boxed()
}

pub fn malform_strategy() -> BoxedStrategy<Malform> {
    let count = prop_oneof![Just(-1i64), Just(0), Just(1 << 62), Just(i64::MAX), Just(i64::MIN), Just(1 << 32), Just(1_000_000), -5i64..50];
    prop_oneof![
        3 => (any::<u16>(), any::<u16>(), any::<bool>()).prop_map(|(slot, target, front)| Malform::KidLink { slot, target, front }),
        2 => (any::<u16>(), any::<u8>()).prop_map(|(slot, kind)| Malform::BadKid { slot, kind }),
        1 => any::<u16>().prop_map(|slot| Malform::DropType { slot }),
        1 => (any::<u16>(), any::<u8>()).prop_map(|(slot, kind)| Malform::WrongType { slot, kind }),
        1 => any::<u16>().prop_map(|slot| Malform::DanglingKid { slot }),
        3 => (any::<u16>(), count).prop_map(|(slot, value)| Malform::Count { slot, value }),
        1 => (any::<u16>(), any::<u8>()).prop_map(|(slot, kind)| Malform::BadKids { slot, kind }),
        1 => any::<u16>().prop_map(|target| Malform::RootTo { target }),
    ]
    .boxed()
}

pub fn run(run: &mut Run) {
    let max_depth = if run.tier == crate::engine::Tier::Thorough { 255 } else { 60 };
    run.rule = format!("well-formed: page trees built as a spine of 1..{} nested Pages nodes with random small sub-trees (fan-out 0..4, empty intermediate nodes, pages and nodes interleaved) before and after the spine child at every level, Kids direct or behind a reference, object numbers a pseudo-random injection (page ids out of page order, gaps); oracle: page_iter() = own recursive depth-first traversal, get_pages() numbered 1..n in that order, size_hint consistent. Campaign 'combs-and-full-trees': 257..340 chapters each ending in a nested last-kid node, and complete binary trees of depth 8..10 (state carried across sub-trees). malformed: the same trees with 1..4 malformations (kid cycles / shared kids, non-dictionary kids, missing or wrong Type, dangling kids, negative/huge/wrong Count, Kids not an array, catalog pointing at an inner node) run in the isolated worker; oracle: enumeration terminates without panic/overflow/oversized allocation, yields only /Type /Page dictionaries, get_pages numbered 1..n. non-trivial = depth >= 3 and (an empty intermediate node or Kids behind a reference) / >= 1 malformation at depth >= 2.", max_depth);
    run.assumptions = vec!["depth up to 255 pending sibling lists is the documented limit (PAGE_TREE_DEPTH_LIMIT)".into()];
    run.replay_known_demos(replay);
    let n = run.tier.pick(8_000, 300_000);
    run.campaign("depth-first-order", || tree_strategy(max_depth), n, check, |_c, _v| None);
    run.campaign("combs-and-full-trees", comb_strategy, run.tier.pick(60, 1_500), check, |_c, _v| None);
    let nm = run.tier.pick(8_000, 300_000);
    run.campaign(
        "malformed-trees",
        || (tree_strategy(max_depth.min(30)), vec(malform_strategy(), 1..5)).prop_map(|(tree, muts)| MalformedCase { tree, muts }),
        nm,
        check_malformed,
        |_c, _v| None,
    );
    flush_known(run);
}

pub fn replay(file: &Value) -> Result<Verdict, String> {
    match file.get("campaign").and_then(|c| c.as_str()).unwrap_or("depth-first-order") {
        "malformed-trees" => Ok(check_malformed(&replay_case::<MalformedCase>(file)?)),
        _ => Ok(check(&replay_case::<TreeCase>(file)?)),
    }
}
