//! C10 — renumbering objects preserves the document graph (DESIGN.md §7 C10).

use super::c12::{self, TreeCase};
use crate::canon::{self, Opts};
use crate::engine::{no_panic, replay_case, CaseReport, Run, Verdict, Violation};
use crate::model::{AObj, B};
use crate::viol;
use lopdf::{Bookmark, Document, Object, ObjectId};
use proptest::collection::vec;
use proptest::prelude::*;
use serde::{Deserialize, Serialize};
use serde_json::Value;
use std::collections::{BTreeMap, BTreeSet};

#[derive(Clone, Debug, Serialize, Deserialize)]
pub struct Extra {
    /// references held by this object: slot into all objects, or dangling number
    pub refs: Vec<(u16, bool)>,
    pub as_array: bool,
    pub is_stream: bool,
    /// referenced from the trailer / from the catalog (otherwise only by other extras, possibly unreachable)
    pub anchor: u8,
}

#[derive(Clone, Debug, Serialize, Deserialize)]
pub struct Case {
    pub tree: TreeCase,
    pub extras: Vec<Extra>,
    /// generation per object slot (cycled)
    pub gens: Vec<u16>,
    /// bookmarks: (page slot, parent bookmark slot)
    pub bookmarks: Vec<(u16, Option<u16>)>,
    /// 0 => renumber_objects(); otherwise renumber_objects_with(start chosen by kind)
    pub start_kind: u8,
    pub start_raw: u32,
    /// numbers used by dangling references (relative selector)
    pub dangling: Vec<u32>,
}

pub const MARK: &str = "VId";

fn marker_of(o: &Object) -> Option<i64> {
    match o {
        Object::Dictionary(d) => d.get(MARK.as_bytes()).ok().and_then(|v| v.as_i64().ok()),
        Object::Stream(s) => s.dict.get(MARK.as_bytes()).ok().and_then(|v| v.as_i64().ok()),
        Object::Array(a) => match a.first() {
            Some(Object::Array(m)) if m.len() == 2 && m[0] == Object::Name(MARK.as_bytes().to_vec()) => m[1].as_i64().ok(),
            _ => None,
        },
        _ => None,
    }
}

fn rename(o: &Object, map: &BTreeMap<ObjectId, ObjectId>) -> Object {
    match o {
        Object::Reference(id) => Object::Reference(*map.get(id).unwrap_or(id)),
        Object::Array(a) => Object::Array(a.iter().map(|x| rename(x, map)).collect()),
        Object::Dictionary(d) => {
            let mut out = lopdf::Dictionary::new();
            for (k, v) in d.iter() {
                out.set(k.clone(), rename(v, map));
            }
            Object::Dictionary(out)
        }
        Object::Stream(s) => {
            let mut out = lopdf::Dictionary::new();
            for (k, v) in s.dict.iter() {
                out.set(k.clone(), rename(v, map));
            }
            Object::Stream(lopdf::Stream { dict: out, content: s.content.clone(), allows_compression: s.allows_compression, start_position: s.start_position })
        }
        other => other.clone(),
    }
}

fn refs_of(o: &Object, out: &mut Vec<ObjectId>) {
    match o {
        Object::Reference(id) => out.push(*id),
        Object::Array(a) => a.iter().for_each(|x| refs_of(x, out)),
        Object::Dictionary(d) => d.iter().for_each(|(_, v)| refs_of(v, out)),
        Object::Stream(s) => s.dict.iter().for_each(|(_, v)| refs_of(v, out)),
        _ => {}
    }
}

/// own reachability from the trailer
fn reachable(doc: &Document) -> BTreeSet<ObjectId> {
    let mut seen = BTreeSet::new();
    let mut stack = vec![];
    doc.trailer.iter().for_each(|(_, v)| refs_of(v, &mut stack));
    while let Some(id) = stack.pop() {
        if let Some(o) = doc.objects.get(&id) {
            if seen.insert(id) {
                refs_of(o, &mut stack);
            }
        }
    }
    seen
}

pub fn build_doc(case: &Case) -> (Document, Vec<ObjectId>, bool, bool) {
    let tree = match &case.tree.root {
        c12::Node::Page => TreeCase { root: c12::Node::Pages(vec![c12::Node::Page], false), ..case.tree.clone() },
        _ => case.tree.clone(),
    };
    // (C12's unrelated integer objects carry no marker: not used here)
    let tree = TreeCase { extra: 0, ..tree };
    let b = c12::build(&tree);
    // generations: object number -> generation
    let mut gen_of: BTreeMap<u32, u16> = BTreeMap::new();
    let nums: Vec<u32> = b.graph.objects.iter().map(|o| o.0).collect();
    for (i, n) in nums.iter().enumerate() {
        let g = if case.gens.is_empty() { 0 } else { case.gens[i % case.gens.len()] };
        gen_of.insert(*n, g);
    }
    let mut next_num = nums.iter().max().copied().unwrap_or(1) + 1;
    let mut objects: Vec<(u32, u16, AObj)> = b.graph.objects.clone();
    // extras
    let mut extra_ids = vec![];
    for (i, _) in case.extras.iter().enumerate() {
        let num = next_num + (i as u32 % 3);
        next_num = num + 1;
        let g = if case.gens.is_empty() { 0 } else { case.gens[(nums.len() + i) % case.gens.len()] };
        gen_of.insert(num, g);
        extra_ids.push(num);
    }
    let all_nums: Vec<u32> = nums.iter().cloned().chain(extra_ids.iter().cloned()).collect();
    let max_num = all_nums.iter().max().copied().unwrap_or(1);
    let mut trailer_refs = vec![];
    let mut catalog_refs = vec![];
    let mut shared_or_cyclic = false;
    let mut has_dangling = false;
    let mut ref_count: BTreeMap<u32, u32> = BTreeMap::new();
    for (i, e) in case.extras.iter().enumerate() {
        let mut items = vec![];
        for (k, (slot, dangling)) in e.refs.iter().enumerate() {
            let r = if *dangling && !case.dangling.is_empty() {
                has_dangling = true;
                // a number that is not an object: inside the dense range, just above, or far away
                let d = case.dangling[(k + i) % case.dangling.len()];
                // values >= 3 000 000 are taken literally (far away from every new range)
                if d < 3_000_000 && d % 4 == 3 && !all_nums.is_empty() {
                    // the number of a live object with another generation (0xFFFF is resolved to "its generation + 1" below)
                    AObj::Ref(all_nums[(d as usize / 4) % all_nums.len()], 0xFFFF)
                } else {
                    let mut n = if d >= 3_000_000 { d } else { 1 + d % (max_num + 40) };
                    let mut guard = 0;
                    while all_nums.contains(&n) && guard < 1000 {
                        n += 1;
                        guard += 1;
                    }
                    AObj::Ref(n, 0)
                }
            } else {
                let n = all_nums[(*slot as usize * all_nums.len()) >> 16];
                *ref_count.entry(n).or_insert(0) += 1;
                if n >= extra_ids[i.min(extra_ids.len() - 1)] || ref_count[&n] > 1 {
                    shared_or_cyclic = true;
                }
                AObj::Ref(n, gen_of[&n])
            };
            items.push(r);
        }
        let num = extra_ids[i];
        let obj = if e.as_array {
            let mut a = vec![AObj::Array(vec![AObj::name(MARK), AObj::Int(num as i64)])];
            a.extend(items);
            AObj::Array(a)
        } else {
            let mut d: Vec<(B, AObj)> = vec![(B::from(MARK), AObj::Int(num as i64)), (B::from("Payload"), AObj::lit(format!("extra {}", i).as_bytes()))];
            for (k, it) in items.into_iter().enumerate() {
                d.push((B(format!("R{}", k).into_bytes()), if k % 2 == 0 { it } else { AObj::Array(vec![AObj::Int(k as i64), it]) }));
            }
            if e.is_stream {
                AObj::Stream(d, B(format!("stream of extra {}", i).into_bytes()))
            } else {
                AObj::Dict(d)
            }
        };
        objects.push((num, 0, obj));
        match e.anchor % 4 {
            0 => trailer_refs.push(num),
            1 => catalog_refs.push(num),
            _ => {}
        }
    }
    // markers on the tree's dictionaries, generations everywhere
    let mut doc = Document::with_version("1.5");
    for (n, _, o) in objects.iter_mut() {
        if let AObj::Dict(d) = o {
            if !d.iter().any(|(k, _)| k.0 == MARK.as_bytes()) {
                d.push((B::from(MARK), AObj::Int(*n as i64)));
            }
            if *n == 1 {
                for (k, c) in catalog_refs.iter().enumerate() {
                    d.push((B(format!("X{}", k).into_bytes()), AObj::Ref(*c, 0)));
                }
            }
        } else if let AObj::Array(a) = o {
            // Kids arrays held behind a reference
            if !matches!(a.first(), Some(AObj::Array(m)) if m.len() == 2) {
                // leave Kids arrays unmarked: identified through their parent
            }
        }
    }
    // apply generations to ids and to every reference
    for (n, _, o) in objects.iter_mut() {
        let _ = n;
        o.visit_mut(&mut |x| {
            if let AObj::Ref(t, g) = x {
                if let Some(gg) = gen_of.get(t) {
                    *g = if *g == 0xFFFF { (*gg + 1) % 0xFFFE } else { *gg };
                }
            }
        });
    }
    for (n, _, o) in &objects {
        doc.objects.insert((*n, gen_of.get(n).copied().unwrap_or(0)), o.to_object_raw());
    }
    doc.max_id = doc.objects.keys().map(|k| k.0).max().unwrap_or(0);
    doc.trailer.set("Root", Object::Reference((1, gen_of.get(&1).copied().unwrap_or(0))));
    for (k, t) in trailer_refs.iter().enumerate() {
        doc.trailer.set(format!("T{}", k), Object::Reference((*t, gen_of[t])));
    }
    let pages: Vec<ObjectId> = b.pages.iter().map(|p| (p.0, gen_of[&p.0])).collect();
    (doc, pages, shared_or_cyclic, has_dangling)
}

pub fn check(case: &Case) -> Verdict {
    check_with(case, false)
}

/// old object vs. renumbered object, position by position: a reference must be the renamed one; with `tolerated` a
/// reference that dangled before may have been renamed (known finding: dangling references are captured)
fn same_under_renaming(old: &Object, new: &Object, map: &BTreeMap<ObjectId, ObjectId>, old_doc: &Document, tolerated: &mut Option<u64>, path: &str) -> Result<(), String> {
    match (old, new) {
        (Object::Reference(o), Object::Reference(n)) => {
            let exp = map.get(o).unwrap_or(o);
            if n == exp {
                Ok(())
            } else if let (Some(t), false) = (tolerated.as_mut(), old_doc.objects.contains_key(o)) {
                *t += 1;
                Ok(())
            } else {
                Err(format!("{}: expected {} {} R got {} {} R", path, exp.0, exp.1, n.0, n.1))
            }
        }
        (Object::Array(a), Object::Array(b)) => {
            if a.len() != b.len() {
                return Err(format!("{}: array length {} became {}", path, a.len(), b.len()));
            }
            a.iter().zip(b.iter()).enumerate().try_for_each(|(i, (x, y))| same_under_renaming(x, y, map, old_doc, tolerated, &format!("{}[{}]", path, i)))
        }
        (Object::Dictionary(a), Object::Dictionary(b)) => {
            if a.len() != b.len() {
                return Err(format!("{}: dictionary size {} became {}", path, a.len(), b.len()));
            }
            for (k, x) in a.iter() {
                let y = b.get(k).map_err(|_| format!("{}: key /{} lost", path, String::from_utf8_lossy(k)))?;
                same_under_renaming(x, y, map, old_doc, tolerated, &format!("{}/{}", path, String::from_utf8_lossy(k)))?;
            }
            Ok(())
        }
        (Object::Stream(a), Object::Stream(b)) => {
            if a.content != b.content {
                return Err(format!("{}: stream content changed", path));
            }
            same_under_renaming(&Object::Dictionary(a.dict.clone()), &Object::Dictionary(b.dict.clone()), map, old_doc, tolerated, path)
        }
        (a, b) => canon::obj_eq(a, b, Opts::STRICT, path),
    }
}

/// `tolerate_captured`: known finding C10-dangling-captured is open — a dangling reference that resolves after the
/// renumbering is counted instead of reported, so that the focused campaign keeps looking for anything else
pub fn check_with(case: &Case, tolerate_captured: bool) -> Verdict {
    let mut rep = CaseReport::new();
    let (mut doc, pages, shared_or_cyclic, has_dangling) = build_doc(case);
    // bookmarks
    let mut bm_ids: Vec<u32> = vec![];
    let mut bm_pages: Vec<ObjectId> = vec![];
    for (slot, parent) in &case.bookmarks {
        if pages.is_empty() {
            break;
        }
        let page = pages[(*slot as usize * pages.len()) >> 16];
        let parent = parent.filter(|_| !bm_ids.is_empty()).map(|p| bm_ids[(p as usize * bm_ids.len()) >> 16]);
        let id = doc.add_bookmark(Bookmark::new(format!("b{}", bm_ids.len()), [0.0, 0.0, 0.0], 0, page), parent);
        bm_ids.push(id);
        bm_pages.push(page);
    }
    let old = doc.clone();
    let old_pages: Vec<ObjectId> = old.page_iter().collect();
    if old_pages != pages {
        return Err(viol!("harness-page-order", "generated tree enumerates differently before renumbering (C12's business)"));
    }
    let n = old.objects.len() as u32;
    let old_max = old.objects.keys().map(|k| k.0).max().unwrap_or(0);
    let old_min = old.objects.keys().map(|k| k.0).min().unwrap_or(0);
    let start = match case.start_kind % 6 {
        0 | 1 => 1,
        2 => 2,
        3 => old_min + case.start_raw % (old_max - old_min + 1).max(1),
        4 => old_max + 1,
        _ => 1_000_000,
    };
    if case.start_kind % 6 == 0 {
        no_panic("renumber_objects", || doc.renumber_objects())?;
    } else {
        no_panic("renumber_objects_with", || doc.renumber_objects_with(start))?;
    }
    // (1) consecutive numbers and max_id
    let nums: Vec<u32> = doc.objects.keys().map(|k| k.0).collect();
    let expect: Vec<u32> = (start..start + n).collect();
    if nums != expect {
        return Err(viol!("numbers-not-consecutive", "after renumbering from {}: object numbers {:?}, expected {}..{} ({} objects before)", start, crate::engine::truncate(&format!("{:?}", nums), 300), start, start + n - 1, n));
    }
    if n > 0 && doc.max_id != start + n - 1 {
        return Err(viol!("max-id-wrong", "max_id is {} after renumbering {} objects from {}", doc.max_id, n, start));
    }
    // the renaming, recovered through the unique markers (Kids arrays behind references: through their parent below)
    let mut by_marker_old: BTreeMap<i64, ObjectId> = BTreeMap::new();
    for (id, o) in &old.objects {
        if let Some(m) = marker_of(o) {
            by_marker_old.insert(m, *id);
        }
    }
    let mut map: BTreeMap<ObjectId, ObjectId> = BTreeMap::new();
    for (id, o) in &doc.objects {
        if let Some(m) = marker_of(o) {
            match by_marker_old.get(&m) {
                Some(oid) => {
                    if map.insert(*oid, *id).is_some() {
                        return Err(viol!("reference-renamed-inconsistently", "object with marker {} exists twice after renumbering", m));
                    }
                }
                None => return Err(viol!("reachable-object-altered", "object {:?} carries an unknown marker {}", id, m)),
            }
        }
    }
    // unmarked objects (Kids arrays): resolve through the Kids reference of their (marked) owner
    for (oid, o) in &old.objects {
        if let Object::Dictionary(d) = o {
            if let (Ok(Object::Reference(kold)), Some(nid)) = (d.get(b"Kids"), map.get(oid)) {
                if let Ok(Object::Dictionary(nd)) = doc.objects.get(nid).ok_or(()) {
                    if let Ok(Object::Reference(knew)) = nd.get(b"Kids") {
                        map.insert(*kold, *knew);
                    }
                }
            }
        }
    }
    let reach = reachable(&old);
    // (2) trailer and every reachable object equal the originals with references renamed
    let t_exp = rename(&Object::Dictionary(old.trailer.clone()), &map);
    canon::obj_eq(&t_exp, &Object::Dictionary(doc.trailer.clone()), Opts::STRICT, "trailer").map_err(|e| viol!("reference-renamed-inconsistently", "{}", e))?;
    let mut tolerated: Option<u64> = if tolerate_captured { Some(0) } else { None };
    for oid in &reach {
        let Some(nid) = map.get(oid) else {
            return Err(viol!("reachable-object-altered", "reachable object {:?} cannot be found after renumbering", oid));
        };
        let exp = rename(&old.objects[oid], &map);
        let act = doc.objects.get(nid).ok_or_else(|| viol!("reachable-object-altered", "object {:?} -> {:?} missing", oid, nid))?;
        if tolerate_captured {
            same_under_renaming(&old.objects[oid], act, &map, &old, &mut tolerated, &format!("obj {:?} (was {:?})", nid, oid)).map_err(|e| viol!("reference-renamed-inconsistently", "renumbering from {}: {}", start, e))?;
        } else {
            canon::obj_eq(&exp, act, Opts::STRICT, &format!("obj {:?} (was {:?})", nid, oid)).map_err(|e| viol!("reference-renamed-inconsistently", "renumbering from {}: {}", start, e))?;
        }
    }
    if tolerated.unwrap_or(0) > 0 {
        rep.exclude("known:C10-dangling-captured");
    }
    // (5) references that dangled still dangle
    for oid in &reach {
        let mut rs = vec![];
        refs_of(&old.objects[oid], &mut rs);
        for r in rs {
            if !old.objects.contains_key(&r) && doc.objects.contains_key(&r) {
                if tolerate_captured {
                    rep.exclude("known:C10-dangling-captured");
                    continue;
                }
                return Err(viol!(
                    "dangling-now-resolves",
                    "reference {:?} in object {:?} pointed at nothing before renumbering (from {}) and now resolves to {:?}",
                    r, oid, start, AObj::from_object(&doc.objects[&r])
                ));
            }
        }
    }
    // (3) page order
    let new_pages: Vec<ObjectId> = doc.page_iter().collect();
    let exp_pages: Vec<ObjectId> = old_pages.iter().map(|p| *map.get(p).unwrap_or(p)).collect();
    if new_pages != exp_pages {
        return Err(viol!("page-order-changed", "page order after renumbering {:?}, expected {:?}", new_pages, exp_pages));
    }
    // (4) bookmark targets
    for (bid, old_page) in bm_ids.iter().zip(bm_pages.iter()) {
        let newp = doc.bookmark_table.get(bid).map(|b| b.page);
        let exp = map.get(old_page).copied();
        if newp != exp {
            return Err(viol!("bookmark-target-wrong", "bookmark {} pointed at page {:?}; after renumbering from {} it points at {:?}, the page is now {:?}", bid, old_page, start, newp, exp));
        }
    }
    // (6) a second renumbering from the same start after identifiers were reserved (new_object_id): the numbers are
    // already consecutive, nothing moves, and the maximum id must again equal the last one
    {
        let settled = doc.clone();
        let reserve = 1 + case.start_raw % 3;
        for _ in 0..reserve {
            doc.new_object_id();
        }
        no_panic("renumber_objects_with (second time)", || doc.renumber_objects_with(start))?;
        if doc.objects != settled.objects {
            return Err(viol!("reachable-object-altered", "renumbering from {} a second time (numbers already consecutive) changed the objects", start));
        }
        if n > 0 && doc.max_id != start + n - 1 {
            return Err(viol!("max-id-wrong", "max_id is {} after reserving {} identifiers and renumbering {} consecutive objects from {} again (expected {})", doc.max_id, reserve, n, start, start + n - 1));
        }
        doc = settled;
    }
    let sorted = pages.windows(2).all(|w| w[0] < w[1]);
    rep.label_if(!sorted, "page-ids-out-of-page-order");
    rep.label_if(start != 1, "start!=1");
    rep.label_if(start > old_min && start <= old_max, "start-inside-old-range");
    rep.label_if(shared_or_cyclic, "shared-or-cyclic-reference");
    rep.label_if(has_dangling, "dangling-reference");
    rep.label_if(old.objects.keys().any(|k| k.1 != 0), "nonzero-generation");
    rep.label_if(reach.len() < old.objects.len(), "unreachable-objects");
    rep.label_if(!bm_ids.is_empty(), "bookmarks");
    rep.nontrivial = (!sorted || start != 1 || old_max as usize > old.objects.len()) && shared_or_cyclic;
    Ok(rep)
}

pub fn strategy(dangling_in_range: bool) -> BoxedStrategy<Case> {
    let extra = (vec((any::<u16>(), prop::bool::weighted(0.2)), 0..5), any::<bool>(), prop::bool::weighted(0.2), any::<u8>())
        .prop_map(|(refs, as_array, is_stream, anchor)| Extra { refs, as_array, is_stream, anchor });
    let dang = if dangling_in_range { vec(prop_oneof![4 => 0u32..400, 2 => 0u32..3_000_000, 1 => 3_000_000u32..4_000_000], 0..4).boxed() } else { vec(3_000_000u32..4_000_000, 0..4).boxed() };
    (
        c12::tree_strategy(6),
        vec(extra, 0..8),
        prop_oneof![2 => Just(vec![]), 2 => vec(prop_oneof![3 => Just(0u16), 1 => 1u16..4], 1..6)],
        vec((any::<u16>(), proptest::option::of(any::<u16>())), 0..6),
        any::<u8>(),
        any::<u32>(),
        dang,
    )
        .prop_map(|(tree, extras, gens, bookmarks, start_kind, start_raw, dangling)| Case { tree, extras, gens, bookmarks, start_kind, start_raw, dangling })
        .boxed()
}

/// known-finding key C10-dangling-captured: the only failure is a dangling reference that now resolves
pub fn classify(_case: &Case, v: &Violation) -> Option<&'static str> {
    if v.kind == "dangling-now-resolves" {
        Some("C10-dangling-captured")
    } else {
        None
    }
}

pub fn run(run: &mut Run) {
    run.rule = "cases: documents made of a page tree (C12 generator: nested nodes, Kids behind references, object numbers a pseudo-random injection so that page ids are out of page order and sparse), non-zero generations, 0..7 extra objects (dictionaries, arrays, streams) holding shared, cyclic and dangling references, anchored in the trailer, in the catalog or nowhere (unreachable), 0..5 bookmarks on pages (nested), x start in {renumber_objects(), 1, 2, inside the old range, old max + 1, 10^6}. Every object carries a unique marker, so the renaming is recovered independently of traverse_objects. Oracle: numbers are start..start+n-1 and max_id = start+n-1; the trailer and every object reachable from it (own reachability analysis) equal the originals with references renamed by that one bijection; page_iter order unchanged; bookmark targets follow their pages; references that resolved to nothing still resolve to nothing. non-trivial = (pages out of id order or start != 1 or sparse numbers) and a shared or cyclic reference; distinct by case hash.".into();
    run.assumptions = vec!["unreachable objects are renumbered but their content is not claimed".into(), "generations are not claimed to be preserved or reset".into()];
    run.replay_known_demos(replay);
    let dangling_on = !run.finding_open("C10-dangling-captured");
    let n = run.tier.pick(20_000, 600_000);
    run.campaign("renumber", move || strategy(dangling_on), n, check, classify);
    if !dangling_on {
        let n2 = run.tier.pick(6_000, 100_000);
        run.campaign("focused-dangling-references", || strategy(true), n2, |c| check_with(c, true), classify);
    }
}

pub fn replay(file: &Value) -> Result<Verdict, String> {
    Ok(check(&replay_case::<Case>(file)?))
}
