//! shared generators / helpers for C05 and C06 (standard security handler)

use crate::model::{ADict, AObj, B};
use crate::refimpl::saslprep_table::SASLPREP;
use crate::refimpl::sec::sec::Cipher;
use lopdf::encryption::crypt_filters::{Aes128CryptFilter, Aes256CryptFilter, CryptFilter, IdentityCryptFilter, Rc4CryptFilter};
use lopdf::{Document, EncryptionState, EncryptionVersion, Permissions};
use proptest::collection::vec;
use proptest::prelude::*;
use serde::{Deserialize, Serialize};
use std::collections::BTreeMap;
use std::sync::Arc;

#[derive(Clone, Copy, Debug, Serialize, Deserialize, PartialEq)]
pub enum Cf {
    Rc4,
    Aes128,
    Aes256,
    /// a /CF entry whose method is "no encryption" (CFM None)
    NoneCf,
}

#[derive(Clone, Debug, Serialize, Deserialize)]
pub struct Config {
    /// 1 = V1/R2, 2 = V2/R3, 4 = V4/R4, 5 = V5/R5 (Adobe extension), 6 = V5/R6
    pub version: u8,
    /// V2 only: 40..=128, multiple of 8
    pub key_bits: u16,
    /// named crypt filters (V >= 4): "StdCF" and "Alt"
    pub cf_std: Cf,
    pub cf_alt: Cf,
    /// 0 = StdCF, 1 = Alt, 2 = the predefined Identity (no /CF entry)
    pub stm_f: u8,
    pub str_f: u8,
    pub encrypt_metadata: bool,
    /// permission flag selector (8 flags)
    pub perms: u8,
    pub user_pw: String,
    pub owner_pw: String,
    pub file_key: B,
    pub id0: B,
}

impl Config {
    pub fn revision(&self) -> u8 {
        match self.version {
            1 => 2,
            2 => 3,
            4 => 4,
            5 => 5,
            _ => 6,
        }
    }
    pub fn key_len_bytes(&self) -> usize {
        match self.version {
            1 => 5,
            2 => (self.key_bits as usize) / 8,
            4 => 16,
            _ => 32,
        }
    }
    pub fn filter_name(sel: u8) -> &'static [u8] {
        match sel % 3 {
            0 => b"StdCF",
            1 => b"Alt",
            _ => b"Identity",
        }
    }
    fn cf_of(&self, sel: u8) -> Option<Cf> {
        match sel % 3 {
            0 => Some(self.cf_std),
            1 => Some(self.cf_alt),
            _ => None,
        }
    }
    /// cipher the standard prescribes for a filter selector
    pub fn cipher_of(&self, sel: u8) -> Cipher {
        if self.version < 4 {
            return Cipher::Rc4;
        }
        match self.cf_of(sel) {
            None | Some(Cf::NoneCf) => Cipher::Identity,
            Some(Cf::Rc4) => Cipher::Rc4,
            Some(Cf::Aes128) => Cipher::AesV2,
            Some(Cf::Aes256) => Cipher::AesV3,
        }
    }
    pub fn cipher_by_name(&self, name: &[u8]) -> Cipher {
        if self.version < 4 {
            return Cipher::Rc4;
        }
        match name {
            b"StdCF" => self.cipher_of(0),
            b"Alt" => self.cipher_of(1),
            _ => Cipher::Identity,
        }
    }
    pub fn permissions(&self) -> Permissions {
        let all = [
            Permissions::PRINTABLE,
            Permissions::MODIFIABLE,
            Permissions::COPYABLE,
            Permissions::ANNOTABLE,
            Permissions::FILLABLE,
            Permissions::COPYABLE_FOR_ACCESSIBILITY,
            Permissions::ASSEMBLABLE,
            Permissions::PRINTABLE_IN_HIGH_QUALITY,
        ];
        let mut p = Permissions::empty();
        for (i, f) in all.iter().enumerate() {
            if self.perms & (1 << i) != 0 {
                p |= *f;
            }
        }
        p
    }
    /// conforming P word (ISO 32000: reserved bits 7,8 and 13..32 set, 1,2 clear)
    pub fn p_word(&self) -> i32 {
        let bits = [2u32, 3, 4, 5, 8, 9, 10, 11];
        let mut v: u32 = 0xFFFF_F0C0;
        for (i, b) in bits.iter().enumerate() {
            if self.perms & (1 << i) != 0 {
                v |= 1 << b;
            }
        }
        v as i32
    }
    fn lopdf_filter(cf: Cf) -> Arc<dyn CryptFilter> {
        match cf {
            Cf::Rc4 => Arc::new(Rc4CryptFilter),
            Cf::Aes128 => Arc::new(Aes128CryptFilter),
            Cf::Aes256 => Arc::new(Aes256CryptFilter),
            Cf::NoneCf => Arc::new(IdentityCryptFilter),
        }
    }
    pub fn lopdf_state(&self, doc: &Document) -> lopdf::Result<EncryptionState> {
        let mut filters: BTreeMap<Vec<u8>, Arc<dyn CryptFilter>> = BTreeMap::new();
        filters.insert(b"StdCF".to_vec(), Self::lopdf_filter(self.cf_std));
        filters.insert(b"Alt".to_vec(), Self::lopdf_filter(self.cf_alt));
        let stm = Self::filter_name(self.stm_f).to_vec();
        let strf = Self::filter_name(self.str_f).to_vec();
        let version = match self.version {
            1 => EncryptionVersion::V1 { document: doc, owner_password: &self.owner_pw, user_password: &self.user_pw, permissions: self.permissions() },
            2 => EncryptionVersion::V2 { document: doc, owner_password: &self.owner_pw, user_password: &self.user_pw, key_length: self.key_bits as usize, permissions: self.permissions() },
            4 => EncryptionVersion::V4 {
                document: doc,
                encrypt_metadata: self.encrypt_metadata,
                crypt_filters: filters,
                stream_filter: stm,
                string_filter: strf,
                owner_password: &self.owner_pw,
                user_password: &self.user_pw,
                permissions: self.permissions(),
            },
            #[allow(deprecated)]
            5 => EncryptionVersion::R5 {
                encrypt_metadata: self.encrypt_metadata,
                crypt_filters: filters,
                file_encryption_key: &self.file_key.0,
                stream_filter: stm,
                string_filter: strf,
                owner_password: &self.owner_pw,
                user_password: &self.user_pw,
                permissions: self.permissions(),
            },
            _ => EncryptionVersion::V5 {
                encrypt_metadata: self.encrypt_metadata,
                crypt_filters: filters,
                file_encryption_key: &self.file_key.0,
                stream_filter: stm,
                string_filter: strf,
                owner_password: &self.owner_pw,
                user_password: &self.user_pw,
                permissions: self.permissions(),
            },
        };
        EncryptionState::try_from(version)
    }
    /// password bytes as the standard prepares them: PDFDocEncoding (R <= 4; the alphabet is restricted to
    /// characters whose PDFDoc code equals their code point), SASLprep + UTF-8 (R >= 5; per-character table)
    pub fn prepared(&self, pw: &str) -> Vec<u8> {
        if self.revision() <= 4 {
            pw.chars().map(|c| c as u32 as u8).collect()
        } else {
            let mut out = String::new();
            for c in pw.chars() {
                match SASLPREP.iter().find(|(k, _)| *k == c) {
                    Some((_, r)) => out.push_str(r),
                    None => out.push(c),
                }
            }
            out.into_bytes()
        }
    }
    /// the bytes that decide whether two passwords are "the same" for this revision
    pub fn effective(&self, pw: &str) -> Vec<u8> {
        let p = self.prepared(pw);
        let n = if self.revision() <= 4 { 32 } else { 127 };
        p[..p.len().min(n)].to_vec()
    }
}

/// passwords: R <= 4 over printable ASCII + Latin-1 0xA1-0xFF (PDFDoc code = code point); R >= 5 over the SASLprep table
pub fn password_strategy(rev_ge5: bool) -> BoxedStrategy<String> {
    let ch: BoxedStrategy<char> = if rev_ge5 {
        (0usize..SASLPREP.len()).prop_map(|i| SASLPREP[i].0).boxed()
    } else {
        prop_oneof![4 => (0x20u32..0x7f), 1 => (0xa1u32..0x100).prop_filter("soft hyphen", |c| *c != 0xad)].prop_map(|c| char::from_u32(c).unwrap()).boxed()
    };
    prop_oneof![
        2 => Just(String::new()),
        5 => vec(ch.clone(), 1..12).prop_map(|v| v.into_iter().collect()),
        1 => vec(ch.clone(), 30..40).prop_map(|v| v.into_iter().collect()),
        1 => vec(ch, 125..140).prop_map(|v| v.into_iter().collect()),
    ]
    .boxed()
}

pub fn config_strategy() -> BoxedStrategy<Config> {
    let version = prop_oneof![2 => Just(1u8), 3 => Just(2u8), 5 => Just(4u8), 2 => Just(5u8), 4 => Just(6u8)];
    version
        .prop_flat_map(|version| {
            let ge5 = version >= 5;
            let cf = if ge5 { prop_oneof![5 => Just(Cf::Aes256), 1 => Just(Cf::NoneCf)].boxed() } else { prop_oneof![3 => Just(Cf::Rc4), 3 => Just(Cf::Aes128), 1 => Just(Cf::NoneCf)].boxed() };
            (
                Just(version),
                (5u16..=16).prop_map(|b| b * 8),
                cf.clone(),
                cf,
                prop_oneof![5 => Just(0u8), 2 => Just(1u8), 1 => Just(2u8)],
                prop_oneof![5 => Just(0u8), 2 => Just(1u8), 1 => Just(2u8)],
                any::<bool>(),
                any::<u8>(),
                password_strategy(ge5),
                prop_oneof![3 => password_strategy(ge5).prop_map(Some), 1 => Just(None)],
                vec(any::<u8>(), 32),
                prop_oneof![4 => vec(any::<u8>(), 16), 1 => vec(any::<u8>(), 0..40)],
            )
        })
        .prop_map(|(version, key_bits, cf_std, cf_alt, stm_f, str_f, encrypt_metadata, perms, user_pw, owner, file_key, id0)| Config {
            version,
            key_bits,
            cf_std,
            cf_alt,
            stm_f,
            str_f,
            encrypt_metadata: if version >= 4 { encrypt_metadata } else { true },
            perms,
            owner_pw: owner.unwrap_or_else(|| user_pw.clone()),
            user_pw,
            file_key: B(file_key),
            id0: B(id0),
        })
        .boxed()
}

// ---------------------------------------------------------------- documents

#[derive(Clone, Debug, Serialize, Deserialize)]
pub struct CDoc {
    pub objects: Vec<(u32, u16, AObj)>,
}

fn bytes_strategy() -> BoxedStrategy<Vec<u8>> {
    prop_oneof![2 => Just(vec![]), 4 => vec(any::<u8>(), 1..16), 4 => vec(any::<u8>(), 16..64), 1 => vec(any::<u8>(), 64..400)].boxed()
}

fn value_strategy() -> BoxedStrategy<AObj> {
    let leaf = prop_oneof![
        5 => (bytes_strategy(), any::<bool>()).prop_map(|(b, h)| AObj::Str(B(b), h)),
        2 => (-5i64..100).prop_map(AObj::Int),
        1 => Just(AObj::name("Name")),
        1 => Just(AObj::Null),
    ];
    leaf.prop_recursive(3, 16, 3, |inner| {
        prop_oneof![
            vec(inner.clone(), 0..4).prop_map(AObj::Array),
            vec(("[A-D]", inner), 0..4).prop_map(|e| {
                let mut d: ADict = vec![];
                for (k, v) in e {
                    if !d.iter().any(|(k2, _)| k2.0 == k.as_bytes()) {
                        d.push((B::from(k.as_str()), v));
                    }
                }
                AObj::Dict(d)
            }),
        ]
    })
    .boxed()
}

#[derive(Clone, Debug)]
enum StreamKind {
    Plain,
    Metadata,
    CryptNamed(u8),
    CryptNoName,
    CryptInArray(u8),
}

pub fn doc_strategy() -> BoxedStrategy<CDoc> {
    let kind = prop_oneof![
        6 => Just(StreamKind::Plain),
        2 => Just(StreamKind::Metadata),
        2 => (0u8..3).prop_map(StreamKind::CryptNamed),
        1 => Just(StreamKind::CryptNoName),
        1 => (0u8..3).prop_map(StreamKind::CryptInArray),
    ];
    let stream = (kind, bytes_strategy(), proptest::option::of(bytes_strategy()), proptest::option::of(value_strategy())).prop_map(|(kind, content, dict_string, extra)| {
        let mut d: ADict = vec![];
        match kind {
            StreamKind::Plain => {}
            StreamKind::Metadata => {
                d.push((B::from("Type"), AObj::name("Metadata")));
                d.push((B::from("Subtype"), AObj::name("XML")));
            }
            StreamKind::CryptNamed(n) => {
                d.push((B::from("Filter"), AObj::name("Crypt")));
                d.push((B::from("DecodeParms"), AObj::dict(vec![("Type", AObj::name("CryptFilterDecodeParms")), ("Name", AObj::Name(B(Config::filter_name(n).to_vec())))])));
            }
            StreamKind::CryptNoName => {
                d.push((B::from("Filter"), AObj::name("Crypt")));
                d.push((B::from("DecodeParms"), AObj::dict(vec![("Type", AObj::name("CryptFilterDecodeParms"))])));
            }
            StreamKind::CryptInArray(n) => {
                d.push((B::from("Filter"), AObj::Array(vec![AObj::name("Crypt")])));
                d.push((B::from("DecodeParms"), AObj::dict(vec![("Name", AObj::Name(B(Config::filter_name(n).to_vec())))])));
            }
        }
        if let Some(s) = dict_string {
            d.push((B::from("DictString"), AObj::Str(B(s), false)));
        }
        if let Some(e) = extra {
            d.push((B::from("Extra"), e));
        }
        AObj::Stream(d, B(content))
    });
    let obj = prop_oneof![3 => value_strategy(), 2 => stream];
    (vec((prop_oneof![6 => Just(1u32), 1 => 2u32..40], prop_oneof![5 => Just(0u16), 1 => 1u16..5], obj), 1..8))
        .prop_map(|v| {
            let mut num = 0;
            let mut objects = vec![];
            for (gap, g, o) in v {
                num += gap;
                objects.push((num, g, o));
            }
            CDoc { objects }
        })
        .boxed()
}

impl CDoc {
    pub fn to_document(&self, id0: &[u8], xref_stream: bool) -> Document {
        let mut doc = Document::with_version("1.7");
        for (n, g, o) in &self.objects {
            doc.objects.insert((*n, *g), o.to_object());
        }
        doc.max_id = self.objects.iter().map(|o| o.0).max().unwrap_or(0);
        doc.trailer.set("ID", lopdf::Object::Array(vec![lopdf::Object::String(id0.to_vec(), lopdf::StringFormat::Hexadecimal), lopdf::Object::String(id0.to_vec(), lopdf::StringFormat::Hexadecimal)]));
        doc.reference_table.cross_reference_type = if xref_stream { lopdf::xref::XrefType::CrossReferenceStream } else { lopdf::xref::XrefType::CrossReferenceTable };
        doc
    }
}

/// which cipher the standard prescribes for a stream's content (ISO 32000-1 7.6.5, 7.4.10)
pub fn stream_cipher(cfg: &Config, dict: &ADict) -> Cipher {
    let get = |k: &str| dict.iter().find(|(k2, _)| k2.0 == k.as_bytes()).map(|(_, v)| v);
    if cfg.version >= 4 && !cfg.encrypt_metadata && get("Type") == Some(&AObj::name("Metadata")) {
        return Cipher::Identity;
    }
    let has_crypt = match get("Filter") {
        Some(AObj::Name(n)) => n.0 == b"Crypt",
        Some(AObj::Array(a)) => a.iter().any(|x| *x == AObj::name("Crypt")),
        _ => false,
    };
    if has_crypt && cfg.version >= 4 {
        let name = match get("DecodeParms") {
            Some(AObj::Dict(p)) => p.iter().find(|(k, _)| k.0 == b"Name").and_then(|(_, v)| if let AObj::Name(n) = v { Some(n.0.clone()) } else { None }),
            _ => None,
        };
        return match name {
            Some(n) => cfg.cipher_by_name(&n),
            None => Cipher::Identity,
        };
    }
    cfg.cipher_of(cfg.stm_f)
}
