//! C16 — text strings and one-byte encodings round-trip text (DESIGN.md §7 C16).

use super::common::*;
use crate::engine::{no_panic, replay_case, CaseReport, Run, Verdict};
use crate::refimpl::tables;
use crate::viol;
use lopdf::content::{Content, Operation};
use lopdf::{dictionary, Document, Object, Stream, StringFormat};
use proptest::collection::vec;
use proptest::prelude::*;
use serde::{Deserialize, Serialize};
use serde_json::Value;

// ---------- (1) text strings ----------

fn check_string(s: &str) -> Result<(), crate::engine::Violation> {
    let obj = no_panic("text_string", || lopdf::text_string(s))?;
    let Object::String(bytes, _) = &obj else { return Err(viol!("text-string-roundtrip", "text_string did not return a string object")) };
    let back = no_panic("decode_text_string", || lopdf::decode_text_string(&obj))?
        .map_err(|e| viol!("text-string-roundtrip", "decode_text_string(text_string({:?})) fails: {:?}; bytes {:?}", s, e, crate::model::B(bytes.clone())))?;
    if back != s {
        return Err(viol!("text-string-roundtrip", "decode_text_string(text_string({:?})) = {:?}; bytes {:?}", s, back, crate::model::B(bytes.clone())));
    }
    // encoding choice, where the standard makes it possible (DESIGN.md §7 C16)
    let has_bom = bytes.starts_with(&[0xFE, 0xFF]);
    let printable_ascii = s.chars().all(|c| (' '..='~').contains(&c));
    if printable_ascii && has_bom && !s.is_empty() {
        return Err(viol!("text-string-encoding-choice", "printable ASCII {:?} was not kept as a PDFDocEncoding literal: {:?}", s, crate::model::B(bytes.clone())));
    }
    if !has_bom && !s.is_ascii() {
        return Err(viol!("text-string-encoding-choice", "non-ASCII {:?} encoded without the UTF-16BE byte order mark: {:?}", s, crate::model::B(bytes.clone())));
    }
    if !s.is_ascii() && !has_bom {
        return Err(viol!("text-string-encoding-choice", "non-ASCII text without BOM"));
    }
    // explicit encoders
    let u16s = Object::String(lopdf::encode_utf16_be(s), StringFormat::Hexadecimal);
    let b16 = no_panic("decode_text_string", || lopdf::decode_text_string(&u16s))?.map_err(|e| viol!("text-string-roundtrip", "decode of encode_utf16_be({:?}) fails: {:?}", s, e))?;
    if b16 != s {
        return Err(viol!("text-string-roundtrip", "decode(encode_utf16_be({:?})) = {:?}", s, b16));
    }
    let u8s = Object::String(lopdf::encode_utf8(s), StringFormat::Literal);
    let b8 = no_panic("decode_text_string", || lopdf::decode_text_string(&u8s))?.map_err(|e| viol!("utf8-roundtrip", "decode of encode_utf8({:?}) fails: {:?}", s, e))?;
    if b8 != s {
        return Err(viol!("utf8-roundtrip", "decode(encode_utf8({:?})) = {:?} (the byte order mark is a signature, not content)", s, b8));
    }
    Ok(())
}

#[derive(Clone, Debug, Serialize, Deserialize)]
pub struct ScalarBlock {
    pub start: u32,
    pub end: u32,
}

pub fn check_scalar_block(b: &ScalarBlock) -> Verdict {
    let mut rep = CaseReport::new();
    for cp in b.start..b.end {
        if let Some(c) = char::from_u32(cp) {
            check_string(&c.to_string())?;
            check_string(&format!("a{}b", c))?;
        }
    }
    rep.nontrivial = true;
    rep.label_if(b.start >= 0x10000, "astral");
    rep.label_if(b.start < 0x80, "ascii-incl-C0-controls");
    Ok(rep)
}

#[derive(Clone, Debug, Serialize, Deserialize)]
pub struct StrCase {
    pub s: String,
}

pub fn check_random_string(c: &StrCase) -> Verdict {
    let mut rep = CaseReport::new();
    check_string(&c.s)?;
    rep.label_if(c.s.chars().any(|c| c as u32 >= 0x10000), "astral");
    rep.label_if(c.s.chars().any(|c| (c as u32) < 0x20), "C0-control");
    rep.label_if(c.s.is_ascii(), "ascii");
    rep.nontrivial = c.s.chars().count() >= 2;
    Ok(rep)
}

#[derive(Clone, Debug, Serialize, Deserialize)]
pub struct RawCase {
    pub bytes: crate::model::B,
}

/// malformed text strings: must return (Ok or Err), never panic
pub fn check_malformed(c: &RawCase) -> Verdict {
    let mut rep = CaseReport::new();
    for fmt in [StringFormat::Literal, StringFormat::Hexadecimal] {
        let o = Object::String(c.bytes.0.clone(), fmt);
        let _ = no_panic("decode_text_string", || lopdf::decode_text_string(&o))?;
    }
    let _ = no_panic("decode_text_string", || lopdf::decode_text_string(&Object::Null))?;
    rep.label_if(c.bytes.0.len() % 2 == 1, "odd-length");
    rep.label_if(c.bytes.0.starts_with(&[0xfe, 0xff]), "utf16-bom");
    rep.nontrivial = c.bytes.0.len() >= 2;
    Ok(rep)
}

// ---------- (2) one-byte encodings ----------

pub const ENCODINGS: &[&str] = &["StandardEncoding", "MacRomanEncoding", "MacExpertEncoding", "WinAnsiEncoding", "PDFDocEncoding"];

#[derive(Clone, Debug, Serialize, Deserialize)]
pub struct CellCase {
    pub encoding: u8,
    pub byte: u8,
}

fn font_doc(enc_name: &str) -> (Document, lopdf::ObjectId) {
    let mut doc = Document::with_version("1.5");
    let fid = doc.add_object(dictionary! { "Type" => "Font", "Subtype" => "Type1", "BaseFont" => "Courier", "Encoding" => enc_name });
    (doc, fid)
}

pub fn check_cell(c: &CellCase) -> Verdict {
    let mut rep = CaseReport::new();
    let name = ENCODINGS[c.encoding as usize % ENCODINGS.len()];
    let (doc, fid) = font_doc(name);
    let font = doc.get_dictionary(fid).unwrap();
    let enc = no_panic("get_font_encoding", || font.get_font_encoding(&doc))?.map_err(|e| viol!("encoding-unavailable", "get_font_encoding({}) fails: {:?}", name, e))?;
    let b = c.byte;
    let d1 = no_panic("decode_text", || Document::decode_text(&enc, &[b]))?.map_err(|e| viol!("table-decode-fails", "{}: decoding byte {:#04x} fails: {:?}", name, b, e))?;
    let e1 = no_panic("encode_text", || Document::encode_text(&enc, &d1))?;
    let d2 = no_panic("decode_text", || Document::decode_text(&enc, &e1))?.map_err(|e| viol!("table-decode-fails", "{}: decoding re-encoded bytes fails: {:?}", name, e))?;
    if d2 != d1 {
        return Err(viol!("reencode-unstable", "{}: byte {:#04x} decodes to {:?}, re-encodes to {:?}, which decodes to {:?}", name, b, d1, crate::model::B(e1), d2));
    }
    let reference: Option<&[Option<u16>; 256]> = match name {
        "WinAnsiEncoding" => Some(&tables::WIN_ANSI_REF),
        "MacRomanEncoding" => Some(&tables::MAC_ROMAN_REF),
        "PDFDocEncoding" => Some(&tables::PDF_DOC_REF),
        _ => None,
    };
    if let Some(t) = reference {
        if let Some(u) = t[b as usize] {
            let exp = String::from_utf16(&[u]).unwrap();
            if d1 != exp {
                return Err(viol!("table-cell-differs", "{}: byte {:#04x} decodes to {:?}, the published table says {:?}", name, b, d1, exp));
            }
            // encode direction: the character must encode to a byte that decodes to it (several bytes may share a glyph)
            let enc_bytes = Document::encode_text(&enc, &exp);
            let back = Document::decode_text(&enc, &enc_bytes).unwrap_or_default();
            if enc_bytes.len() != 1 || back != exp {
                return Err(viol!("table-cell-differs", "{}: character {:?} (byte {:#04x} in the published table) encodes to {:?}", name, exp, b, crate::model::B(enc_bytes)));
            }
            rep.label("reference-cell");
        }
    }
    rep.label(match name {
        "StandardEncoding" => "standard",
        "MacRomanEncoding" => "macroman",
        "MacExpertEncoding" => "macexpert",
        "WinAnsiEncoding" => "winansi",
        _ => "pdfdoc",
    });
    rep.nontrivial = true;
    Ok(rep)
}

// ---------- (3) extraction ----------

#[derive(Clone, Debug, Serialize, Deserialize)]
pub struct ExtractCase {
    pub encoding: u8,
    /// bytes of the encoding that select the characters of the text
    pub picks: Vec<u8>,
    pub xref_stream: bool,
    pub split_tj: bool,
    /// 0: one text object with Tf inside; 1: Tf before BT (the font is graphics state, ISO 32000-1 9.3.1);
    /// 2: two text objects, Tf only in the first (it persists across ET/BT)
    #[serde(default)]
    pub layout: u8,
}

/// characters of an encoding that survive encode -> decode
fn repertoire(enc: &lopdf::Encoding) -> Vec<char> {
    let mut out = vec![];
    for b in 0x20u8..=0xff {
        if let Ok(s) = Document::decode_text(enc, &[b]) {
            let mut it = s.chars();
            if let (Some(c), None) = (it.next(), it.next()) {
                if !c.is_control() && Document::decode_text(enc, &Document::encode_text(enc, &s)).ok().as_deref() == Some(&s[..]) && !out.contains(&c) {
                    out.push(c);
                }
            }
        }
    }
    out
}

pub fn check_extract(c: &ExtractCase) -> Verdict {
    let mut rep = CaseReport::new();
    let name = ENCODINGS[c.encoding as usize % ENCODINGS.len()];
    let mut doc = Document::with_version("1.5");
    let pages_id = doc.new_object_id();
    let font_id = doc.add_object(dictionary! { "Type" => "Font", "Subtype" => "Type1", "BaseFont" => "Courier", "Encoding" => name });
    let resources_id = doc.add_object(dictionary! { "Font" => dictionary! { "F1" => font_id } });
    let enc = doc.get_dictionary(font_id).unwrap().get_font_encoding(&doc).map_err(|e| viol!("encoding-unavailable", "{:?}", e))?;
    let rep_chars = repertoire(&enc);
    if rep_chars.is_empty() {
        return Ok(rep);
    }
    let text: String = c.picks.iter().map(|p| rep_chars[(*p as usize * rep_chars.len()) >> 8]).collect();
    let bytes = Document::encode_text(&enc, &text);
    drop(enc);
    let tf = Operation::new("Tf", vec!["F1".into(), 12.into()]);
    let mut ops = match c.layout % 3 {
        1 => vec![tf, Operation::new("BT", vec![]), Operation::new("Td", vec![100.into(), 600.into()])],
        _ => vec![Operation::new("BT", vec![]), tf, Operation::new("Td", vec![100.into(), 600.into()])],
    };
    let mut expected = format!("{}\n", text);
    if c.layout % 3 == 2 && text.chars().count() >= 2 {
        // two text objects: the second relies on the font selected in the first
        let cut = text.char_indices().nth(text.chars().count() / 2).map(|(i, _)| i).unwrap_or(0);
        let (ta, tb) = text.split_at(cut);
        ops.push(Operation::new("Tj", vec![Object::string_literal(Document::encode_text(&doc.get_dictionary(font_id).unwrap().get_font_encoding(&doc).unwrap(), ta))]));
        ops.push(Operation::new("ET", vec![]));
        ops.push(Operation::new("BT", vec![]));
        ops.push(Operation::new("Td", vec![100.into(), 500.into()]));
        ops.push(Operation::new("Tj", vec![Object::string_literal(Document::encode_text(&doc.get_dictionary(font_id).unwrap().get_font_encoding(&doc).unwrap(), tb))]));
        expected = format!("{}\n{}\n", ta, tb);
    } else if c.split_tj && bytes.len() >= 2 {
        let (a, b) = bytes.split_at(bytes.len() / 2);
        ops.push(Operation::new("Tj", vec![Object::string_literal(a.to_vec())]));
        ops.push(Operation::new("Tj", vec![Object::String(b.to_vec(), StringFormat::Hexadecimal)]));
    } else {
        ops.push(Operation::new("Tj", vec![Object::string_literal(bytes.clone())]));
    }
    ops.push(Operation::new("ET", vec![]));
    let content = Content { operations: ops };
    let content_id = doc.add_object(Stream::new(dictionary! {}, content.encode().map_err(|e| viol!("encode-error", "{}", e))?));
    let page_id = doc.add_object(dictionary! { "Type" => "Page", "Parent" => pages_id, "Contents" => content_id });
    doc.objects.insert(pages_id, Object::Dictionary(dictionary! { "Type" => "Pages", "Kids" => vec![page_id.into()], "Count" => 1, "Resources" => resources_id }));
    let catalog_id = doc.add_object(dictionary! { "Type" => "Catalog", "Pages" => pages_id });
    doc.trailer.set("Root", catalog_id);
    if c.xref_stream {
        doc.reference_table.cross_reference_type = lopdf::xref::XrefType::CrossReferenceStream;
    } else {
        doc.reference_table.cross_reference_type = lopdf::xref::XrefType::CrossReferenceTable;
    }
    let got = no_panic("extract_text", || doc.extract_text(&[1]))?.map_err(|e| viol!("extraction-differs", "extract_text fails: {:?}", e))?;
    if got != expected {
        return Err(viol!("extraction-differs", "{}: page shows {:?} (bytes {:?}) but extract_text returns {:?}", name, text, crate::model::B(bytes), got));
    }
    let saved = save(&mut doc)?;
    let loaded = load(&saved)?;
    let got2 = no_panic("extract_text", || loaded.extract_text(&[1]))?.map_err(|e| viol!("extraction-differs", "extract_text after reload fails: {:?}", e))?;
    if got2 != expected {
        return Err(viol!("extraction-differs", "{}: after save + load extract_text returns {:?}, expected {:?}", name, got2, expected));
    }
    rep.label_if(!text.is_ascii(), "non-ascii");
    rep.label_if(c.split_tj, "two-Tj");
    rep.label_if(c.layout % 3 == 1, "Tf-before-BT");
    rep.label_if(c.layout % 3 == 2, "two-text-objects-one-Tf");
    rep.nontrivial = text.chars().count() >= 4 && !text.is_ascii();
    Ok(rep)
}

pub fn run(run: &mut Run) {
    run.rule = "(1) text strings: EVERY Unicode scalar value alone and embedded in \"a\u{2026}b\" (1 112 064 scalars, exhaustive) and random strings (astral characters, C0 controls, mixed): decode_text_string(text_string(s)) = s, printable ASCII stays a BOM-less literal, non-ASCII carries the UTF-16BE BOM, encode_utf16_be / encode_utf8 output decodes to s; malformed inputs (lone BOMs, odd lengths, lone surrogates, non-string objects) return without panicking. (2) all 5 predefined one-byte encodings reachable through get_font_encoding x all 256 bytes (1280 cells, exhaustive): decoding succeeds, decode(encode(decode(b))) = decode(b), and the printable-ASCII / Latin-1 cells of WinAnsi, MacRoman and PDFDoc equal the reference tables derived from Python's cp1252 / mac_roman / latin_1 codecs in both directions (cells where published sources disagree are not asserted). (3) extraction: a page showing encode_text(enc, t) with a font of that encoding, t drawn from the encoding's round-tripping repertoire, one or two Tj operators: extract_text = t + newline, also after save_to + load_mem with either xref format. non-trivial: strings of >= 2 chars / every cell / text >= 4 chars with a non-ASCII char.".into();
    run.assumptions = vec![
        "reading of the parenthetical 'ASCII stays PDFDocEncoding' as in DESIGN.md §7 C16: asserted for printable ASCII only; the round trip is asserted for every string".into(),
        "reference cells come from Python codecs (vendored); WinAnsi 0xA0/0xAD and MacRoman 0xCA/0xDB are not asserted".into(),
    ];
    run.replay_known_demos(replay);
    let mut blocks = vec![];
    let mut s = 0u32;
    while s < 0x110000 {
        blocks.push(ScalarBlock { start: s, end: (s + 0x400).min(0x110000) });
        s += 0x400;
    }
    run.enumerated("all-scalar-values", blocks, true, "every Unicode scalar value, alone and as a\u{2026}b, in blocks of 1024 code points", check_scalar_block);
    let n = run.tier.pick(40_000, 1_000_000);
    run.campaign(
        "random-strings",
        || {
            let ch = prop_oneof![4 => (0x20u32..0x7f), 2 => (0u32..0x20), 3 => (0x80u32..0x3000), 2 => (0x10000u32..0x10ffff), 1 => Just(0xfeffu32), 1 => Just(0xfffeu32), 1 => (0xe000u32..0xf000), 1 => Just(0x7fu32)]
                .prop_map(|c| char::from_u32(c).unwrap_or('?'));
            vec(ch, 0..24).prop_map(|v| StrCase { s: v.into_iter().collect() })
        },
        n,
        check_random_string,
        |_c, _v| None,
    );
    run.campaign(
        "malformed-text-strings",
        || {
            let unit = prop_oneof![3 => any::<u16>().prop_map(|v| v.to_be_bytes().to_vec()), 2 => (0xD800u16..0xE000).prop_map(|v| v.to_be_bytes().to_vec()), 1 => any::<u8>().prop_map(|v| vec![v])];
            (prop_oneof![3 => Just(vec![0xfeu8, 0xff]), 2 => Just(vec![0xef, 0xbb, 0xbf]), 1 => Just(vec![0xff, 0xfe]), 2 => Just(vec![]), 1 => Just(vec![0xfe])], vec(unit, 0..8)).prop_map(|(mut b, u)| {
                b.extend(u.concat());
                RawCase { bytes: crate::model::B(b) }
            })
        },
        run.tier.pick(20_000, 300_000),
        check_malformed,
        |_c, _v| None,
    );
    let mut cells = vec![];
    for e in 0..ENCODINGS.len() as u8 {
        for b in 0..=255u8 {
            cells.push(CellCase { encoding: e, byte: b });
        }
    }
    run.enumerated("encoding-cells", cells, true, "5 encodings x 256 bytes", check_cell);
    run.campaign(
        "extraction",
        || (0u8..5, vec(any::<u8>(), 1..20), any::<bool>(), any::<bool>(), 0u8..3).prop_map(|(encoding, picks, xref_stream, split_tj, layout)| ExtractCase { encoding, picks, xref_stream, split_tj, layout }),
        run.tier.pick(6_000, 200_000),
        check_extract,
        |_c, _v| None,
    );
    // a resource name means something inside one page's /Resources only: several pages in one call
    run.campaign(
        "extraction-several-pages",
        || (vec((0u8..5, vec(any::<u8>(), 1..12)), 2..4), any::<bool>()).prop_map(|(pages, reversed)| PagesCase { pages, reversed }),
        run.tier.pick(3_000, 100_000),
        check_extract_pages,
        |_c, _v| None,
    );
}

/// several pages, each with its OWN /Resources binding the same font name /F1 to a font of another encoding
#[derive(Clone, Debug, Serialize, Deserialize)]
pub struct PagesCase {
    /// per page: encoding index, character picks
    pub pages: Vec<(u8, Vec<u8>)>,
    /// order in which the page numbers are handed to extract_text (selector)
    pub reversed: bool,
}

pub fn check_extract_pages(c: &PagesCase) -> Verdict {
    let mut rep = CaseReport::new();
    let mut doc = Document::with_version("1.5");
    let pages_id = doc.new_object_id();
    let mut kids: Vec<Object> = vec![];
    let mut texts: Vec<String> = vec![];
    for (e, picks) in &c.pages {
        let name = ENCODINGS[*e as usize % ENCODINGS.len()];
        let font_id = doc.add_object(dictionary! { "Type" => "Font", "Subtype" => "Type1", "BaseFont" => "Courier", "Encoding" => name });
        let enc = doc.get_dictionary(font_id).unwrap().get_font_encoding(&doc).map_err(|e| viol!("encoding-unavailable", "{:?}", e))?;
        let rep_chars = repertoire(&enc);
        if rep_chars.is_empty() {
            return Ok(rep);
        }
        let text: String = picks.iter().map(|p| rep_chars[(*p as usize * rep_chars.len()) >> 8]).collect();
        let bytes = Document::encode_text(&enc, &text);
        drop(enc);
        let content = Content { operations: vec![Operation::new("BT", vec![]), Operation::new("Tf", vec!["F1".into(), 12.into()]), Operation::new("Tj", vec![Object::string_literal(bytes)]), Operation::new("ET", vec![])] };
        let content_id = doc.add_object(Stream::new(dictionary! {}, content.encode().map_err(|e| viol!("encode-error", "{}", e))?));
        let page_id = doc.add_object(dictionary! { "Type" => "Page", "Parent" => pages_id, "Contents" => content_id, "Resources" => dictionary! { "Font" => dictionary! { "F1" => font_id } } });
        kids.push(page_id.into());
        texts.push(text);
    }
    let n = kids.len();
    doc.objects.insert(pages_id, Object::Dictionary(dictionary! { "Type" => "Pages", "Kids" => kids, "Count" => n as i64 }));
    let catalog_id = doc.add_object(dictionary! { "Type" => "Catalog", "Pages" => pages_id });
    doc.trailer.set("Root", catalog_id);
    let mut order: Vec<u32> = (1..=n as u32).collect();
    if c.reversed {
        order.reverse();
    }
    let expected: String = order.iter().map(|p| format!("{}\n", texts[*p as usize - 1])).collect();
    let got = no_panic("extract_text", || doc.extract_text(&order))?.map_err(|e| viol!("extraction-differs", "extract_text fails: {:?}", e))?;
    if got != expected {
        return Err(viol!("extraction-differs", "pages {:?} (encodings {:?}, each page binds /F1 itself): extract_text returns {:?}, the pages show {:?}", order, c.pages.iter().map(|(e, _)| ENCODINGS[*e as usize % ENCODINGS.len()]).collect::<Vec<_>>(), got, expected));
    }
    let distinct = c.pages.iter().map(|(e, _)| e % ENCODINGS.len() as u8).collect::<std::collections::BTreeSet<_>>().len();
    rep.label_if(distinct >= 2, "same-font-name-different-encodings");
    rep.nontrivial = distinct >= 2 && texts.iter().any(|t| !t.is_ascii());
    Ok(rep)
}

pub fn replay(file: &Value) -> Result<Verdict, String> {
    match file.get("campaign").and_then(|c| c.as_str()).unwrap_or("random-strings") {
        "all-scalar-values" => Ok(check_scalar_block(&replay_case::<ScalarBlock>(file)?)),
        "malformed-text-strings" => Ok(check_malformed(&replay_case::<RawCase>(file)?)),
        "encoding-cells" => Ok(check_cell(&replay_case::<CellCase>(file)?)),
        "extraction" => Ok(check_extract(&replay_case::<ExtractCase>(file)?)),
        "extraction-several-pages" => Ok(check_extract_pages(&replay_case::<PagesCase>(file)?)),
        _ => Ok(check_random_string(&replay_case::<StrCase>(file)?)),
    }
}
