//! C03 — saved files are valid PDF for a strict third-party reader (DESIGN.md §7 C03).

use super::c01;
use super::common::*;
use crate::canon::{self, Opts};
use crate::engine::{no_panic, replay_case, CaseReport, Run, Verdict, Violation};
use crate::gen::objects::{self as g, DocOpts};
use crate::model::{ADoc, AObj};
use crate::refimpl::strict;
use crate::viol;
use lopdf::IncrementalDocument;
use proptest::collection::vec;
use proptest::prelude::*;
use serde::{Deserialize, Serialize};
use serde_json::Value;
use std::collections::BTreeMap;

#[derive(Clone, Debug, Serialize, Deserialize)]
pub struct Update {
    /// (slot selecting an existing object, replacement)
    pub replace: Vec<(u16, AObj)>,
    pub add: Vec<AObj>,
}

#[derive(Clone, Debug, Serialize, Deserialize)]
pub struct Case {
    pub doc: ADoc,
    pub xref_stream: bool,
    pub updates: Vec<Update>,
}

pub fn strict_check(bytes: &[u8], model: &BTreeMap<(u32, u16), AObj>, what: &str) -> Result<strict::StrictDoc, Violation> {
    let sd = no_panic("strict reader", || strict::read(bytes))?.map_err(|e| {
        viol!("strict-rule-{}", "{}: strict reader rejects the file: rule {}: {}\nfile: {}", what, e.rule, e.msg, show_bytes(bytes, 3000))
            .with_kind(format!("strict-rule-{}", e.rule))
    })?;
    if sd.accounted != bytes.len() {
        return Err(viol!("strict-rule-9", "{}: {} of {} bytes accounted for", what, sd.accounted, bytes.len()));
    }
    for (id, o) in model {
        match sd.objects.get(id) {
            None => return Err(viol!("recovered-differs", "{}: strict reader does not find object {:?}", what, id)),
            Some(a) => canon::obj_eq(&o.to_object(), &a.to_object_raw(), Opts::ROUNDTRIP, &format!("obj {:?}", id))
                .map_err(|e| viol!("recovered-differs", "{}: {}", what, e))?,
        }
    }
    for (id, o) in &sd.objects {
        if !model.contains_key(id) {
            let structural = matches!(o, AObj::Stream(d, _) if d.iter().any(|(k, v)| k.0 == b"Type" && (*v == AObj::name("XRef") || *v == AObj::name("ObjStm"))));
            if !structural {
                return Err(viol!("recovered-differs", "{}: strict reader finds an object that was not saved: {:?} = {:?}", what, id, o));
            }
        }
    }
    Ok(sd)
}

pub fn check(case: &Case) -> Verdict {
    let mut rep = CaseReport::new();
    let mut adoc = case.doc.clone();
    c01::sanitise(&mut adoc, &mut rep);
    c01::classify_labels(&adoc, case.xref_stream, &mut rep);
    let mut model: BTreeMap<(u32, u16), AObj> = adoc.objects.iter().map(|(n, g, o)| ((*n, *g), o.clone())).collect();
    let mut d0 = adoc.to_document(case.xref_stream);
    let mut bytes = save(&mut d0)?;
    strict_check(&bytes, &model, "plain save")?;
    let mut n_updates = 0;
    for (ui, up) in case.updates.iter().enumerate() {
        let what = format!("incremental save #{}", ui + 1);
        let inc = no_panic("IncrementalDocument::load_from", || IncrementalDocument::load_from(&bytes[..]))?;
        let mut inc = inc.map_err(|e| viol!("reload-error", "{}: load_from of the previous output fails: {:?}", what, e))?;
        let ids: Vec<(u32, u16)> = model.keys().cloned().collect();
        for (slot, obj) in &up.replace {
            if ids.is_empty() {
                break;
            }
            let id = ids[(*slot as usize * ids.len()) >> 16];
            let mut o = obj.clone();
            g::resolve_refs(&mut o, &ids, ids.iter().map(|i| i.0).max().unwrap_or(0));
            let mut tmp = ADoc { version: String::new(), binary_mark: Default::default(), objects: vec![(id.0, id.1, o)], trailer: vec![], max_id_slack: 0 };
            c01::sanitise(&mut tmp, &mut rep);
            let o = tmp.objects.pop().unwrap().2;
            inc.new_document.set_object(id, o.to_object());
            model.insert(id, o);
        }
        for obj in &up.add {
            let mut o = obj.clone();
            g::resolve_refs(&mut o, &ids, ids.iter().map(|i| i.0).max().unwrap_or(0));
            let mut tmp = ADoc { version: String::new(), binary_mark: Default::default(), objects: vec![(0, 0, o)], trailer: vec![], max_id_slack: 0 };
            c01::sanitise(&mut tmp, &mut rep);
            let o = tmp.objects.pop().unwrap().2;
            let id = inc.new_document.add_object(o.to_object());
            if model.contains_key(&id) {
                return Err(viol!("id-collision", "{}: add_object on the new revision returned id {:?} which already exists", what, id));
            }
            model.insert(id, o);
        }
        let mut out = Vec::new();
        no_panic("IncrementalDocument::save_to", || inc.save_to(&mut out))?.map_err(|e| viol!("save-error", "{}: {}", what, e))?;
        if !out.starts_with(&bytes) {
            return Err(viol!("prefix-bytes-changed", "{}: output does not start with the previous bytes", what));
        }
        strict_check(&out, &model, &what)?;
        bytes = out;
        n_updates += 1;
    }
    rep.label_if(n_updates >= 1, "incremental");
    rep.label_if(n_updates >= 2, "chained-updates");
    let sparse = rep.labels.contains(&"sparse-ids");
    let has_stream = rep.labels.contains(&"stream");
    rep.nontrivial = adoc.objects.len() >= 3 && (sparse || has_stream || n_updates >= 1);
    Ok(rep)
}

trait WithKind {
    fn with_kind(self, k: String) -> Self;
}
impl WithKind for Violation {
    fn with_kind(mut self, k: String) -> Self {
        self.kind = k;
        self
    }
}

pub fn strategy(opts: DocOpts) -> impl Strategy<Value = Case> {
    let update = (vec((any::<u16>(), g::top_object(opts.obj)), 0..4), vec(g::top_object(opts.obj), 0..3)).prop_map(|(replace, add)| Update { replace, add });
    (g::document(opts), any::<bool>(), prop_oneof![2 => Just(vec![]), 3 => vec(update, 1..=3)]).prop_map(|(doc, xref_stream, updates)| Case { doc, xref_stream, updates })
}

pub fn run(run: &mut Run) {
    run.rule = "cases: random documents as in C01 x xref table/stream x {plain save; 1..3 chained incremental saves, each replacing 0..3 objects and adding 0..2}. Oracle: STRICT-R (own tokenizer, follows only startxref/xref/Prev/offsets/Length, Appendix C rules 1-10) accepts the bytes, attributes every byte, and recovers exactly the saved objects (merged view for incremental files). non-trivial = >=3 objects and (sparse numbering or a stream or an incremental section); distinct by case hash.".into();
    run.assumptions = vec![
        "STRICT-R implements ISO 32000-1 7.5 correctly (validated against the reference writer in selftest)".into(),
        "not demanded: an object-0 entry in xref streams, a particular sub-section layout".into(),
    ];
    run.replay_known_demos(replay);
    let opts = c01::doc_opts(run);
    let n = run.tier.pick(12_000, 400_000);
    run.campaign("strict-read", || strategy(opts), n, check, |_c, _v| None);
}

pub fn replay(file: &Value) -> Result<Verdict, String> {
    Ok(check(&replay_case::<Case>(file)?))
}
