//! C01 — save then load returns the same document (DESIGN.md §7 C01).

use super::common::*;
use crate::canon::Opts;
use crate::engine::{replay_case, CaseReport, Run, Verdict, Violation};
use crate::gen::objects::{self as g, DocOpts};
use crate::model::{ADoc, AObj, B};
use crate::viol;
use proptest::prelude::*;
use serde::{Deserialize, Serialize};
use serde_json::Value;

#[derive(Clone, Debug, Serialize, Deserialize)]
pub struct Case {
    pub doc: ADoc,
    pub xref_stream: bool,
}

/// Objects the writer deliberately regenerates/drops (cross-reference bookkeeping): outside the domain.
pub fn sanitise(doc: &mut ADoc, rep: &mut CaseReport) {
    for (_, _, o) in doc.objects.iter_mut() {
        if let AObj::Dict(d) | AObj::Stream(d, _) = o {
            let before = d.len();
            let structural = |v: &AObj| matches!(v, AObj::Name(n) if n.0 == b"ObjStm" || n.0 == b"XRef" || n.0 == b"Linearized");
            d.retain(|(k, v)| !(k.0 == b"Type" && structural(v)));
            // a /Linearized key makes an object "the linearization dictionary" only when it has no name-valued /Type
            // (Dictionary::get_type); next to an ordinary /Type it is an ordinary key and must survive
            let typed = matches!(d.iter().rev().find(|(k, _)| k.0 == b"Type"), Some((_, AObj::Name(_))));
            if !typed {
                d.retain(|(k, _)| k.0 != b"Linearized");
            }
            if d.len() != before {
                rep.exclude("structural-type-at-top-level");
            }
        }
    }
}

fn needs_escape(o: &AObj) -> bool {
    let mut found = false;
    o.visit(&mut |x| {
        let chk = |b: &B| b.0.iter().any(|c| b"()\\#/%<>[]{}\r\n\t\x0c \x00".contains(c) || *c >= 0x7f || *c < 0x21);
        match x {
            AObj::Name(n) => found |= chk(n),
            AObj::Str(s, _) => found |= chk(s),
            AObj::Dict(d) | AObj::Stream(d, _) => found |= d.iter().any(|(k, _)| chk(k)),
            _ => {}
        }
    });
    found
}

pub fn classify_labels(doc: &ADoc, xs: bool, rep: &mut CaseReport) {
    let mut has_stream = false;
    let mut depth = 0;
    let mut esc = false;
    let mut huge = false;
    let mut subn = false;
    let mut negz = false;
    let mut integral = false;
    let mut deep_paren = false;
    let mut dangling = false;
    let nums: Vec<u32> = doc.objects.iter().map(|o| o.0).collect();
    for (_, _, o) in &doc.objects {
        has_stream |= matches!(o, AObj::Stream(..));
        depth = depth.max(o.depth());
        esc |= needs_escape(o);
        o.visit(&mut |x| match x {
            AObj::Real(b) => {
                let v = f32::from_bits(*b);
                huge |= g::is_huge_integral(v);
                subn |= v != 0.0 && v.abs() < f32::MIN_POSITIVE;
                negz |= v == 0.0 && v.is_sign_negative();
                integral |= v.fract() == 0.0;
            }
            AObj::Str(s, false) => {
                let mut d = 0i32;
                let mut m = 0;
                for c in &s.0 {
                    if *c == b'(' {
                        d += 1;
                        m = m.max(d)
                    } else if *c == b')' {
                        d -= 1
                    }
                }
                deep_paren |= m > 100;
            }
            AObj::Ref(n, _) => dangling |= !nums.contains(n),
            _ => {}
        });
    }
    let sparse = nums.windows(2).any(|w| w[1] - w[0] > 1) || nums.first().map(|n| *n > 1).unwrap_or(false);
    let gens = doc.objects.iter().any(|o| o.1 != 0);
    rep.label_if(has_stream, "stream");
    rep.label_if(depth >= 2, "depth>=2");
    rep.label_if(esc, "escape-needing-byte");
    rep.label_if(huge, "real>=2^63");
    rep.label_if(subn, "real-subnormal");
    rep.label_if(negz, "real-negative-zero");
    rep.label_if(integral, "real-integral");
    rep.label_if(deep_paren, "parens-deeper-than-100");
    rep.label_if(dangling, "dangling-ref");
    rep.label_if(sparse, "sparse-ids");
    rep.label_if(gens, "nonzero-generation");
    rep.label_if(xs, "xref-stream");
    rep.label_if(!xs, "xref-table");
    rep.label_if(doc.version.len() != 3, "unusual-version");
    rep.label_if(doc.max_id_slack > 0, "max_id-slack");
    rep.nontrivial = doc.objects.len() >= 3 && (has_stream || depth >= 2 || esc);
}

pub fn check(case: &Case) -> Verdict {
    let mut rep = CaseReport::new();
    let mut adoc = case.doc.clone();
    sanitise(&mut adoc, &mut rep);
    classify_labels(&adoc, case.xref_stream, &mut rep);
    let mut d0 = adoc.to_document(case.xref_stream);
    let bytes = save(&mut d0)?;
    let mut d1 = load(&bytes)?;
    if d1.version != adoc.version {
        return Err(viol!("version-differs", "version {:?} became {:?}", adoc.version, d1.version));
    }
    compare_objects(&adoc, &d1, Opts::ROUNDTRIP, "first cycle")?;
    compare_trailer(&adoc, &d1, Opts::ROUNDTRIP, "first cycle")?;
    // repeated cycle
    let bytes2 = save(&mut d1).map_err(|v| Violation::new("second-cycle-differs", v.detail))?;
    let d2 = load(&bytes2).map_err(|v| Violation::new("second-cycle-differs", v.detail))?;
    if d2.version != adoc.version {
        return Err(viol!("second-cycle-differs", "version {:?} became {:?}", adoc.version, d2.version));
    }
    compare_objects(&adoc, &d2, Opts::ROUNDTRIP, "second cycle").map_err(|v| Violation::new("second-cycle-differs", v.detail))?;
    compare_trailer(&adoc, &d2, Opts::ROUNDTRIP, "second cycle").map_err(|v| Violation::new("second-cycle-differs", v.detail))?;
    Ok(rep)
}

/// exhaustive sweeps: one document per first byte / per block of 256 sequences
#[derive(Clone, Debug, Serialize, Deserialize)]
pub struct SweepCase {
    pub seqs: Vec<B>,
    pub xref_stream: bool,
}

pub fn sweep_doc(seqs: &[B]) -> ADoc {
    let mut objects = vec![];
    for (i, s) in seqs.iter().enumerate() {
        let o = AObj::Array(vec![
            AObj::Str(s.clone(), false),
            AObj::Str(s.clone(), true),
            AObj::Name(s.clone()),
            AObj::Dict(vec![(s.clone(), AObj::Int(1)), (B::from("k"), AObj::Name(s.clone()))]),
            AObj::Int(7),
        ]);
        objects.push((i as u32 + 1, 0, o));
    }
    ADoc {
        version: "1.7".into(),
        binary_mark: B(vec![0xBB, 0xAD, 0xC0, 0xDE]),
        objects,
        trailer: vec![],
        max_id_slack: 0,
    }
}

pub fn check_sweep(case: &SweepCase) -> Verdict {
    let adoc = sweep_doc(&case.seqs);
    let mut rep = CaseReport::new();
    rep.nontrivial = true;
    let mut d0 = adoc.to_document(case.xref_stream);
    let bytes = save(&mut d0)?;
    let d1 = load(&bytes)?;
    compare_objects(&adoc, &d1, Opts::ROUNDTRIP, "sweep")?;
    Ok(rep)
}

pub const SENSITIVE: &[u8; 16] = b"\\()\r\n078nr#/ \x00\xffa";

pub fn sweep_items() -> Vec<SweepCase> {
    let mut items = vec![];
    for xs in [false, true] {
        for a in 0..=255u8 {
            let seqs: Vec<B> = (0..=255u8).map(|b| B(vec![a, b])).collect();
            items.push(SweepCase { seqs, xref_stream: xs });
        }
    }
    // 16^3 and 16^4 over the escape-sensitive alphabet
    let mut all: Vec<B> = vec![];
    for n in [3usize, 4] {
        let total = 16usize.pow(n as u32);
        for i in 0..total {
            let mut v = Vec::with_capacity(n);
            let mut x = i;
            for _ in 0..n {
                v.push(SENSITIVE[x % 16]);
                x /= 16;
            }
            all.push(B(v));
        }
    }
    for (i, chunk) in all.chunks(256).enumerate() {
        items.push(SweepCase {
            seqs: chunk.to_vec(),
            xref_stream: i % 2 == 0,
        });
    }
    items
}

pub fn doc_opts(run: &Run) -> DocOpts {
    let mut o = DocOpts::default();
    if run.tier == crate::engine::Tier::Thorough {
        o.obj.max_str = 96;
    }
    o.obj.real.huge_integral = !run.finding_open("C01-huge-integral-real");
    o.obj.deep_parens = !run.finding_open("C01-deep-balanced-parens");
    o
}

/// One object nested `levels.len()` deep (even = array, odd = dictionary level). Kept in this compact form because the
/// JSON form of a deep object exceeds serde_json's recursion limit when a replay file is read back.
#[derive(Clone, Debug, Serialize, Deserialize)]
pub struct DeepCase {
    pub levels: Vec<u8>,
    pub xref_stream: bool,
}

/// lopdf's parser rejects nesting at this depth (`reader::MAX_NESTING`); known finding C01-nesting-limit
pub const NESTING_LIMIT: usize = 64;

pub fn build_deep(levels: &[u8]) -> AObj {
    let mut o = AObj::Int(7);
    for k in levels.iter().rev() {
        o = if k % 2 == 0 { AObj::Array(vec![AObj::Int(1), o]) } else { AObj::Dict(vec![(crate::model::B::from("K"), o)]) };
    }
    o
}

/// `tolerate`: the finding is open, so a failure at or beyond the limit is the known one (counted, not reported)
pub fn check_deep(case: &DeepCase, tolerate: bool) -> Verdict {
    let depth = case.levels.len();
    let doc = ADoc {
        version: "1.5".into(),
        binary_mark: Default::default(),
        objects: vec![(1, 0, build_deep(&case.levels)), (2, 0, AObj::dict(vec![("Type", AObj::name("Catalog")), ("Deep", AObj::Ref(1, 0))]))],
        trailer: vec![(crate::model::B::from("Root"), AObj::Ref(2, 0))],
        max_id_slack: 0,
    };
    let r = check(&Case { doc, xref_stream: case.xref_stream });
    match r {
        Ok(mut rep) => {
            rep.label_if(depth >= 16, "depth>=16");
            rep.label_if(depth >= NESTING_LIMIT, "depth>=64-round-trips");
            rep.nontrivial = depth >= 8;
            Ok(rep)
        }
        Err(_) if tolerate && depth >= NESTING_LIMIT => {
            let mut rep = CaseReport::new();
            rep.exclude("known:C01-nesting-limit");
            Ok(rep)
        }
        Err(v) => Err(v),
    }
}

pub fn deep_strategy() -> impl Strategy<Value = DeepCase> {
    (proptest::collection::vec(0u8..2, 1..160), any::<bool>()).prop_map(|(levels, xref_stream)| DeepCase { levels, xref_stream })
}

pub fn strategy(opts: DocOpts) -> impl Strategy<Value = Case> {
    (g::document(opts), any::<bool>()).prop_map(|(doc, xref_stream)| Case { doc, xref_stream })
}

pub fn run(run: &mut Run) {
    run.rule = "cases: random documents (G-DOC: all 10 object kinds nested, hostile bytes in names/strings/keys/stream bodies, sparse ids, generations, finite reals incl. sub-normals and |v|>=2^63, unusual version strings and binary marks) x xref table/stream, in this build configuration (par = rayon reader, seq = sequential reader; the two configurations see the same documents and are counted as separate evaluations); plus exhaustive sweeps of all 65 536 byte pairs and all 16^3+16^4 sequences over 16 escape-sensitive bytes as literal string, hex string, name and dictionary key. Campaign 'deep-nesting': one object nested 1..160 levels (arrays and dictionaries mixed). Oracle: load_mem(save_to(d)) equals d under CANON, twice. non-trivial = at least 3 objects and (a stream, or nesting depth >= 2, or a byte that needs escaping in a name/string/key); distinct by hash of the serialised case.".into();
    run.assumptions = vec![
        "CANON comparator is correct (integral Real may come back as Integer; dictionaries are maps; streams compare on dict+content)".into(),
        "objects typed ObjStm/XRef/Linearized at top level and bookkeeping trailer keys are outside the domain (removed by construction, counted)".into(),
        "extra objects after load are accepted only if they are XRef/ObjStm streams (the writer's own cross-reference stream)".into(),
    ];
    run.replay_known_demos(replay);
    let opts = doc_opts(run);
    let n = run.tier.pick(30_000, 600_000);
    run.campaign("roundtrip", || strategy(opts), n, check, |_c, _v| None);
    // nesting depth as a generated quantity (the documents above nest a handful of levels): objects nested 1..160 deep.
    // lopdf's parser refuses nesting from 64 levels on (known finding C01-nesting-limit): failures there are counted as
    // excluded, a failure below the limit is a violation, and the finding's demo is replayed above.
    let tolerate = run.finding_open("C01-nesting-limit");
    run.campaign("deep-nesting", deep_strategy, run.tier.pick(600, 10_000), move |c| check_deep(c, tolerate), |_c, _v| None);
    let items = sweep_items();
    run.enumerated(
        "byte-sweeps",
        items,
        true,
        "all 65536 byte pairs x {table,stream}; all 16^3 + 16^4 sequences over the 16 escape-sensitive bytes; each as literal string, hex string, name and dictionary key, 256 sequences per document",
        check_sweep,
    );
}

pub fn replay(file: &Value) -> Result<Verdict, String> {
    match file.get("campaign").and_then(|c| c.as_str()).unwrap_or("roundtrip") {
        "byte-sweeps" => Ok(check_sweep(&replay_case::<SweepCase>(file)?)),
        "deep-nesting" => Ok(check_deep(&replay_case::<DeepCase>(file)?, false)),
        _ => Ok(check(&replay_case::<Case>(file)?)),
    }
}
