//! C08 — loading is deterministic under every thread schedule (DESIGN.md §7 C08).

use super::c02::{sanitise_rev, wfile_strategy, WOpts};
use super::c07;
use super::common::*;
use crate::canon;
use crate::engine::{no_panic, replay_case, CaseReport, Run, Verdict};
use crate::refimpl::writer::{self, WFile};
use crate::viol;
use lopdf::Document;
use proptest::prelude::*;
use serde_json::Value;
use std::collections::BTreeMap;
use std::io::{BufRead, BufReader, Read, Write};
use std::process::{Child, ChildStdin, ChildStdout, Command, Stdio};
use std::sync::atomic::{AtomicU64, Ordering};
use std::sync::Mutex;

pub static PERMUTED_LOADS: AtomicU64 = AtomicU64::new(0);
pub static POOL_LOADS: AtomicU64 = AtomicU64::new(0);
pub static SEQ_COMPARISONS: AtomicU64 = AtomicU64::new(0);
pub static FILTERED_LOADS: AtomicU64 = AtomicU64::new(0);

/// the hook state is process-global: the whole check body is serialised
static HOOK_LOCK: Mutex<()> = Mutex::new(());

struct SeqServer {
    _child: Child,
    stdin: ChildStdin,
    stdout: BufReader<ChildStdout>,
}

static SEQ: Mutex<Option<SeqServer>> = Mutex::new(None);

fn seq_digest(bytes: &[u8]) -> Result<String, String> {
    let mut guard = SEQ.lock().unwrap();
    if guard.is_none() {
        let bin = std::env::var("VERIF_BIN_SEQ").ok().filter(|s| !s.is_empty()).ok_or("VERIF_BIN_SEQ not set (run through ./check)")?;
        let mut child = Command::new(bin).arg("digest-server").stdin(Stdio::piped()).stdout(Stdio::piped()).spawn().map_err(|e| format!("cannot start the sequential build: {}", e))?;
        let stdin = child.stdin.take().unwrap();
        let stdout = BufReader::new(child.stdout.take().unwrap());
        *guard = Some(SeqServer { _child: child, stdin, stdout });
    }
    let s = guard.as_mut().unwrap();
    s.stdin.write_all(&(bytes.len() as u32).to_le_bytes()).map_err(|e| e.to_string())?;
    s.stdin.write_all(bytes).map_err(|e| e.to_string())?;
    s.stdin.flush().map_err(|e| e.to_string())?;
    let mut line = String::new();
    s.stdout.read_line(&mut line).map_err(|e| e.to_string())?;
    if line.is_empty() {
        *guard = None;
        return Err("sequential digest server died".into());
    }
    Ok(line.trim().to_string())
}

/// `lv digest-server`: length-prefixed files on stdin, one digest line per file
pub fn digest_server() {
    let stdin = std::io::stdin();
    let mut inp = stdin.lock();
    let stdout = std::io::stdout();
    loop {
        let mut len = [0u8; 4];
        if inp.read_exact(&mut len).is_err() {
            return;
        }
        let mut buf = vec![0u8; u32::from_le_bytes(len) as usize];
        if inp.read_exact(&mut buf).is_err() {
            return;
        }
        let line = digest_line(&buf);
        let mut o = stdout.lock();
        let _ = writeln!(o, "{}", line);
        let _ = o.flush();
    }
}

pub fn digest_line(bytes: &[u8]) -> String {
    match std::panic::catch_unwind(|| Document::load_mem(bytes)) {
        Ok(Ok(d)) => format!("ok {:016x} objects={} max_id={}", canon::digest(&d), d.objects.len(), d.max_id),
        Ok(Err(e)) => format!("err {:?}", e).replace('\n', " "),
        Err(_) => "panic".to_string(),
    }
}

fn factorial(n: usize) -> usize {
    (1..=n).product()
}

pub fn check(f: &WFile) -> Verdict {
    let mut rep = CaseReport::new();
    let mut f = c07::prepare(f, &mut rep);
    f.xref_stream = true;
    f.objstm = true;
    for r in f.revisions.iter_mut() {
        sanitise_rev(r, &mut rep);
    }
    if f.revisions.is_empty() {
        return Ok(rep);
    }
    let out = writer::write(&f);
    check_rendered(rep, &f, &out)
}

/// an encrypted file with an empty user password: load_mem decrypts it and merges the object streams afterwards
/// (`Document::decrypt_raw`), a second place where the copies of one object number meet
pub fn check_encrypted(case: &c07::EncHist) -> Verdict {
    let mut rep = CaseReport::new();
    let mut case = case.clone();
    case.cfg.user_pw = String::new();
    case.f.xref_stream = true;
    case.f.objstm = true;
    let Some(r) = c07::render_encrypted(&case, &mut rep)? else { return Ok(rep) };
    rep.label("encrypted-empty-user-password");
    check_rendered(rep, &r.f, &r.out)
}

fn check_rendered(mut rep: CaseReport, f: &WFile, out: &writer::WOutput) -> Verdict {
    let bytes = &out.bytes;
    let _g = HOOK_LOCK.lock().unwrap_or_else(|e| e.into_inner());
    #[cfg(lopdf_verif)]
    lopdf::verif_hooks::set_merge_order(None);
    let reference = no_panic("load_mem", || digest_line(bytes))?;
    #[allow(unused_mut, unused_assignments)]
    let mut blocks = 0usize;
    // (1) every merge order of the per-container blocks
    #[cfg(lopdf_verif)]
    {
        blocks = lopdf::verif_hooks::last_block_count();
        let n = blocks.min(6);
        for k in 0..factorial(n) {
            lopdf::verif_hooks::set_merge_order(Some(k));
            let d = digest_line(bytes);
            PERMUTED_LOADS.fetch_add(1, Ordering::Relaxed);
            if d != reference {
                lopdf::verif_hooks::set_merge_order(None);
                let a = Document::load_mem(bytes);
                lopdf::verif_hooks::set_merge_order(Some(k));
                let b = Document::load_mem(bytes);
                lopdf::verif_hooks::set_merge_order(None);
                let diff = match (a, b) {
                    (Ok(a), Ok(b)) => canon::doc_diff(&a, &b),
                    _ => String::new(),
                };
                return Err(viol!(
                    "digest-differs-between-orders",
                    "merge order #{} of {} blocks gives {} but the natural order gives {}: {}\nfeatures {:?}\n{}",
                    k, blocks, d, reference, diff, out.features, show_bytes(bytes, 4000)
                ));
            }
        }
        lopdf::verif_hooks::set_merge_order(None);
    }
    // (1b) the filtering loader (path based) with a filter that keeps everything: same document, under every merge order
    {
        fn keep_all(id: (u32, u16), o: &mut lopdf::Object) -> Option<((u32, u16), lopdf::Object)> {
            Some((id, o.clone()))
        }
        static TMP_SEQ: AtomicU64 = AtomicU64::new(0);
        let path = std::env::temp_dir().join(format!("lv-c08-{}-{}.pdf", std::process::id(), TMP_SEQ.fetch_add(1, Ordering::Relaxed)));
        if std::fs::write(&path, bytes).is_ok() {
            let digest_filtered = |_: ()| match std::panic::catch_unwind(|| Document::load_filtered(&path, keep_all)) {
                Ok(Ok(d)) => format!("ok {:016x} objects={} max_id={}", canon::digest(&d), d.objects.len(), d.max_id),
                Ok(Err(e)) => format!("err {:?}", e).replace('\n', " "),
                Err(_) => "panic".to_string(),
            };
            let mut orders: Vec<Option<usize>> = vec![None];
            #[cfg(lopdf_verif)]
            orders.extend((0..factorial(blocks.min(4))).map(Some));
            for k in orders {
                #[cfg(lopdf_verif)]
                lopdf::verif_hooks::set_merge_order(k);
                let d = digest_filtered(());
                FILTERED_LOADS.fetch_add(1, Ordering::Relaxed);
                if d != reference {
                    #[cfg(lopdf_verif)]
                    lopdf::verif_hooks::set_merge_order(None);
                    let _ = std::fs::remove_file(&path);
                    return Err(viol!("filtered-load-differs", "load_filtered with a keep-everything filter (merge order {:?}) gives {} but load_mem gives {}\nfeatures {:?}\n{}", k, d, reference, out.features, show_bytes(bytes, 4000)));
                }
            }
            #[cfg(lopdf_verif)]
            lopdf::verif_hooks::set_merge_order(None);
            let _ = std::fs::remove_file(&path);
        }
    }
    // (2) thread pools of different sizes, repeated
    #[cfg(feature = "par")]
    {
        let reps = if std::env::var("VERIF_TIER").as_deref() == Ok("thorough") { 20 } else { 4 };
        for t in [1usize, 2, 3, 4, 8, 16] {
            let pool = pool(t);
            for _ in 0..reps {
                let d = pool.install(|| digest_line(bytes));
                POOL_LOADS.fetch_add(1, Ordering::Relaxed);
                if d != reference {
                    return Err(viol!("digest-differs-between-pools", "a load on a pool of {} threads gives {} but the reference load gives {}\nfeatures {:?}\n{}", t, d, reference, out.features, show_bytes(bytes, 4000)));
                }
            }
        }
    }
    // (3) the sequential build
    #[cfg(feature = "par")]
    {
        match seq_digest(bytes) {
            Ok(d) => {
                SEQ_COMPARISONS.fetch_add(1, Ordering::Relaxed);
                if d != reference {
                    return Err(viol!("digest-differs-from-sequential", "the sequential (no-default-features) build gives {} but the parallel build gives {}\nfeatures {:?}\n{}", d, reference, out.features, show_bytes(bytes, 4000)));
                }
            }
            Err(e) => return Err(viol!("harness-seq-server", "{}", e)),
        }
    }
    // labels
    let mut containers_of: BTreeMap<u32, Vec<u32>> = BTreeMap::new();
    for p in &out.placement {
        for (num, c) in p {
            if let Some(c) = c {
                containers_of.entry(*num).or_default().push(*c);
            }
        }
    }
    let dup = containers_of.values().any(|v| v.len() >= 2);
    let n_containers: usize = out.structural.iter().map(|s| s.len()).sum::<usize>().saturating_sub(f.revisions.len());
    rep.label_if(dup, "number-in-two-containers");
    rep.label_if(out.features.contains("quirk-orphan-number-in-two-containers"), "orphan-number-in-two-containers");
    rep.label_if(out.features.contains("quirk-number-twice-in-one-container"), "number-twice-in-one-container");
    rep.label_if(n_containers >= 2, "containers>=2");
    rep.label_if(n_containers >= 4, "containers>=4");
    rep.label_if(blocks >= 2, "blocks>=2");
    rep.label_if(out.features.contains("indirect-length-in-objstm"), "indirect-length-in-objstm");
    rep.label_if(out.features.iter().any(|x| x.starts_with("indirect-length")), "indirect-length");
    rep.label_if(reference.starts_with("ok"), "loads-ok");
    rep.nontrivial = (n_containers >= 2 && dup) || out.features.iter().any(|x| x.starts_with("quirk-"));
    Ok(rep)
}

#[cfg(feature = "par")]
fn pool(t: usize) -> std::sync::Arc<rayon::ThreadPool> {
    use std::sync::Arc;
    static POOLS: Mutex<Vec<(usize, Arc<rayon::ThreadPool>)>> = Mutex::new(Vec::new());
    let mut g = POOLS.lock().unwrap();
    if let Some((_, p)) = g.iter().find(|(n, _)| *n == t) {
        return p.clone();
    }
    let p = Arc::new(rayon::ThreadPoolBuilder::new().num_threads(t).stack_size(8 << 20).build().expect("rayon pool"));
    g.push((t, p.clone()));
    p
}

pub fn opts(run: &Run) -> WOpts {
    let mut o = c07::opts_a(run);
    o.doc.max_objects = 25;
    o.max_revisions = 3;
    o
}

pub fn run(run: &mut Run) {
    run.rule = "cases: REF-W files with cross-reference streams and object streams (up to ~10 containers over 1..3 revisions, object numbers redefined in later containers, zero-length streams, indirect lengths incl. lengths stored in object streams). Schedules: (1) hook H1 delivers the per-container blocks to the final merge in EVERY order (n! orders, n <= 6; exhaustive in the merge-order dimension), (1b) Document::load_filtered with a keep-everything filter under the merge orders (n <= 4), (2) loads inside rayon pools of 1,2,3,4,8,16 threads, repeated, (3) the no-default-features (sequential) build on the same bytes. Oracle: identical digest of (objects, trailer, max_id, version). In the seq configuration only (1) runs. Second campaign: the same files plus constructs outside the strict grammar that a lenient loader accepts (an object number named by no cross-reference entry present in two object streams; a number listed twice in one object stream). Third campaign: the same files encrypted by the reference handler with an empty user password, which load_mem decrypts and whose object streams Document::decrypt_raw merges. non-trivial = (>= 2 containers and >= 1 object number present in >= 2 containers) or one of those constructs present; distinct by case hash.".into();
    run.assumptions = vec![
        "hook H1 permutes whole blocks exactly as thread completion could order them (each block is appended under the mutex atomically)".into(),
        "interleavings inside rayon's collect are sampled by repetition only; no data race is possible (forbid(unsafe_code), Mutex)".into(),
    ];
    run.threads = 1;
    run.replay_known_demos(replay);
    let o = opts(run);
    let n = run.tier.pick(120, 8000);
    run.campaign("schedules", || wfile_strategy(o), n, check, |_c, _v| None);
    // the same, with constructs only a lenient reader accepts: a number that no cross-reference entry names present in two
    // object streams, and a number listed more than once inside one object stream
    let quirky = move || (wfile_strategy(o), 1u8..4).prop_map(|(mut f, q)| {
        f.quirks = q;
        f
    });
    run.campaign("schedules-lenient-files", quirky, n, check, |_c, _v| None);
    // encrypted files that load_mem opens with the empty user password: the object streams are merged after decryption
    let enc = move || (wfile_strategy(o), super::cryptgen::config_strategy(), any::<u64>(), 0u8..4).prop_map(|(mut f, cfg, seed, q)| {
        f.quirks = q;
        c07::EncHist { f, cfg, seed }
    });
    run.campaign("schedules-encrypted-files", enc, n, check_encrypted, |_c, _v| None);
    run.extra.insert("permuted_loads".into(), serde_json::json!(PERMUTED_LOADS.load(Ordering::Relaxed)));
    run.extra.insert("pool_loads".into(), serde_json::json!(POOL_LOADS.load(Ordering::Relaxed)));
    run.extra.insert("filtered_loads".into(), serde_json::json!(FILTERED_LOADS.load(Ordering::Relaxed)));
    run.extra.insert("sequential_build_comparisons".into(), serde_json::json!(SEQ_COMPARISONS.load(Ordering::Relaxed)));
    if let Some(c) = run.campaigns.last_mut() {
        c.note = "per file: all n! block orders (exhaustive in that dimension), 6 pool sizes x repetitions, sequential build".into();
    }
}

pub fn replay(file: &Value) -> Result<Verdict, String> {
    if file.get("campaign").and_then(|c| c.as_str()) == Some("schedules-encrypted-files") {
        return Ok(check_encrypted(&replay_case::<c07::EncHist>(file)?));
    }
    Ok(check(&replay_case::<WFile>(file)?))
}
