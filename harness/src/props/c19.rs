//! C19 — saving reports sink failures and ignores sink chunking (DESIGN.md §7 C19).

use super::c01;
use super::c03::{strict_check, Update};
use super::common::*;
use crate::canon::{self, Opts};
use crate::engine::{no_panic, replay_case, CaseReport, Run, Verdict, Violation};
use crate::gen::objects::{self as g, DocOpts};
use crate::model::{ADoc, AObj};
use crate::viol;
use lopdf::{Document, IncrementalDocument};
use proptest::collection::vec;
use proptest::prelude::*;
use serde::{Deserialize, Serialize};
use serde_json::Value;
use std::collections::{BTreeMap, HashMap};
use std::io::{self, Write};
use std::sync::atomic::{AtomicU64, Ordering};

pub static FAULTS: AtomicU64 = AtomicU64::new(0);
pub static CHUNKED: AtomicU64 = AtomicU64::new(0);

#[derive(Clone, Debug, Serialize, Deserialize)]
pub struct Case {
    pub doc: ADoc,
    pub xref_stream: bool,
    pub update: Option<Update>,
    /// chunk sizes (cycled): at most 1 + c bytes are accepted per write call
    pub chunks: Vec<u8>,
    /// every write call whose index is listed (mod 64) first returns Interrupted once
    pub interrupts: Vec<u8>,
}

#[derive(Clone, Copy, Debug, PartialEq)]
pub enum FaultKind {
    /// every write after the limit fails
    Hard,
    /// every write after the limit accepts zero bytes
    Zero,
    /// exactly one write fails at the limit, later writes are accepted again (e.g. a transient ENOSPC)
    Transient,
}

/// accepts `limit` bytes, then fails
struct FaultySink {
    data: Vec<u8>,
    limit: usize,
    kind: FaultKind,
    failed: bool,
    after_recovery: Vec<u8>,
}

impl Write for FaultySink {
    fn write(&mut self, buf: &[u8]) -> io::Result<usize> {
        let room = self.limit - self.data.len();
        if buf.is_empty() {
            return Ok(0);
        }
        if self.kind == FaultKind::Transient && self.failed {
            // recovered: accepts everything (kept apart so that the prefix check can tell)
            self.after_recovery.extend_from_slice(buf);
            return Ok(buf.len());
        }
        if room == 0 {
            self.failed = true;
            return match self.kind {
                FaultKind::Hard | FaultKind::Transient => Err(io::Error::new(io::ErrorKind::Other, "injected sink failure")),
                FaultKind::Zero => Ok(0),
            };
        }
        let n = room.min(buf.len());
        self.data.extend_from_slice(&buf[..n]);
        Ok(n)
    }
    fn flush(&mut self) -> io::Result<()> {
        Ok(())
    }
}

/// accepts at most k_i bytes per call, interrupts some calls
struct ChunkySink<'a> {
    data: Vec<u8>,
    chunks: &'a [u8],
    interrupts: &'a [u8],
    call: usize,
    interrupted_this_call: bool,
    /// a healthy save delivers `reference.len()` bytes: a sink that has taken many times as much is being fed by a
    /// writer that re-sends data (it then fails for good, so that the runaway ends as an error and not as a crash)
    cap: usize,
}

impl Write for ChunkySink<'_> {
    fn write(&mut self, buf: &[u8]) -> io::Result<usize> {
        if buf.is_empty() {
            return Ok(0);
        }
        if self.data.len() > self.cap {
            return Err(io::Error::new(io::ErrorKind::Other, "sink overrun: far more bytes delivered than the complete output has"));
        }
        if !self.interrupted_this_call && self.interrupts.contains(&((self.call % 64) as u8)) {
            self.interrupted_this_call = true;
            return Err(io::Error::new(io::ErrorKind::Interrupted, "injected EINTR"));
        }
        self.interrupted_this_call = false;
        let k = if self.chunks.is_empty() { usize::MAX } else { 1 + self.chunks[self.call % self.chunks.len()] as usize };
        self.call += 1;
        let n = k.min(buf.len());
        self.data.extend_from_slice(&buf[..n]);
        Ok(n)
    }
    fn flush(&mut self) -> io::Result<()> {
        Ok(())
    }
}

#[derive(Clone)]
enum State {
    Plain(Document),
    Inc(IncrementalDocument),
}

impl State {
    fn save_to<W: Write>(&mut self, w: &mut W) -> io::Result<()> {
        match self {
            State::Plain(d) => d.save_to(w),
            State::Inc(d) => d.save_to(w),
        }
    }
    fn digest(&self) -> u64 {
        match self {
            State::Plain(d) => canon::digest(d),
            State::Inc(d) => canon::digest(&d.new_document) ^ canon::digest(d.get_prev_documents()).rotate_left(17),
        }
    }
}

fn validate_healthy(state: &State, model: &BTreeMap<(u32, u16), AObj>, adoc_version: &str, what: &str) -> Result<(), Violation> {
    let mut st = state.clone();
    let mut out = Vec::new();
    no_panic("save_to (healthy, after failure)", || st.save_to(&mut out))?
        .map_err(|e| viol!("later-save-invalid", "{}: later save to a healthy sink fails: {}", what, e))?;
    strict_check(&out, model, what).map_err(|v| Violation::new("later-save-invalid", v.detail))?;
    let loaded = load(&out).map_err(|v| Violation::new("later-save-invalid", v.detail))?;
    if matches!(state, State::Plain(_)) && loaded.version != adoc_version {
        return Err(viol!("later-save-differs", "{}: version {:?} vs {:?}", what, loaded.version, adoc_version));
    }
    for (id, o) in model {
        match loaded.objects.get(id) {
            None => return Err(viol!("later-save-differs", "{}: object {:?} missing after later save + load", what, id)),
            Some(a) => canon::obj_eq(&o.to_object(), a, Opts::ROUNDTRIP, &format!("obj {:?}", id)).map_err(|e| viol!("later-save-differs", "{}: {}", what, e))?,
        }
    }
    for (id, o) in &loaded.objects {
        if !model.contains_key(id) && !is_structural(o) {
            return Err(viol!("later-save-differs", "{}: extra object {:?} after later save + load", what, id));
        }
    }
    Ok(())
}

pub fn check(case: &Case) -> Verdict {
    let mut rep = CaseReport::new();
    let mut adoc = case.doc.clone();
    c01::sanitise(&mut adoc, &mut rep);
    let mut model: BTreeMap<(u32, u16), AObj> = adoc.objects.iter().map(|(n, g, o)| ((*n, *g), o.clone())).collect();
    let base_doc = adoc.to_document(case.xref_stream);
    let state0 = match &case.update {
        None => State::Plain(base_doc),
        Some(up) => {
            let mut d = base_doc;
            let bytes = save(&mut d)?;
            let mut inc = IncrementalDocument::load_from(&bytes[..]).map_err(|e| viol!("reload-error", "load_from: {:?}", e))?;
            let ids: Vec<(u32, u16)> = model.keys().cloned().collect();
            let maxn = ids.iter().map(|i| i.0).max().unwrap_or(0);
            for (slot, obj) in &up.replace {
                if ids.is_empty() {
                    break;
                }
                let id = ids[(*slot as usize * ids.len()) >> 16];
                let mut tmp = ADoc { version: String::new(), binary_mark: Default::default(), objects: vec![(id.0, id.1, obj.clone())], trailer: vec![], max_id_slack: 0 };
                g::resolve_refs(&mut tmp.objects[0].2, &ids, maxn);
                c01::sanitise(&mut tmp, &mut rep);
                let o = tmp.objects.pop().unwrap().2;
                inc.new_document.set_object(id, o.to_object());
                model.insert(id, o);
            }
            for obj in &up.add {
                let mut tmp = ADoc { version: String::new(), binary_mark: Default::default(), objects: vec![(0, 0, obj.clone())], trailer: vec![], max_id_slack: 0 };
                g::resolve_refs(&mut tmp.objects[0].2, &ids, maxn);
                c01::sanitise(&mut tmp, &mut rep);
                let o = tmp.objects.pop().unwrap().2;
                let id = inc.new_document.add_object(o.to_object());
                model.insert(id, o);
            }
            State::Inc(inc)
        }
    };
    // reference output
    let mut st = state0.clone();
    let mut reference = Vec::new();
    no_panic("save_to", || st.save_to(&mut reference))?.map_err(|e| viol!("save-error", "reference save fails: {}", e))?;
    // the reference output itself must be a valid file of the model
    validate_healthy(&state0, &model, &adoc.version, "reference save")?;

    // (1) chunking and transient interruptions
    {
        let mut st = state0.clone();
        let mut sink = ChunkySink { data: vec![], chunks: &case.chunks, interrupts: &case.interrupts, call: 0, interrupted_this_call: false, cap: 4 * reference.len() + 4096 };
        let r = no_panic("save_to (chunked sink)", || st.save_to(&mut sink)).map_err(|v| Violation::new("panic-on-failure", v.detail))?;
        CHUNKED.fetch_add(1, Ordering::Relaxed);
        if let Err(e) = r {
            return Err(viol!("bytes-depend-on-chunking", "save to a sink with short writes / EINTR returned Err: {}", e));
        }
        if sink.data != reference {
            let p = sink.data.iter().zip(reference.iter()).position(|(a, b)| a != b).unwrap_or(sink.data.len().min(reference.len()));
            return Err(viol!(
                "bytes-depend-on-chunking",
                "output differs from the unchunked output at byte {} (lengths {} vs {}): chunked {} / reference {}",
                p,
                sink.data.len(),
                reference.len(),
                show_bytes(&sink.data[p.saturating_sub(30)..sink.data.len().min(p + 30)], 80),
                show_bytes(&reference[p.saturating_sub(30)..reference.len().min(p + 30)], 80)
            ));
        }
    }
    // (2) every failure position x kind
    let mut validated: HashMap<u64, ()> = HashMap::new();
    validated.insert(state0.digest(), ());
    for kind in [FaultKind::Hard, FaultKind::Zero, FaultKind::Transient] {
        for p in 0..reference.len() {
            let mut st = state0.clone();
            let mut sink = FaultySink { data: Vec::with_capacity(p), limit: p, kind, failed: false, after_recovery: vec![] };
            let r = no_panic("save_to (failing sink)", || st.save_to(&mut sink))
                .map_err(|v| viol!("panic-on-failure", "sink failing ({:?}) after {} bytes: {}", kind, p, v.detail))?;
            FAULTS.fetch_add(1, Ordering::Relaxed);
            if r.is_ok() {
                return Err(viol!("ok-despite-failure", "sink failed ({:?}) after {} of {} bytes but save_to returned Ok", kind, p, reference.len()));
            }
            if !sink.failed {
                return Err(viol!("engine", "fault at {} was never reached", p));
            }
            if sink.data[..] != reference[..p] {
                return Err(viol!("not-a-prefix", "sink failing ({:?}) after {} bytes: delivered bytes are not a prefix of the complete output", kind, p));
            }
            let d = st.digest();
            if !validated.contains_key(&d) {
                validate_healthy(&st, &model, &adoc.version, &format!("after a failure ({:?}) at byte {}", kind, p))?;
                validated.insert(d, ());
            }
        }
    }
    // (3) Document::save onto a full device surfaces the error
    if std::path::Path::new("/dev/full").exists() {
        let mut st = state0.clone();
        let r = match &mut st {
            State::Plain(d) => no_panic("Document::save(/dev/full)", || d.save("/dev/full").map(|_| ()))?,
            State::Inc(d) => no_panic("IncrementalDocument::save(/dev/full)", || d.save("/dev/full").map(|_| ()))?,
        };
        if r.is_ok() {
            return Err(viol!("ok-despite-failure", "save() to /dev/full returned Ok"));
        }
        rep.label("dev-full");
    }
    rep.label_if(case.update.is_some(), "incremental");
    rep.label_if(case.xref_stream, "xref-stream");
    rep.label_if(!case.xref_stream, "xref-table");
    rep.label_if(reference.len() > 1000, "output>1000B");
    rep.label_if(!case.interrupts.is_empty(), "with-EINTR");
    rep.label_if(validated.len() > 1, "failure-changed-document-state");
    rep.nontrivial = model.len() >= 3;
    Ok(rep)
}

pub fn strategy(opts: DocOpts) -> impl Strategy<Value = Case> {
    let update = (vec((any::<u16>(), g::top_object(opts.obj)), 0..3), vec(g::top_object(opts.obj), 0..2)).prop_map(|(replace, add)| Update { replace, add });
    (
        g::document(opts),
        any::<bool>(),
        prop_oneof![1 => Just(None), 1 => update.prop_map(Some)],
        vec(prop_oneof![3 => 0u8..8, 1 => any::<u8>()], 0..6),
        vec(0u8..64, 0..4),
    )
        .prop_map(|(doc, xref_stream, update, chunks, interrupts)| Case { doc, xref_stream, update, chunks, interrupts })
}

pub fn run(run: &mut Run) {
    run.level = "fault_enumeration";
    run.rule = "cases: random documents (<= 10 objects, both xref formats, plain or incremental with one update revision) x a generated chunking schedule with transient Interrupted results x EVERY byte position of the complete output x {persistent hard error, persistent zero-length write, one transient hard error after which the sink recovers}. Oracle per position: save_to returns Err (no panic, no Ok), delivered bytes == reference[..p]; for every distinct document state left behind by a failed save, a later healthy save is accepted by STRICT-R and loads to the original content; chunked output == unchunked output; save() to /dev/full returns Err. evaluations = documents; fault_injections = failing saves executed. non-trivial = document with >= 3 objects; distinct by case hash.".into();
    run.assumptions = vec!["STRICT-R and CANON as in C03/C01".into(), "positions are enumerated exhaustively per document; documents are sampled".into()];
    run.replay_known_demos(replay);
    let mut opts = c01::doc_opts(run);
    opts.max_objects = 10;
    opts.obj.max_str = 24;
    let n = run.tier.pick(300, 6000);
    run.campaign("fault-positions", || strategy(opts), n, check, |_c, _v| None);
    run.extra.insert("fault_injections".into(), serde_json::json!(FAULTS.load(Ordering::Relaxed)));
    run.extra.insert("chunked_saves".into(), serde_json::json!(CHUNKED.load(Ordering::Relaxed)));
    if let Some(c) = run.campaigns.last_mut() {
        c.exhaustive = false;
        c.note = "every byte position x 3 fault kinds enumerated per document (exhaustive in the position dimension)".into();
    }
}

pub fn replay(file: &Value) -> Result<Verdict, String> {
    Ok(check(&replay_case::<Case>(file)?))
}
