//! shared oracle for the crash-type properties (C04, C12-malformed, C13): run a case in the isolated worker
//! and turn the outcome into a verdict, tolerating (and counting) signatures of open known findings.

use super::entries::entry_name;
use crate::engine::known::{CrashSig, KnownFindings};
use crate::engine::{CaseReport, Run, Violation};
use crate::worker::{self, Outcome};
use std::collections::BTreeMap;
use std::sync::{Mutex, OnceLock};

static SIGS: OnceLock<Mutex<BTreeMap<String, Vec<(String, CrashSig)>>>> = OnceLock::new();
static SEEN: Mutex<Vec<String>> = Mutex::new(Vec::new());

fn sigs_for(prop: &str) -> Vec<(String, CrashSig)> {
    let m = SIGS.get_or_init(|| Mutex::new(BTreeMap::new()));
    let mut g = m.lock().unwrap();
    g.entry(prop.to_string()).or_insert_with(|| KnownFindings::load().crash_signatures(prop)).clone()
}

pub fn signature(entry: u8, o: &Outcome) -> String {
    format!("entry={} failure={} lopdf_fn={} message={}", entry_name(entry), o.kind(), o.func(), crate::engine::truncate(&o.message(), 160))
}

/// Ok(outcome) = the case passes (possibly a tolerated known finding); Err = violation / harness problem
pub fn crash_check(prop: &str, entry: u8, payload: &[u8], rep: &mut CaseReport) -> Result<Outcome, Violation> {
    crash_check_in(worker::Flavour::Release, prop, entry, payload, rep)
}

pub fn crash_check_in(flavour: worker::Flavour, prop: &str, entry: u8, payload: &[u8], rep: &mut CaseReport) -> Result<Outcome, Violation> {
    let o = worker::run_case_in(flavour, entry, payload);
    match &o {
        Outcome::Ok { .. } => Ok(o),
        Outcome::Infra(e) => Err(Violation::new("harness-worker", e.clone())),
        _ => {
            for (id, sig) in sigs_for(prop) {
                if worker::matches_sig(&o, entry_name(entry), &sig) {
                    let mut seen = SEEN.lock().unwrap();
                    if !seen.contains(&id) {
                        seen.push(id.clone());
                    }
                    let label: &'static str = Box::leak(format!("known:{}", id).into_boxed_str());
                    rep.exclude(label);
                    return Ok(o);
                }
            }
            let build = if flavour == worker::Flavour::Unoptimised { "\nbuild: unoptimised (dev profile), 2 MiB case stack" } else { "" };
            Err(Violation::new(&o.kind(), format!("{}\nsignature: {}{}", o.describe(), signature(entry, &o), build)))
        }
    }
}

/// print KNOWN-FINDING lines for the open findings whose signature was met during the campaigns
pub fn flush_known(run: &mut Run) {
    let seen: Vec<String> = SEEN.lock().unwrap().drain(..).collect();
    for id in seen {
        if !run.known_hit.contains(&id) {
            crate::engine::known_line(run.prop, &run.known().what(&id), &id);
            run.known_hit.push(id);
        }
    }
    run.extra.insert("slow_cases_confirmed_not_hanging".into(), serde_json::json!(worker::SLOW_CASES.load(std::sync::atomic::Ordering::Relaxed)));
    run.extra.insert("worker_respawns".into(), serde_json::json!(worker::RESPAWNS.load(std::sync::atomic::Ordering::Relaxed)));
}
