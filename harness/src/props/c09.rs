//! C09 — stream filters decode as specified; compression is lossless (DESIGN.md §7 C09).

use crate::engine::{no_panic, replay_case, CaseReport, Run, Verdict, Violation};
use crate::model::B;
use crate::refimpl::filt::{ascii85, lzw, png, zlibstored};
use crate::viol;
use lopdf::{Dictionary, Document, Object, Stream};
use proptest::collection::vec;
use proptest::prelude::*;
use serde::{Deserialize, Serialize};
use serde_json::Value;

#[derive(Clone, Debug, Serialize, Deserialize)]
pub struct Pred {
    pub predictor: u8, // 10..=15
    pub colors: u8,    // 1..=4
    pub bits: u8,      // 8 | 16
    pub columns: u8,   // 1..=64
    pub row_filters: Vec<u8>,
    /// write Colors / BitsPerComponent / Columns even when they equal the defaults
    pub explicit_defaults: bool,
}

#[derive(Clone, Debug, Serialize, Deserialize)]
pub enum FilterSpec {
    /// level 0..=9 → flate2; 10.. → hand-written stored blocks of that many bytes
    Flate { level: u32, pred: Option<Pred> },
    Lzw { early_change: Option<bool>, pred: Option<Pred> },
    A85 { use_z: bool, ws_every: u8, ws_byte: u8 },
}

#[derive(Clone, Debug, Serialize, Deserialize)]
pub struct Case {
    pub data: B,
    /// in decoding order, as listed in /Filter
    pub chain: Vec<FilterSpec>,
    /// DecodeParms as an array parallel to Filter (always for chains longer than 1)
    pub parms_as_array: bool,
    /// single filter given as a one-element array
    pub filter_as_array: bool,
}

fn pred_geometry(p: &Pred) -> (usize, usize, usize) {
    (p.colors.clamp(1, 4) as usize, if p.bits >= 16 { 16 } else { 8 }, p.columns.clamp(1, 64) as usize)
}

fn pred_dict(p: &Pred, d: &mut Dictionary) {
    let (colors, bits, columns) = pred_geometry(p);
    d.set("Predictor", Object::Integer(p.predictor.clamp(10, 15) as i64));
    if colors != 1 || p.explicit_defaults {
        d.set("Colors", Object::Integer(colors as i64));
    }
    if bits != 8 || p.explicit_defaults {
        d.set("BitsPerComponent", Object::Integer(bits as i64));
    }
    if columns != 1 || p.explicit_defaults {
        d.set("Columns", Object::Integer(columns as i64));
    }
}

fn flate_encode(data: &[u8], level: u32) -> Vec<u8> {
    if level <= 9 {
        use std::io::Write;
        let mut e = flate2::write::ZlibEncoder::new(Vec::new(), flate2::Compression::new(level));
        e.write_all(data).unwrap();
        e.finish().unwrap()
    } else {
        zlibstored::encode_stored(data, (level as usize).clamp(1, 65535))
    }
}

/// Encode `data` for one stage; returns (encoded, params dictionary if any, predictor actually used)
fn encode_stage(spec: &FilterSpec, data: &[u8]) -> (Vec<u8>, Option<Dictionary>, bool) {
    let apply_pred = |pred: &Option<Pred>, data: &[u8], d: &mut Dictionary| -> (Vec<u8>, bool) {
        if let Some(p) = pred {
            let (colors, bits, columns) = pred_geometry(p);
            let row = png::row_len(colors, bits, columns);
            if !data.is_empty() && data.len() % row == 0 && !p.row_filters.is_empty() {
                let filters: Vec<u8> = p.row_filters.iter().map(|f| f % 5).collect();
                pred_dict(p, d);
                return (png::encode(data, colors, bits, columns, &filters), true);
            }
        }
        (data.to_vec(), false)
    };
    match spec {
        FilterSpec::Flate { level, pred } => {
            let mut d = Dictionary::new();
            let (pre, used) = apply_pred(pred, data, &mut d);
            (flate_encode(&pre, *level), if d.is_empty() { None } else { Some(d) }, used)
        }
        FilterSpec::Lzw { early_change, pred } => {
            let mut d = Dictionary::new();
            let (pre, used) = apply_pred(pred, data, &mut d);
            if let Some(ec) = early_change {
                d.set("EarlyChange", Object::Integer(if *ec { 1 } else { 0 }));
            }
            (lzw::encode(&pre, early_change.unwrap_or(true)), if d.is_empty() { None } else { Some(d) }, used)
        }
        FilterSpec::A85 { use_z, ws_every, ws_byte } => {
            let style = ascii85::A85Style { use_z: *use_z, eod: true, whitespace_every: *ws_every as usize, ws_byte: *ws_byte };
            (ascii85::encode(data, &style), None, false)
        }
    }
}

fn filter_name(spec: &FilterSpec) -> &'static str {
    match spec {
        FilterSpec::Flate { .. } => "FlateDecode",
        FilterSpec::Lzw { .. } => "LZWDecode",
        FilterSpec::A85 { .. } => "ASCII85Decode",
    }
}

/// Build the encoded stream for a case. Returns (stream, number of stages with a predictor in effect).
pub fn build_stream(case: &Case, data: &[u8]) -> (Stream, usize) {
    let mut cur = data.to_vec();
    let mut parms: Vec<Option<Dictionary>> = vec![None; case.chain.len()];
    let mut preds = 0;
    for (i, spec) in case.chain.iter().enumerate().rev() {
        let (enc, d, used) = encode_stage(spec, &cur);
        cur = enc;
        parms[i] = d;
        if used {
            preds += 1;
        }
    }
    let mut dict = Dictionary::new();
    let single = case.chain.len() == 1;
    if single && !case.filter_as_array && !case.parms_as_array {
        dict.set("Filter", Object::Name(filter_name(&case.chain[0]).as_bytes().to_vec()));
        if let Some(d) = parms[0].take() {
            dict.set("DecodeParms", Object::Dictionary(d));
        }
    } else {
        dict.set(
            "Filter",
            Object::Array(case.chain.iter().map(|s| Object::Name(filter_name(s).as_bytes().to_vec())).collect()),
        );
        if single && !case.parms_as_array {
            if let Some(d) = parms[0].take() {
                dict.set("DecodeParms", Object::Dictionary(d));
            }
        } else if parms.iter().any(|p| p.is_some()) {
            dict.set(
                "DecodeParms",
                Object::Array(parms.into_iter().map(|p| p.map(Object::Dictionary).unwrap_or(Object::Null)).collect()),
            );
        }
    }
    (Stream::new(dict, cur), preds)
}

fn adjust_data(case: &Case) -> Vec<u8> {
    // make the data a whole number of rows for the innermost predictor, if there is one
    let mut data = case.data.0.clone();
    if let Some(FilterSpec::Flate { pred: Some(p), .. } | FilterSpec::Lzw { pred: Some(p), .. }) = case.chain.last() {
        let (colors, bits, columns) = pred_geometry(p);
        let row = png::row_len(colors, bits, columns);
        let rows = (data.len() / row).max(1).min(64);
        data.resize(rows * row, 0x5a);
    }
    data
}

pub fn check(case: &Case) -> Verdict {
    let mut rep = CaseReport::new();
    if case.chain.is_empty() {
        return Ok(rep);
    }
    let data = adjust_data(case);
    let (stream, preds) = build_stream(case, &data);
    let what = || format!("chain {:?}, dict {:?}", case.chain.iter().map(filter_name).collect::<Vec<_>>(), stream.dict);
    let out = no_panic("decompressed_content", || stream.decompressed_content())?
        .map_err(|e| viol!("decode-error", "decompressed_content returned Err({}) for validly encoded data; {}", e, what()))?;
    if out != data {
        let p = out.iter().zip(data.iter()).position(|(a, b)| a != b).unwrap_or(out.len().min(data.len()));
        return Err(viol!(
            "decode-differs",
            "decoded {} bytes, expected {}; first difference at {}: got {:?} expected {:?}; {}",
            out.len(),
            data.len(),
            p,
            B(out[p..out.len().min(p + 12)].to_vec()),
            B(data[p..data.len().min(p + 12)].to_vec()),
            what()
        ));
    }
    let out2 = no_panic("get_plain_content", || stream.get_plain_content())?.map_err(|e| viol!("decode-error", "get_plain_content: {}", e))?;
    if out2 != data {
        return Err(viol!("decode-differs", "get_plain_content differs from the original; {}", what()));
    }
    let mut s2 = stream.clone();
    no_panic("decompress", || s2.decompress())?.map_err(|e| viol!("decode-error", "decompress: {}", e))?;
    if s2.content != data || s2.dict.has(b"Filter") || s2.dict.has(b"DecodeParms") {
        return Err(viol!("decode-differs", "decompress() left content/filters inconsistent; {}", what()));
    }
    length_ok(&s2, "after decompress")?;
    for s in &case.chain {
        match s {
            FilterSpec::Flate { level, .. } => {
                rep.label("flate");
                rep.label_if(*level > 9, "flate-stored-blocks");
            }
            FilterSpec::Lzw { early_change, .. } => {
                rep.label("lzw");
                rep.label_if(*early_change == Some(false), "lzw-earlychange-0");
                rep.label_if(early_change.is_none(), "lzw-earlychange-absent");
            }
            FilterSpec::A85 { .. } => rep.label("ascii85"),
        }
    }
    rep.label_if(case.chain.len() >= 2, "chain>=2");
    rep.label_if(case.chain.len() >= 3, "chain=3");
    rep.label_if(preds > 0, "predictor");
    rep.label_if(stream.dict.get(b"DecodeParms").map(|o| o.as_array().is_ok()).unwrap_or(false), "parms-array");
    rep.label_if(stream.dict.get(b"DecodeParms").map(|o| o.as_dict().is_ok()).unwrap_or(false), "parms-dict");
    let partial = case.chain.iter().any(|s| matches!(s, FilterSpec::A85 { .. }));
    let mut rows_filtered = 0;
    if preds > 0 {
        if let Some(FilterSpec::Flate { pred: Some(p), .. } | FilterSpec::Lzw { pred: Some(p), .. }) = case.chain.last() {
            let (c, b, col) = pred_geometry(p);
            let rows = data.len() / png::row_len(c, b, col);
            rows_filtered = (0..rows).filter(|i| p.row_filters[i % p.row_filters.len()] % 5 != 0).count();
            rep.label_if(p.bits >= 16, "bpc16");
            rep.label_if(p.row_filters.iter().any(|f| f % 5 == 3), "row-average");
            rep.label_if(p.row_filters.iter().any(|f| f % 5 == 4), "row-paeth");
        }
    }
    rep.nontrivial = rows_filtered >= 2 || case.chain.len() >= 2 || (partial && data.len() % 4 != 0);
    Ok(rep)
}

fn length_ok(s: &Stream, what: &str) -> Result<(), Violation> {
    match s.dict.get(b"Length") {
        Ok(Object::Integer(l)) if *l == s.content.len() as i64 => Ok(()),
        other => Err(viol!("length-stale", "{}: Length entry {:?} but content has {} bytes", what, other.ok(), s.content.len())),
    }
}

// ---------- PNG rows straight through decode_row ----------

#[derive(Clone, Debug, Serialize, Deserialize)]
pub struct RowCase {
    pub filter: u8,
    pub bpp: u8,
    pub prev: B,
    pub cur: B,
}

fn ref_unfilter_row(filter: u8, bpp: usize, prev: &[u8], cur: &[u8]) -> Vec<u8> {
    // via the reference *decoder* of REF-FILT on a two-row image: colors = bpp, bits = 8, columns = len / bpp
    let mut out = cur.to_vec();
    for i in 0..out.len() {
        let a = if i >= bpp { out[i - bpp] } else { 0 };
        let b = prev[i];
        let c = if i >= bpp { prev[i - bpp] } else { 0 };
        let pred = match filter {
            0 => 0,
            1 => a,
            2 => b,
            3 => ((a as u16 + b as u16) / 2) as u8,
            _ => png::paeth(a, b, c),
        };
        out[i] = out[i].wrapping_add(pred);
    }
    out
}

pub fn check_row(case: &RowCase) -> Verdict {
    use lopdf::filters::png as lp;
    let mut rep = CaseReport::new();
    let bpp = (case.bpp as usize).clamp(1, 8);
    let len = (case.cur.0.len() / bpp) * bpp;
    if len == 0 {
        return Ok(rep);
    }
    let cur = &case.cur.0[..len];
    let mut prev = case.prev.0.clone();
    prev.resize(len, 0);
    let f = case.filter % 5;
    let ft = match f {
        0 => lp::FilterType::None,
        1 => lp::FilterType::Sub,
        2 => lp::FilterType::Up,
        3 => lp::FilterType::Avg,
        _ => lp::FilterType::Paeth,
    };
    let mut got = cur.to_vec();
    no_panic("png::decode_row", || lp::decode_row(ft, bpp, &prev, &mut got))?;
    let exp = ref_unfilter_row(f, bpp, &prev, cur);
    if got != exp {
        return Err(viol!("decode-differs", "decode_row filter {} bpp {}: got {:?} expected {:?} (prev {:?}, raw {:?})", f, bpp, B(got), B(exp), B(prev), B(cur.to_vec())));
    }
    rep.label(["row-none", "row-sub", "row-up", "row-average", "row-paeth"][f as usize]);
    rep.nontrivial = f != 0 && len > bpp;
    Ok(rep)
}

// ---------- exhaustive sweeps ----------

#[derive(Clone, Debug, Serialize, Deserialize)]
pub struct PaethBlock {
    pub left: u8,
}

pub fn check_paeth_block(b: &PaethBlock) -> Verdict {
    use lopdf::filters::png as lp;
    let a = b.left;
    for above in 0..=255u8 {
        for ul in 0..=255u8 {
            let prev = [ul, above];
            // first byte decodes to `a`: its Paeth predictor is paeth(0, ul, 0)
            let mut cur = [a.wrapping_sub(png::paeth(0, ul, 0)), 0u8];
            lp::decode_row(lp::FilterType::Paeth, 1, &prev, &mut cur);
            let exp = png::paeth(a, above, ul);
            if cur[0] != a || cur[1] != exp {
                return Err(viol!("decode-differs", "Paeth predictor for (left {}, above {}, upper-left {}): got {} expected {}", a, above, ul, cur[1], exp));
            }
        }
    }
    let mut rep = CaseReport::new();
    rep.nontrivial = true;
    Ok(rep)
}

#[derive(Clone, Debug, Serialize, Deserialize)]
pub struct A85Block {
    /// length of the final partial group (1..=3) and its first byte; remaining bytes enumerated inside
    pub k: u8,
    pub first: u8,
    pub prefix_groups: u8,
    pub use_z: bool,
    pub ws: bool,
}

pub fn check_a85_block(b: &A85Block) -> Verdict {
    let mut rep = CaseReport::new();
    let run = |tail: &[u8]| -> Result<(), Violation> {
        let mut data = vec![];
        for g in 0..b.prefix_groups {
            data.extend_from_slice(if g % 2 == 0 { &[0, 0, 0, 0] } else { &[0xde, 0xad, 0xbe, 0xef] });
        }
        data.extend_from_slice(tail);
        let style = ascii85::A85Style { use_z: b.use_z, eod: true, whitespace_every: if b.ws { 3 } else { 0 }, ws_byte: b'\n' };
        let enc = ascii85::encode(&data, &style);
        let mut d = Dictionary::new();
        d.set("Filter", Object::Name(b"ASCII85Decode".to_vec()));
        let s = Stream::new(d, enc.clone());
        let out = s.decompressed_content().map_err(|e| viol!("decode-error", "ASCII85 {:?}: {}", B(enc.clone()), e))?;
        if out != data {
            return Err(viol!("decode-differs", "ASCII85 {:?} decodes to {:?}, expected {:?}", B(enc), B(out), B(data)));
        }
        Ok(())
    };
    match b.k {
        1 => run(&[b.first])?,
        2 => {
            for x in 0..=255u8 {
                run(&[b.first, x])?
            }
        }
        _ => {
            // 3-byte groups: second byte enumerated, third sampled on a stride that covers all residues mod 85
            for x in 0..=255u8 {
                for y in (0..=255u8).step_by(3) {
                    run(&[b.first, x, y.wrapping_add(b.first)])?
                }
            }
        }
    }
    rep.nontrivial = true;
    Ok(rep)
}

// ---------- compression laws ----------

#[derive(Clone, Debug, Serialize, Deserialize)]
pub enum SOp {
    SetContent(B),
    SetPlain(B),
    Compress,
    Decompress,
    DocCompress,
    DocDecompress,
    ChangeContentStream(B),
}

#[derive(Clone, Debug, Serialize, Deserialize)]
pub struct LawCase {
    pub initial: Case,
    pub allows_compression: bool,
    pub ops: Vec<SOp>,
}

pub fn check_laws(case: &LawCase) -> Verdict {
    let mut rep = CaseReport::new();
    let data0 = if case.initial.chain.is_empty() { case.initial.data.0.clone() } else { adjust_data(&case.initial) };
    let (mut stream, _) = if case.initial.chain.is_empty() {
        (Stream::new(Dictionary::new(), data0.clone()), 0)
    } else {
        build_stream(&case.initial, &data0)
    };
    stream.allows_compression = case.allows_compression;
    let mut doc = Document::with_version("1.5");
    let id = doc.add_object(Object::Stream(stream));
    // a second stream that never allows compression must stay untouched by Document::compress
    let frozen_src = Stream::new(Dictionary::new(), vec![b'a'; 400]).with_compression(false);
    let frozen_id = doc.add_object(Object::Stream(frozen_src.clone()));
    let mut plain = data0;
    let mut compress_seen = false;
    let mut filtered_then_compress = false;
    for (i, op) in case.ops.iter().enumerate() {
        let what = format!("op #{} {:?}", i, op_name(op));
        let before_len = doc.objects[&id].as_stream().unwrap().content.len();
        let had_filter = doc.objects[&id].as_stream().unwrap().dict.has(b"Filter");
        match op {
            SOp::SetContent(c) => {
                // raw content must match the filters currently declared: only used when there is no filter
                let s = doc.objects.get_mut(&id).unwrap().as_stream_mut().unwrap();
                if !s.dict.has(b"Filter") {
                    s.set_content(c.0.clone());
                    plain = c.0.clone();
                } else {
                    rep.exclude("set_content-on-filtered-stream");
                }
            }
            SOp::SetPlain(c) => {
                doc.objects.get_mut(&id).unwrap().as_stream_mut().unwrap().set_plain_content(c.0.clone());
                plain = c.0.clone();
            }
            SOp::Compress => {
                let s = doc.objects.get_mut(&id).unwrap().as_stream_mut().unwrap();
                no_panic("Stream::compress", || s.compress())?.map_err(|e| viol!("compress-error", "{}: {}", what, e))?;
                compress_seen = true;
                filtered_then_compress |= had_filter;
            }
            SOp::Decompress => {
                let s = doc.objects.get_mut(&id).unwrap().as_stream_mut().unwrap();
                let r = no_panic("Stream::decompress", || s.decompress())?;
                if had_filter {
                    // a validly encoded stream must decode; an unfiltered one may answer Err (nothing to do)
                    r.map_err(|e| viol!("decode-error", "{}: decompress of a validly encoded stream: {}", what, e))?;
                }
                if s.dict.has(b"Filter") || s.content != plain {
                    return Err(viol!("compress-not-lossless", "{}: decompress() did not produce the plain content", what));
                }
            }
            SOp::DocCompress => {
                no_panic("Document::compress", || doc.compress())?;
                compress_seen = true;
            }
            SOp::DocDecompress => {
                no_panic("Document::decompress", || doc.decompress())?;
                let s = doc.objects[&id].as_stream().unwrap();
                if s.dict.has(b"Filter") || s.content != plain {
                    return Err(viol!("compress-not-lossless", "{}: Document::decompress did not produce the plain content", what));
                }
            }
            SOp::ChangeContentStream(c) => {
                no_panic("change_content_stream", || doc.change_content_stream(id, c.0.clone()))?;
                plain = c.0.clone();
                compress_seen = true;
            }
        }
        let s = doc.objects[&id].as_stream().unwrap();
        length_ok(s, &what)?;
        let dec = no_panic("get_plain_content", || s.get_plain_content())?.map_err(|e| viol!("compress-not-lossless", "{}: content no longer decodes: {}", what, e))?;
        if dec != plain {
            return Err(viol!("compress-not-lossless", "{}: decoded content differs from the plain content the edits imply ({} vs {} bytes)", what, dec.len(), plain.len()));
        }
        if matches!(op, SOp::Compress | SOp::DocCompress) && s.content.len() > before_len {
            return Err(viol!("compress-grew", "{}: content grew from {} to {} bytes", what, before_len, s.content.len()));
        }
        if matches!(op, SOp::DocCompress) && !case.allows_compression && (s.content.len() != before_len || s.dict.has(b"Filter") != had_filter) {
            return Err(viol!("compress-touched-frozen", "{}: Document::compress changed a stream with allows_compression = false", what));
        }
        let fz = doc.objects[&frozen_id].as_stream().unwrap();
        if matches!(op, SOp::DocCompress | SOp::Compress | SOp::ChangeContentStream(_) | SOp::SetContent(_) | SOp::SetPlain(_)) && (fz.content != frozen_src.content || fz.dict.has(b"Filter")) {
            return Err(viol!("compress-touched-frozen", "{}: the allows_compression = false stream was modified", what));
        }
        length_ok(fz, &what)?;
    }
    rep.label_if(compress_seen, "compress");
    rep.label_if(filtered_then_compress, "compress-on-filtered");
    rep.label_if(!case.allows_compression, "frozen-main-stream");
    rep.label_if(!case.initial.chain.is_empty(), "starts-encoded");
    rep.nontrivial = case.ops.len() >= 2 && compress_seen;
    Ok(rep)
}

fn op_name(op: &SOp) -> &'static str {
    match op {
        SOp::SetContent(_) => "set_content",
        SOp::SetPlain(_) => "set_plain_content",
        SOp::Compress => "compress",
        SOp::Decompress => "decompress",
        SOp::DocCompress => "Document::compress",
        SOp::DocDecompress => "Document::decompress",
        SOp::ChangeContentStream(_) => "change_content_stream",
    }
}

// ---------- strategies ----------

fn pred_strategy() -> BoxedStrategy<Pred> {
    (10u8..=15, 1u8..=4, prop_oneof![Just(8u8), Just(16u8)], prop_oneof![3 => 1u8..=8, 1 => 1u8..=64], vec(0u8..5, 1..6), any::<bool>())
        .prop_map(|(predictor, colors, bits, columns, row_filters, explicit_defaults)| Pred { predictor, colors, bits, columns, row_filters, explicit_defaults })
        .boxed()
}

fn ws_byte_strategy(nul_ok: bool) -> BoxedStrategy<u8> {
    if nul_ok {
        prop_oneof![Just(b' '), Just(b'\n'), Just(b'\r'), Just(b'\t'), Just(0x0c), Just(0u8)].boxed()
    } else {
        prop_oneof![Just(b' '), Just(b'\n'), Just(b'\r'), Just(b'\t'), Just(0x0c)].boxed()
    }
}

fn spec_strategy(nul_ok: bool) -> BoxedStrategy<FilterSpec> {
    prop_oneof![
        (prop_oneof![3 => 0u32..=9, 1 => 10u32..300], proptest::option::weighted(0.6, pred_strategy())).prop_map(|(level, pred)| FilterSpec::Flate { level, pred }),
        (proptest::option::of(any::<bool>()), proptest::option::weighted(0.5, pred_strategy())).prop_map(|(early_change, pred)| FilterSpec::Lzw { early_change, pred }),
        (any::<bool>(), prop_oneof![Just(0u8), 1u8..80], ws_byte_strategy(nul_ok)).prop_map(|(use_z, ws_every, ws_byte)| FilterSpec::A85 { use_z, ws_every, ws_byte }),
    ]
    .boxed()
}

fn data_strategy(max: usize) -> BoxedStrategy<Vec<u8>> {
    prop_oneof![
        4 => vec(any::<u8>(), 0..max),
        2 => vec(prop_oneof![Just(0u8), Just(0xffu8), Just(0x80u8), any::<u8>()], 0..max),
        2 => (vec(any::<u8>(), 1..8), 1usize..200).prop_map(|(p, n)| p.iter().cycle().take(p.len() * n).cloned().collect()),
        1 => (any::<u8>(), 0usize..6000).prop_map(|(b, n)| vec![b; n]),
    ]
    .boxed()
}

fn case_strategy(max: usize, nul_ok: bool, min_chain: usize) -> BoxedStrategy<Case> {
    (data_strategy(max), vec(spec_strategy(nul_ok), min_chain..=3), any::<bool>(), any::<bool>())
        .prop_map(|(data, chain, parms_as_array, filter_as_array)| Case { data: B(data), chain, parms_as_array, filter_as_array })
        .boxed()
}

pub fn run(run: &mut Run) {
    run.rule = "decode: byte strings (0..4 KiB; whole rows for predictors) encoded by REFERENCE encoders (own LZW, ASCII85, PNG predictor, stored-deflate; flate2 levels 0-9) along chains of 1..3 filters with predictors 10-15, Colors 1-4, BPC 8/16, Columns 1-64, EarlyChange 0/1/absent, parameters as dictionary or parallel array with null holes; oracle: decompressed_content / get_plain_content / decompress return the original bytes. rows: png::decode_row vs the PNG specification for every filter type x bpp 1..8. exhaustive: all 2^24 (left, above, upper-left) Paeth triples; all final partial ASCII85 groups of 1 and 2 bytes and 256x256x86 of 3 bytes, with/without z and white-space. laws: op sequences over set_content/set_plain_content/compress/decompress/Document::compress/Document::decompress/change_content_stream with Length == content length, lossless decode, no growth, frozen streams untouched after every step. non-trivial = >=2 filtered rows, or chain >= 2, or a partial ASCII85 group / >=2 ops incl. a compress.".into();
    run.assumptions = vec![
        "REF-FILT encoders are correct (own reference decoders + weezl/flate2 cross-checks in the harness unit tests)".into(),
        "flate2 is trusted as a primitive for levels 0-9 (it is also lopdf's inflater); stored-block streams are hand-written".into(),
        "ASCII85 data always carries the ~> EOD marker (its absence is C04's domain)".into(),
    ];
    run.replay_known_demos(replay);
    let nul_ok = !run.finding_open("C09-ascii85-nul-whitespace");
    let n = run.tier.pick(20_000, 600_000);
    run.campaign("decode", || case_strategy(4096, nul_ok, 1), n, check, |_c, _v| None);
    let nr = run.tier.pick(20_000, 400_000);
    run.campaign(
        "rows",
        || (0u8..5, 1u8..=8, vec(any::<u8>(), 0..48), vec(any::<u8>(), 1..48)).prop_map(|(filter, bpp, prev, cur)| RowCase { filter, bpp, prev: B(prev), cur: B(cur) }),
        nr,
        check_row,
        |_c, _v| None,
    );
    run.enumerated("paeth-triples", (0..=255u8).map(|left| PaethBlock { left }), true, "all 2^24 (left, above, upper-left) triples, 65536 per block", check_paeth_block);
    let mut blocks = vec![];
    for k in 1..=3u8 {
        for first in 0..=255u8 {
            blocks.push(A85Block { k, first, prefix_groups: first % 3, use_z: first % 2 == 0, ws: first % 5 == 0 });
        }
    }
    run.enumerated("ascii85-partial-groups", blocks, true, "every final partial group: 256 one-byte, 65536 two-byte, 256x256x86 three-byte groups, after 0..2 full groups (incl. an all-zero one), with/without z and white-space", check_a85_block);
    let nl = run.tier.pick(8_000, 200_000);
    run.campaign(
        "compress-laws",
        || {
            let op = prop_oneof![
                2 => data_strategy(600).prop_map(|d| SOp::SetContent(B(d))),
                2 => data_strategy(600).prop_map(|d| SOp::SetPlain(B(d))),
                3 => Just(SOp::Compress),
                2 => Just(SOp::Decompress),
                2 => Just(SOp::DocCompress),
                1 => Just(SOp::DocDecompress),
                2 => data_strategy(600).prop_map(|d| SOp::ChangeContentStream(B(d))),
            ];
            (case_strategy(1500, nul_ok, 0), prop::bool::weighted(0.8), vec(op, 1..8)).prop_map(|(initial, allows_compression, ops)| LawCase { initial, allows_compression, ops })
        },
        nl,
        check_laws,
        |_c, _v| None,
    );
}

pub fn replay(file: &Value) -> Result<Verdict, String> {
    match file.get("campaign").and_then(|c| c.as_str()).unwrap_or("decode") {
        "rows" => Ok(check_row(&replay_case::<RowCase>(file)?)),
        "paeth-triples" => Ok(check_paeth_block(&replay_case::<PaethBlock>(file)?)),
        "ascii85-partial-groups" => Ok(check_a85_block(&replay_case::<A85Block>(file)?)),
        "compress-laws" => Ok(check_laws(&replay_case::<LawCase>(file)?)),
        _ => Ok(check(&replay_case::<Case>(file)?)),
    }
}
