//! C13 — read-only queries are total on arbitrary object graphs (DESIGN.md §7 C13).

use super::crash::{crash_check, flush_known};
use super::entries::{GraphSpec, E_QUERIES};
use crate::engine::{replay_case, CaseReport, Run, Verdict};
use crate::gen::chaos;
use crate::model::AObj;
use proptest::prelude::*;
use serde_json::Value;
use std::collections::{BTreeMap, BTreeSet};

const FOLLOWED: &[&str] = &["Parent", "Kids", "Next", "First", "Contents", "Resources", "Length", "Pages", "Outlines", "A", "Dest", "Names", "Dests", "ToUnicode", "Font", "XObject", "Annots"];

/// is there a reference cycle through keys that some walker follows?
fn has_cycle(g: &GraphSpec) -> bool {
    let mut edges: BTreeMap<u32, BTreeSet<u32>> = BTreeMap::new();
    for (n, _, o) in &g.objects {
        let mut out = BTreeSet::new();
        let mut visit = |d: &crate::model::ADict| {
            for (k, v) in d {
                // Parent <-> Kids is the one cycle every well-formed document has: not counted
                if k.0 != b"Parent" && FOLLOWED.iter().any(|f| f.as_bytes() == &k.0[..]) {
                    v.visit(&mut |x| {
                        if let AObj::Ref(m, _) = x {
                            out.insert(*m);
                        }
                    });
                }
            }
        };
        match o {
            AObj::Dict(d) | AObj::Stream(d, _) => visit(d),
            AObj::Ref(m, _) => {
                out.insert(*m);
            }
            AObj::Array(a) => a.iter().for_each(|x| {
                if let AObj::Ref(m, _) = x {
                    out.insert(*m);
                }
            }),
            _ => {}
        }
        edges.insert(*n, out);
    }
    // DFS cycle detection
    let mut state: BTreeMap<u32, u8> = BTreeMap::new();
    fn dfs(n: u32, edges: &BTreeMap<u32, BTreeSet<u32>>, state: &mut BTreeMap<u32, u8>) -> bool {
        match state.get(&n) {
            Some(1) => return true,
            Some(2) => return false,
            _ => {}
        }
        state.insert(n, 1);
        if let Some(out) = edges.get(&n) {
            for m in out {
                if dfs(*m, edges, state) {
                    return true;
                }
            }
        }
        state.insert(n, 2);
        false
    }
    let keys: Vec<u32> = edges.keys().cloned().collect();
    keys.into_iter().any(|n| dfs(n, &edges, &mut state))
}

fn ill_typed(g: &GraphSpec) -> bool {
    // a followed key bound to a value of a kind a well-formed file never has there
    fn ok(key: &[u8], v: &AObj) -> bool {
        match key {
            b"Kids" | b"Annots" | b"Names" => matches!(v, AObj::Array(_) | AObj::Ref(..) | AObj::Dict(_)),
            b"Parent" | b"Next" | b"First" | b"Pages" | b"Outlines" | b"ToUnicode" | b"A" | b"Dests" => matches!(v, AObj::Ref(..) | AObj::Dict(_)),
            b"Contents" => matches!(v, AObj::Ref(..) | AObj::Array(_)),
            b"Resources" | b"Font" | b"XObject" => matches!(v, AObj::Ref(..) | AObj::Dict(_)),
            b"Dest" => matches!(v, AObj::Array(_) | AObj::Str(..) | AObj::Ref(..) | AObj::Name(_)),
            b"Length" => matches!(v, AObj::Int(_) | AObj::Ref(..)),
            _ => true,
        }
    }
    g.objects.iter().any(|(_, _, o)| match o {
        AObj::Dict(d) | AObj::Stream(d, _) => d.iter().any(|(k, v)| !ok(&k.0, v)),
        _ => false,
    })
}

pub fn check(case: &GraphSpec) -> Verdict {
    check_in(crate::worker::Flavour::Release, case)
}

/// the wrapped graph, queried in the worker compiled without optimisation (2 MiB case stack)
#[derive(Clone, Debug, serde::Serialize, serde::Deserialize)]
pub struct UnoptimisedCase {
    pub unoptimised: GraphSpec,
}

pub fn check_unoptimised(case: &UnoptimisedCase) -> Verdict {
    check_in(crate::worker::Flavour::Unoptimised, &case.unoptimised)
}

fn check_in(flavour: crate::worker::Flavour, case: &GraphSpec) -> Verdict {
    let mut rep = CaseReport::new();
    let payload = serde_json::to_vec(case).unwrap();
    let o = super::crash::crash_check_in(flavour, "C13", E_QUERIES, &payload, &mut rep)?;
    rep.label_if(flavour == crate::worker::Flavour::Unoptimised, "unoptimised-build");
    rep.label_if(case.objects.len() >= 100, "objects>=100");
    rep.label_if(case.objects.len() >= 1000, "objects>=1000");
    let cyc = has_cycle(case);
    let ill = ill_typed(case);
    rep.label_if(cyc, "cycle-through-followed-key");
    rep.label_if(ill, "ill-typed-followed-key");
    rep.label_if(case.objects.iter().any(|(_, _, o)| { let mut d = false; o.visit(&mut |x| if let AObj::Ref(n, _) = x { d |= *n as usize > case.objects.len() }); d }), "dangling-ref");
    if let crate::worker::Outcome::Ok { summary, .. } = &o {
        rep.label_if(!summary.starts_with("pages=0 "), "has-pages");
    }
    rep.nontrivial = (cyc && ill) || case.objects.len() >= 100;
    Ok(rep)
}

pub fn run(run: &mut Run) {
    run.rule = "cases: typed-chaos documents: a plausible skeleton (catalog, two-level page tree, resources, Type0 font with ToUnicode, outline chain, name tree, image XObject, content stream) whose entries are overwritten by 0..11 chaos mutations binding any key the query code reads to a value of random kind (existing / dangling / self references, arrays of length 0..3, integer extremes, names from the vocabulary the code matches on, strings with BOMs and odd lengths, nested dictionaries) plus extra random objects. Every public read-only query (catalog, pages, page content/resources/fonts/annotations/images, text extraction, outlines, named destinations, table of contents, font encodings, stream decoding, dereference, datetime) is called for every object id inside the isolated worker (8 MiB stack, allocation limits, watchdog). Oracle: totality (no panic, abort, stack overflow, confirmed hang, oversized allocation). Campaign 'long-chains': a valid skeleton plus 1..3000 objects linked through one followed key (/Parent above a page, nested /Pages through /Kids, outline siblings through /Next, outline nesting through /First, name-tree nesting through /Kids), ending properly, dangling, in a cycle or in a self-link. Campaign 'ladders': 4..70 levels of two nodes, each linking to both nodes of the next level (name tree, outline, page tree). Campaign 'unoptimised-build': both generators against a worker compiled without optimisation (dev profile, 2 MiB case stack). non-trivial = (a reference cycle through a key a walker follows AND an ill-typed value under such a key) or >= 100 objects; distinct by case hash.".into();
    run.assumptions = vec!["a query answering Err/None/empty is a pass; only the process-level outcome is judged".into(), "watchdog 10 s, confirmed alone with 60 s before a hang is reported".into()];
    run.replay_known_demos(replay);
    let n = run.tier.pick(60_000, 1_500_000);
    run.campaign("chaos-graphs", chaos::graph_strategy, n, check, |_c, _v| None);
    // depth as a generated quantity: up to 3000 objects linked through one followed key
    run.campaign("long-chains", chaos::chain_strategy, run.tier.pick(400, 20_000), check, |_c, _v| None);
    // shared nodes on many consecutive levels: linear for a walker that remembers what it visited, 2^levels otherwise
    run.campaign("ladders", chaos::ladder_strategy, run.tier.pick(200, 5_000), check, |_c, _v| None);
    // both generators against lopdf compiled without optimisation (what `cargo test` and debug builds of a caller run)
    let unopt = || prop_oneof![2 => chaos::graph_strategy(), 1 => chaos::chain_strategy()].prop_map(|g| UnoptimisedCase { unoptimised: g });
    run.campaign("unoptimised-build", unopt, run.tier.pick(500, 8_000), check_unoptimised, |_c, _v| None);
    crate::engine::libfuzzer::phase(run, super::fuzzdec::TARGETS_C13, &|_entry, payload| serde_json::to_value(RawFileCase { raw_file: crate::model::B(payload.to_vec()) }).unwrap());
    flush_known(run);
}

/// a file found by the libFuzzer target: loaded, then queried
#[derive(Clone, Debug, serde::Serialize, serde::Deserialize)]
pub struct RawFileCase {
    pub raw_file: crate::model::B,
}

pub fn check_raw(case: &RawFileCase) -> Verdict {
    let mut rep = CaseReport::new();
    crash_check("C13", super::entries::E_FILEQUERIES, &case.raw_file.0, &mut rep)?;
    rep.nontrivial = true;
    Ok(rep)
}

pub fn replay(file: &Value) -> Result<Verdict, String> {
    if let Ok(raw) = replay_case::<RawFileCase>(file) {
        return Ok(check_raw(&raw));
    }
    if let Ok(u) = replay_case::<UnoptimisedCase>(file) {
        return Ok(check_unoptimised(&u));
    }
    Ok(check(&replay_case::<GraphSpec>(file)?))
}
