//! C04 — parsing untrusted bytes never panics, aborts or hangs (DESIGN.md §7 C04).

use super::c02::{wfile_strategy, WOpts};
use super::crash::flush_known;
use super::entries::*;
use crate::engine::{replay_case, CaseReport, Run, Verdict};
use crate::gen::mutate::{self, Base, Mut};
use crate::gen::objects::{self as g, DocOpts};
use crate::model::{ADict, AObj, B};
use crate::worker::Outcome;
use proptest::collection::vec;
use proptest::prelude::*;
use serde::{Deserialize, Serialize};
use serde_json::Value;

#[derive(Clone, Debug, Serialize, Deserialize)]
pub enum Case {
    /// structure-aware mutant of a valid file, loaded as a document (inc = through IncrementalDocument)
    Load { inc: bool, base: Base, muts: Vec<Mut> },
    /// raw bytes for a byte-level entry point
    Raw { entry: u8, bytes: B },
    /// a stream handed to a stream-level entry point (filters, object stream, xref stream)
    Stream { entry: u8, spec: StreamSpec },
    CMap(CMapSpec),
    /// the wrapped case, run in the worker compiled without optimisation (2 MiB case stack)
    Unoptimised(Box<Case>),
}

impl Case {
    pub fn materialise(&self) -> (u8, Vec<u8>) {
        match self {
            Case::Load { inc, base, muts } => (if *inc { E_INCLOAD } else { E_LOAD }, mutate::apply(base.render(), muts)),
            Case::Raw { entry, bytes } => (*entry, bytes.0.clone()),
            Case::Stream { entry, spec } => (*entry, serde_json::to_vec(spec).unwrap()),
            Case::CMap(spec) => (E_CMAP, serde_json::to_vec(spec).unwrap()),
            Case::Unoptimised(inner) => inner.materialise(),
        }
    }
}

pub fn check(case: &Case) -> Verdict {
    let mut rep = CaseReport::new();
    let (entry, mut payload) = case.materialise();
    if payload.len() > 70_000 {
        payload.truncate(70_000);
        rep.exclude("input-truncated-to-64KiB");
    }
    let flavour = if matches!(case, Case::Unoptimised(_)) { crate::worker::Flavour::Unoptimised } else { crate::worker::Flavour::Release };
    let o = super::crash::crash_check_in(flavour, "C04", entry, &payload, &mut rep)?;
    rep.label_if(flavour == crate::worker::Flavour::Unoptimised, "unoptimised-build");
    rep.label(entry_name(entry));
    if let Outcome::Ok { summary, .. } = &o {
        let trivial = summary.contains("InvalidFileHeader") || summary.contains("Xref(Start)") || summary.starts_with("bad-payload");
        rep.label_if(summary.starts_with("loaded"), "loads-ok");
        rep.label_if(summary.starts_with("err:"), "rejected-cleanly");
        rep.nontrivial = !trivial;
    } else {
        // tolerated known finding
        rep.nontrivial = true;
    }
    let inner = if let Case::Unoptimised(i) = case { i.as_ref() } else { case };
    if let Case::Load { base, .. } = inner {
        rep.label(match base {
            Base::W(_) => "base-reference-writer",
            Base::L(..) => "base-lopdf-writer",
            Base::Asset(_) => "base-repo-asset",
            Base::Raw(_) => "base-raw",
        });
    }
    Ok(rep)
}

// ------------------------------------------------------------------ generators

fn small_wopts() -> WOpts {
    let mut doc = DocOpts::default();
    doc.max_objects = 8;
    doc.obj.max_str = 16;
    doc.obj.allow_nul_in_names = false;
    doc.obj.deep_parens = false;
    WOpts { doc, max_revisions: 3, raw_eol: true, junk: true }
}

fn base_strategy() -> BoxedStrategy<Base> {
    let o = small_wopts();
    prop_oneof![
        5 => wfile_strategy(o).prop_map(Base::W),
        2 => (g::document(o.doc), any::<bool>()).prop_map(|(d, xs)| Base::L(d, xs)),
        3 => (0u8..3).prop_map(Base::Asset),
    ]
    .boxed()
}

pub fn load_strategy() -> BoxedStrategy<Case> {
    (any::<bool>(), base_strategy(), vec(mutate::mut_strategy(), 0..6)).prop_map(|(inc, base, muts)| Case::Load { inc, base, muts }).boxed()
}

pub fn mini_file(body: &[u8]) -> Vec<u8> {
    let mut f = b"%PDF-1.5\n1 0 obj\n".to_vec();
    f.extend_from_slice(body);
    f.extend_from_slice(b"\nendobj\n");
    let off = f.len();
    f.extend_from_slice(b"xref\n0 2\n0000000000 65535 f \n0000000009 00000 n \ntrailer\n<</Size 2/Root 1 0 R>>\nstartxref\n");
    f.extend_from_slice(off.to_string().as_bytes());
    f.extend_from_slice(b"\n%%EOF");
    f
}

/// nesting ladders: depth from a ladder, opener kind, closed or not
fn ladder_strategy(max_depth: usize) -> BoxedStrategy<Case> {
    let depths: Vec<usize> = [1usize, 10, 50, 99, 100, 101, 150, 200].into_iter().chain([300, 500, 1000, 2000, 5000, 10000, 20000]).filter(|d| *d <= max_depth).collect();
    (0..depths.len(), 0u8..5, any::<bool>(), 0u8..4).prop_map(move |(di, kind, closed, wrap)| {
        let d = depths[di];
        let (open, close): (&[u8], &[u8]) = match kind {
            0 => (b"[", b"]"),
            1 => (b"<</a", b">>"),
            2 => (b"(", b")"),
            3 => (b"[<</K[", b"]>>]"),
            _ => (b"<</a[", b"]>>"),
        };
        let mut body = Vec::new();
        for _ in 0..d {
            body.extend_from_slice(open);
        }
        body.extend_from_slice(b" 1 ");
        if closed {
            for _ in 0..d {
                body.extend_from_slice(close);
            }
        }
        match wrap {
            0 => Case::Raw { entry: E_LOAD, bytes: B(mini_file(&body)) },
            1 => {
                body.extend_from_slice(b" Tj\n");
                Case::Raw { entry: E_CONTENT, bytes: B(body) }
            }
            2 => {
                let mut content = b"5 0 ".to_vec();
                let first = content.len();
                content.extend_from_slice(&body);
                Case::Stream { entry: E_OBJSTM, spec: StreamSpec { dict: vec![(B::from("N"), AObj::Int(1)), (B::from("First"), AObj::Int(first as i64))], content: B(content) } }
            }
            _ => Case::Raw { entry: E_INCLOAD, bytes: B(mini_file(&body)) },
        }
    })
    .boxed()
}

fn extreme_int() -> BoxedStrategy<i64> {
    prop_oneof![
        4 => -2i64..12,
        3 => prop_oneof![Just(i64::MAX), Just(i64::MIN), Just(1i64 << 62), Just(u32::MAX as i64), Just(u32::MAX as i64 + 1), Just(i32::MAX as i64), Just(i32::MAX as i64 + 1), Just(65535), Just(65536), Just(255), Just(256), Just(1 << 31), Just(1 << 40), Just(1 << 56), Just(-1), Just(9), Just(16), Just(1_000_000_000_000_000_000)],
        1 => any::<i64>(),
    ]
    .boxed()
}

fn int_or_junk() -> BoxedStrategy<AObj> {
    prop_oneof![
        10 => extreme_int().prop_map(AObj::Int),
        1 => Just(AObj::Null),
        1 => Just(AObj::name("X")),
        1 => Just(AObj::real(1.5)),
        1 => Just(AObj::Ref(1, 0)),
        1 => Just(AObj::Array(vec![])),
    ]
    .boxed()
}

fn dict_of(entries: Vec<(&'static str, AObj)>) -> ADict {
    entries.into_iter().map(|(k, v)| (B::from(k), v)).collect()
}

fn xref_stream_strategy() -> BoxedStrategy<Case> {
    (
        vec(int_or_junk(), 0..5),
        proptest::option::of(vec(int_or_junk(), 0..7)),
        int_or_junk(),
        vec(any::<u8>(), 0..200),
        any::<u8>(),
    )
        .prop_map(|(w, index, size, content, flags)| {
            let mut d = dict_of(vec![("Type", AObj::name("XRef")), ("W", AObj::Array(w)), ("Size", size)]);
            if let Some(i) = index {
                d.push((B::from("Index"), AObj::Array(i)));
            }
            let mut content = content;
            if flags & 1 != 0 {
                d.push((B::from("Filter"), AObj::name("FlateDecode")));
                if flags & 2 != 0 {
                    use std::io::Write;
                    let mut e = flate2::write::ZlibEncoder::new(Vec::new(), flate2::Compression::default());
                    e.write_all(&content).unwrap();
                    content = e.finish().unwrap();
                }
            }
            if flags & 4 != 0 {
                d.push((B::from("DecodeParms"), AObj::Dict(dict_of(vec![("Predictor", AObj::Int(12)), ("Columns", AObj::Int((flags >> 3) as i64))]))));
            }
            d.push((B::from("Length"), AObj::Int(content.len() as i64)));
            Case::Stream { entry: E_XREF, spec: StreamSpec { dict: d, content: B(content) } }
        })
        .boxed()
}

fn objstm_strategy() -> BoxedStrategy<Case> {
    let token = prop_oneof![
        4 => (0u32..40).prop_map(|n| n.to_string().into_bytes()),
        2 => extreme_int().prop_map(|n| n.to_string().into_bytes()),
        1 => Just(b"x".to_vec()),
        1 => Just(b"-".to_vec()),
        1 => Just(b"\xff".to_vec()),
    ];
    (int_or_junk(), int_or_junk(), vec(token, 0..10), vec(prop_oneof![Just(&b"null "[..]), Just(&b"[1 2] "[..]), Just(&b"<</A 1>> "[..]), Just(&b"(x) "[..]), Just(&b"<< "[..]), Just(&b"1 0 R "[..]), Just(&b"[[[[ "[..])], 0..6), any::<u8>())
        .prop_map(|(n, first, idx, objs, flags)| {
            let mut content: Vec<u8> = idx.join(&b" "[..]);
            content.push(b' ');
            let real_first = content.len();
            content.extend(objs.concat());
            let first = if flags & 1 == 0 { AObj::Int(real_first as i64) } else { first };
            let mut d = dict_of(vec![("Type", AObj::name("ObjStm")), ("N", n), ("First", first)]);
            if flags & 2 != 0 {
                d.push((B::from("Filter"), AObj::name("FlateDecode")));
            }
            d.push((B::from("Length"), AObj::Int(content.len() as i64)));
            Case::Stream { entry: E_OBJSTM, spec: StreamSpec { dict: d, content: B(content) } }
        })
        .boxed()
}

const A85_EDGE: &[&[u8]] = &[b"s8W-!", b"s8W-\"", b"s8W-#", b"s8W.!", b"s8X!!", b"uuuuu", b"s8W-", b"s8W", b"s8", b"s", b"z", b"zz", b"!z", b"!!!!z", b"~>", b"~", b"u", b"uu", b"uuu", b"uuuu", b"!!!!!", b"!", b"\x00", b" ", b"v", b"{", b"s8W-!s8W-\"", b"rrrrr", b"s9!!!", b"t!!!!"];

fn a85_strategy() -> BoxedStrategy<Vec<u8>> {
    vec(prop_oneof![6 => (0..A85_EDGE.len()).prop_map(|i| A85_EDGE[i].to_vec()), 2 => vec(0x21u8..0x76, 1..6), 1 => vec(any::<u8>(), 1..4)], 0..8).prop_map(|p| p.concat()).boxed()
}

fn filter_strategy() -> BoxedStrategy<Case> {
    let fname = prop_oneof![
        4 => Just("FlateDecode"), 4 => Just("LZWDecode"), 4 => Just("ASCII85Decode"), 1 => Just("ASCIIHexDecode"), 1 => Just("DCTDecode"), 1 => Just("Crypt"), 1 => Just("")
    ];
    let parms = (int_or_junk(), int_or_junk(), int_or_junk(), int_or_junk(), int_or_junk(), 0u8..64).prop_map(|(p, c, col, bpc, ec, mask)| {
        let mut d: ADict = vec![];
        let pred = if mask & 32 != 0 { AObj::Int(10 + (mask % 6) as i64) } else { p };
        for (i, (k, v)) in [("Predictor", pred), ("Colors", c), ("Columns", col), ("BitsPerComponent", bpc), ("EarlyChange", ec)].into_iter().enumerate() {
            if mask & (1 << i) != 0 || (i == 0 && mask & 32 != 0) {
                d.push((B::from(k), v));
            }
        }
        AObj::Dict(d)
    });
    let content = prop_oneof![
        3 => vec(any::<u8>(), 0..300),
        3 => a85_strategy(),
        2 => vec(any::<u8>(), 0..200).prop_map(|v| { use std::io::Write; let mut e = flate2::write::ZlibEncoder::new(Vec::new(), flate2::Compression::default()); e.write_all(&v).unwrap(); e.finish().unwrap() }),
        2 => vec(any::<u8>(), 0..200).prop_map(|v| crate::refimpl::filt::lzw::encode(&v, true)),
        1 => Just(vec![]),
    ];
    (vec(fname, 0..4), vec(parms, 0..4), content, 0u8..8, int_or_junk())
        .prop_map(|(names, parms, content, form, length)| {
            let mut d: ADict = vec![];
            let name_objs: Vec<AObj> = names.iter().map(|n| AObj::name(n)).collect();
            match form % 4 {
                0 if name_objs.len() == 1 => d.push((B::from("Filter"), name_objs[0].clone())),
                3 => d.push((B::from("Filter"), AObj::Int(3))),
                _ => d.push((B::from("Filter"), AObj::Array(name_objs))),
            }
            match form / 4 {
                0 => {
                    if let Some(p) = parms.first() {
                        d.push((B::from("DecodeParms"), p.clone()));
                    }
                }
                _ => d.push((B::from("DecodeParms"), AObj::Array(parms))),
            }
            d.push((B::from("Length"), length));
            Case::Stream { entry: E_FILTER, spec: StreamSpec { dict: d, content: B(content) } }
        })
        .boxed()
}

fn hexnum(v: u64, digits: usize) -> String {
    format!("{:0width$X}", v, width = digits)
}

pub fn cmap_strategy() -> BoxedStrategy<Case> {
    let code = (prop_oneof![Just(1usize), Just(2), Just(3), Just(4), Just(0), Just(5)], any::<u32>()).prop_map(|(len, v)| {
        if len == 0 {
            String::new()
        } else {
            let bits = (len.min(4) * 8) as u32;
            let v = if bits >= 32 { v as u64 } else { (v as u64) & ((1u64 << bits) - 1) };
            hexnum(v, len * 2)
        }
    });
    let edge_code = prop_oneof![3 => code.clone(), 1 => Just("00".to_string()), 1 => Just("FF".to_string()), 1 => Just("FFFF".to_string()), 1 => Just("FFFFFFFF".to_string()), 1 => Just("00000000".to_string()), 1 => Just("0000".to_string())];
    let target = prop_oneof![
        3 => any::<u16>().prop_map(|v| hexnum(v as u64, 4)),
        2 => Just("FFFF".to_string()),
        2 => Just("FFFE".to_string()),
        1 => Just("D800".to_string()),
        1 => Just("D83DDE00".to_string()),
        1 => vec(any::<u16>(), 2..5).prop_map(|v| v.iter().map(|x| hexnum(*x as u64, 4)).collect::<String>()),
        1 => Just("0041FFFF".to_string()),
        1 => Just("".to_string()),
        1 => Just("41".to_string()),
        1 => (1usize..300).prop_map(|n| "0041".repeat(n)),
    ];
    let line = prop_oneof![
        3 => (edge_code.clone(), target.clone()).prop_map(|(c, t)| (true, format!("<{}> <{}>", c, t))),
        4 => (edge_code.clone(), edge_code.clone(), target.clone()).prop_map(|(a, b, t)| (false, format!("<{}> <{}> <{}>", a, b, t))),
        3 => (edge_code.clone(), edge_code.clone(), vec(target.clone(), 0..4)).prop_map(|(a, b, ts)| (false, format!("<{}> <{}> [{}]", a, b, ts.iter().map(|t| format!("<{}>", t)).collect::<Vec<_>>().join(" ")))),
        1 => Just((true, "<41> /space".to_string())),
        1 => Just((false, "<41> <40> <0041>".to_string())),
        1 => Just((false, "<00> <FF> [<0041>]".to_string())),
        1 => Just((false, "<0000> <FFFF> <FF00>".to_string())),
        1 => Just((false, "<00000000> <FFFFFFFF> <0041>".to_string())),
    ];
    (vec(line, 0..8), any::<u8>(), vec(any::<u8>(), 0..12), prop_oneof![Just(None), Just(Some("Identity-H")), Just(Some("Identity-V")), Just(Some("WinAnsiEncoding")), Just(Some("UniGB-UCS2-H")), Just(Some("Foo"))], any::<bool>())
        .prop_map(|(lines, flags, codes, enc, compress)| {
            let mut s = String::new();
            if flags & 1 == 0 {
                s.push_str("/CIDInit /ProcSet findresource begin\n12 dict begin\nbegincmap\n/CIDSystemInfo << /Registry (Adobe) /Ordering (UCS) /Supplement 0 >> def\n/CMapName /Adobe-Identity-UCS def\n/CMapType 2 def\n");
            }
            if flags & 2 == 0 {
                s.push_str("1 begincodespacerange\n<0000> <FFFF>\nendcodespacerange\n");
            }
            // group lines into sections
            let mut i = 0;
            while i < lines.len() {
                let is_char = lines[i].0;
                let mut j = i;
                while j < lines.len() && lines[j].0 == is_char {
                    j += 1;
                }
                let n = if flags & 4 != 0 { 100 } else { j - i };
                s.push_str(&format!("{} {}\n", n, if is_char { "beginbfchar" } else { "beginbfrange" }));
                for l in &lines[i..j] {
                    s.push_str(&l.1);
                    s.push('\n');
                }
                s.push_str(if is_char { "endbfchar\n" } else { "endbfrange\n" });
                i = j;
            }
            if flags & 8 == 0 {
                s.push_str("endcmap\nCMapName currentdict /CMap defineresource pop\nend\nend\n");
            }
            Case::CMap(CMapSpec { cmap: B(s.into_bytes()), codes: B(codes), encoding: enc.map(B::from), compress })
        })
        .boxed()
}

pub fn textstring_strategy() -> BoxedStrategy<Case> {
    let unit = prop_oneof![
        3 => any::<u16>().prop_map(|v| v.to_be_bytes().to_vec()),
        2 => (0xD800u16..0xE000).prop_map(|v| v.to_be_bytes().to_vec()),
        1 => any::<u8>().prop_map(|v| vec![v]),
    ];
    (prop_oneof![3 => Just(vec![0xfe, 0xff]), 2 => Just(vec![0xef, 0xbb, 0xbf]), 1 => Just(vec![0xff, 0xfe]), 2 => Just(vec![]), 1 => Just(vec![0xfe]), 1 => Just(vec![0xef, 0xbb])], vec(unit, 0..8))
        .prop_map(|(bom, units)| {
            let mut b = bom;
            b.extend(units.concat());
            Case::Raw { entry: E_TEXTSTRING, bytes: B(b) }
        })
        .boxed()
}

pub fn content_strategy() -> BoxedStrategy<Case> {
    let big = prop_oneof![Just("0"), Just("1"), Just("-1"), Just("4"), Just("65536"), Just("4294967296"), Just("9223372036854775807"), Just("-9223372036854775808"), Just("3037000500"), Just("99999999999999999999"), Just("2147483648")];
    let image = (big.clone(), big.clone(), big.clone(), prop_oneof![Just("/RGB"), Just("/G"), Just("/Gray"), Just("/CMYK"), Just("/Pattern"), Just("/Indexed"), Just("5"), Just("[/RGB]")], vec(any::<u8>(), 0..40), 0u8..8)
        .prop_map(|(w, h, bpc, cs, data, flags)| {
            let mut s = format!("BI /W {} /H {} /BPC {} /CS {}", w, h, bpc, cs).into_bytes();
            if flags & 1 != 0 {
                s.extend_from_slice(b" /F /AHx");
            }
            if flags & 2 != 0 {
                s.extend_from_slice(b" /F [/A85 /Fl]");
            }
            if flags & 4 == 0 {
                s.extend_from_slice(b"\nID ");
            }
            s.extend_from_slice(&data);
            s.extend_from_slice(b"\nEI\n");
            s
        });
    let token = prop_oneof![
        4 => prop_oneof![Just(&b"q "[..]), Just(&b"Q "[..]), Just(&b"BT "[..]), Just(&b"ET "[..]), Just(&b"/F1 12 Tf "[..]), Just(&b"(abc) Tj "[..]), Just(&b"[(a) -120 (b)] TJ "[..]), Just(&b"1 0 0 1 0 0 cm "[..]), Just(&b"<</A 1>> "[..]), Just(&b"<41 4"[..]), Just(&b"(("[..]), Just(&b"[ "[..]), Just(&b"] "[..]), Just(&b">> "[..]), Just(&b"% c\n"[..]), Just(&b"BI "[..]), Just(&b"ID "[..]), Just(&b"EI "[..]), Just(&b"true "[..]), Just(&b"null "[..]), Just(&b"\\"[..]), Just(&b"#"[..]), Just(&b"/"[..]), Just(&b"-"[..]), Just(&b"."[..]), Just(&b"+.-"[..]), Just(&b"' "[..]), Just(&b"\" "[..])].prop_map(|b| b.to_vec()),
        2 => image,
        2 => vec(any::<u8>(), 1..6),
        1 => big.prop_map(|s| format!("{} ", s).into_bytes()),
    ];
    vec(token, 0..14).prop_map(|t| Case::Raw { entry: E_CONTENT, bytes: B(t.concat()) }).boxed()
}

/// A file whose content stream has its /Length in an object stream (so the loader can only delimit the stream in a
/// second phase, from the value) and a value chosen around the two boundaries that matter: the end of the file, and
/// the end of the file seen from the start of the stream data.
pub fn length_in_objstm_file(content_len: usize, sel: u8, delta: i8) -> Vec<u8> {
    let mut f: Vec<u8> = b"%PDF-1.5\n".to_vec();
    let mut offs = vec![0usize; 8];
    let mut put = |f: &mut Vec<u8>, n: usize, body: &[u8]| {
        offs[n] = f.len();
        f.extend_from_slice(format!("{} 0 obj", n).as_bytes());
        f.extend_from_slice(body);
        f.extend_from_slice(b"endobj\n");
    };
    put(&mut f, 1, b"<</Type/Catalog/Pages 2 0 R>>");
    put(&mut f, 2, b"<</Type/Pages/Kids[3 0 R]/Count 1>>");
    put(&mut f, 3, b"<</Type/Page/Parent 2 0 R/Contents 4 0 R>>");
    let head = b"<</Length 6 0 R>>stream\n";
    let data_start = f.len() + "4 0 obj".len() + head.len();
    let mut body = head.to_vec();
    body.extend((0..content_len).map(|i| b"BT /F1 9 Tf (x) Tj ET "[i % 22]));
    body.extend_from_slice(b"\nendstream ");
    put(&mut f, 4, &body);
    // the value is written with a fixed width (leading zeros are legal) so that the file length does not depend on it
    let placeholder = b"<</Type/ObjStm/N 1/First 4/Length 15>>stream\n6 0 @@@@@@@@@@\nendstream ";
    put(&mut f, 5, placeholder);
    let xref_off = f.len();
    offs[7] = xref_off;
    let mut x = vec![];
    for n in 0..8usize {
        match n {
            0 => x.extend_from_slice(&[0, 0, 0, 255]),
            6 => x.extend_from_slice(&[2, 0, 5, 0]),
            _ => x.extend_from_slice(&[1, (offs[n] >> 8) as u8, offs[n] as u8, 0]),
        }
    }
    f.extend_from_slice(b"7 0 obj<</Type/XRef/Size 8/W[1 2 1]/Root 1 0 R/Length 32>>stream\n");
    f.extend_from_slice(&x);
    f.extend_from_slice(format!("\nendstream endobj\nstartxref\n{}\n%%EOF", xref_off).as_bytes());
    let file_len = f.len() as i64;
    let d = delta as i64;
    let value: i64 = match sel % 6 {
        0 => content_len as i64,
        1 => file_len + d,
        2 => file_len - data_start as i64 + d,
        3 => content_len as i64 + d,
        4 => [0, 1, i32::MAX as i64, 4294967295, 9999999999][d.rem_euclid(5) as usize],
        _ => file_len,
    }
    .clamp(0, 9_999_999_999);
    let digits = format!("{:010}", value);
    let at = f.windows(10).position(|w| w == b"@@@@@@@@@@").unwrap();
    f[at..at + 10].copy_from_slice(digits.as_bytes());
    f
}

fn length_window_strategy() -> BoxedStrategy<Case> {
    (0usize..300, 0u8..6, -40i8..=6, any::<bool>())
        .prop_map(|(n, sel, delta, inc)| Case::Raw { entry: if inc { E_INCLOAD } else { E_LOAD }, bytes: B(length_in_objstm_file(n, sel, delta)) })
        .boxed()
}

fn unoptimised_strategy(ladder_max: usize) -> BoxedStrategy<Case> {
    prop_oneof![
        4 => ladder_strategy(ladder_max),
        3 => load_strategy(),
        1 => objstm_strategy(),
        1 => content_strategy(),
        1 => cmap_strategy(),
    ]
    .prop_map(|c| Case::Unoptimised(Box::new(c)))
    .boxed()
}

pub fn run(run: &mut Run) {
    run.rule = "inputs for the eight byte-level entry points, evaluated in an isolated worker process (8 MiB stack, single allocation request <= max(256 MiB, 4096 x input), cumulative <= max(1 GiB, 16384 x input), watchdog 10 s confirmed alone with 60 s): (a) structure-aware mutants (bit/byte edits, truncation, deletion, insertion, self-splice, every number -> 26 extremes or another number of the file, keyword swaps) of valid files from REF-W (incl. update revisions, object streams, xref streams), lopdf's own writer and the repository assets, through load_mem and IncrementalDocument::load_from; (b) constructions: nesting ladders (arrays, dictionaries, parentheses, mixed; depth 1..20000) in files, content streams and object streams; cross-reference streams with extreme W/Index/Size; object streams with extreme N/First and hostile index blocks; filter chains with extreme Predictor/Colors/Columns/BitsPerComponent/EarlyChange and ASCII85 boundary groups; ToUnicode CMaps from a grammar with reversed, 2^32-wide and short-array ranges and long targets; text strings with lone BOMs, odd lengths and lone surrogates; content streams with hostile tokens and inline images of extreme geometry; files whose content stream has its /Length in an object stream with a value around the end of the file and around file length minus data start. lopdf is compiled with overflow checks; campaign 'unoptimised-build' repeats the ladders and a sample of the other constructions against a worker compiled without optimisation (dev profile, 2 MiB case stack, watchdog 30 s / 180 s). Oracle: returns a value or an error — no panic, abort, stack overflow, confirmed hang or oversized allocation. non-trivial = the input gets past header/startxref discovery (load entries) or reaches the decoder proper; distinct by case hash.".into();
    run.assumptions = vec![
        "Err is a pass; slowness below the confirmation threshold is a statistic only".into(),
        "signatures of open known findings are tolerated in-campaign (counted as excluded known:<id>) so that the search continues behind them".into(),
    ];
    run.replay_known_demos(replay);
    let thorough = run.tier == crate::engine::Tier::Thorough;
    let n = run.tier.pick(30_000, 2_000_000);
    run.campaign("load-mutants", load_strategy, n, check, |_c, _v| None);
    let ladder_max = if run.finding_open("C04-nesting-stack") { 150 } else { 20000 };
    run.campaign("nesting-ladders", move || ladder_strategy(ladder_max), run.tier.pick(600, 6000), check, |_c, _v| None);
    run.campaign("xref-stream-extremes", xref_stream_strategy, run.tier.pick(8_000, 300_000), check, |_c, _v| None);
    run.campaign("object-stream-extremes", objstm_strategy, run.tier.pick(8_000, 300_000), check, |_c, _v| None);
    run.campaign("filter-extremes", filter_strategy, run.tier.pick(10_000, 400_000), check, |_c, _v| None);
    run.campaign("cmap-grammar", cmap_strategy, run.tier.pick(10_000, 400_000), check, |_c, _v| None);
    run.campaign("text-strings", textstring_strategy, run.tier.pick(5_000, 100_000), check, |_c, _v| None);
    run.campaign("content-tokens", content_strategy, run.tier.pick(10_000, 400_000), check, |_c, _v| None);
    run.campaign("indirect-length-in-object-stream", length_window_strategy, run.tier.pick(3_000, 60_000), check, |_c, _v| None);
    let _ = thorough;
    // the same constructions against lopdf compiled without optimisation: stack frames are an order of magnitude
    // larger there, and that is the build `cargo test` and every debug build of a caller runs
    run.campaign("unoptimised-build", move || unoptimised_strategy(ladder_max), run.tier.pick(1_500, 40_000), check, |_c, _v| None);
    crate::engine::libfuzzer::phase(run, super::fuzzdec::TARGETS_C04, &|entry, payload| serde_json::to_value(Case::Raw { entry, bytes: B(payload.to_vec()) }).unwrap());
    flush_known(run);
}

pub fn replay(file: &Value) -> Result<Verdict, String> {
    Ok(check(&replay_case::<Case>(file)?))
}
