//! C06 — the standard security handler agrees with the ISO 32000 algorithms (DESIGN.md §7 C06).
//! Direction A: lopdf encrypts, the reference handler (REF-SEC) opens. Direction B: REF-SEC encrypts, the
//! reference writer renders, lopdf opens.

use super::c05::{normalise_doc, Switches};
use super::common::*;
use super::cryptgen::*;
use crate::canon::{self, Opts};
use crate::engine::{fnv64, no_panic, replay_case, CaseReport, Run, Verdict, Violation};
use crate::model::{ADict, AObj, B};
use crate::refimpl::sec::sec::{self, Cipher, Who};
use crate::refimpl::strict;
use crate::refimpl::writer::{self, WFile, WRevision};
use crate::viol;
use lopdf::{Document, Object};
use proptest::prelude::*;
use serde::{Deserialize, Serialize};
use serde_json::Value;
use std::collections::BTreeMap;

#[derive(Clone, Debug, Serialize, Deserialize)]
pub struct Case {
    pub cfg: Config,
    pub doc: CDoc,
    pub xref_stream: bool,
    /// randomness of the reference side (salts, IVs) and the writer's style tape
    pub seed: u64,
    pub tape: B,
    /// direction B: leave StmF/StrF out of the dictionary when they are the predefined Identity
    pub omit_identity_names: bool,
    /// direction B: render with object streams (strings inside them are not encrypted individually, the container is)
    #[serde(default)]
    pub objstm: bool,
    /// with object streams: an indirect /Length may be stored inside an encrypted object stream (known finding
    /// C06-length-in-encrypted-objstm)
    #[serde(default)]
    pub length_in_objstm: bool,
}

// ------------------------------------------------------------------ the reference's view of an encryption dictionary

#[derive(Debug, Clone)]
pub struct EncInfo {
    pub v: i64,
    pub r: u8,
    pub n: usize,
    pub o: Vec<u8>,
    pub u: Vec<u8>,
    pub oe: Vec<u8>,
    pub ue: Vec<u8>,
    pub perms: Vec<u8>,
    pub p: i32,
    pub em: bool,
    pub cf: BTreeMap<Vec<u8>, Cipher>,
    pub stmf: Vec<u8>,
    pub strf: Vec<u8>,
}

fn dget<'a>(d: &'a ADict, k: &str) -> Option<&'a AObj> {
    d.iter().find(|(k2, _)| k2.0 == k.as_bytes()).map(|(_, v)| v)
}

pub fn parse_encrypt(d: &ADict) -> Result<EncInfo, String> {
    if dget(d, "Filter") != Some(&AObj::name("Standard")) {
        return Err("Filter is not /Standard".into());
    }
    let int = |k: &str| match dget(d, k) {
        Some(AObj::Int(i)) => Some(*i),
        _ => None,
    };
    let bytes = |k: &str| match dget(d, k) {
        Some(AObj::Str(s, _)) => s.0.clone(),
        _ => vec![],
    };
    let v = int("V").ok_or("V missing")?;
    let r = int("R").ok_or("R missing")? as u8;
    let n = match v {
        1 => 5,
        2 | 3 => (int("Length").unwrap_or(40) / 8) as usize,
        4 => 16,
        5 => 32,
        _ => return Err(format!("unsupported V {}", v)),
    };
    let p = int("P").ok_or("P missing")?;
    if !(i32::MIN as i64..=u32::MAX as i64).contains(&p) {
        return Err(format!("P {} is not a 32-bit value", p));
    }
    let em = !matches!(dget(d, "EncryptMetadata"), Some(AObj::Bool(false)));
    let mut cf = BTreeMap::new();
    if let Some(AObj::Dict(cfd)) = dget(d, "CF") {
        for (name, f) in cfd {
            let AObj::Dict(f) = f else { return Err("CF entry is not a dictionary".into()) };
            let cipher = match dget(f, "CFM") {
                None => Cipher::Identity,
                Some(AObj::Name(m)) => match m.0.as_slice() {
                    b"None" => Cipher::Identity,
                    b"V2" => Cipher::Rc4,
                    b"AESV2" => Cipher::AesV2,
                    b"AESV3" => Cipher::AesV3,
                    other => return Err(format!("crypt filter /{} has /CFM /{}, which is none of None, V2, AESV2, AESV3 (ISO 32000 Table 25)", String::from_utf8_lossy(&name.0), String::from_utf8_lossy(other))),
                },
                _ => return Err("CFM is not a name".into()),
            };
            cf.insert(name.0.clone(), cipher);
        }
    }
    let name = |k: &str| match dget(d, k) {
        Some(AObj::Name(n)) => n.0.clone(),
        _ => b"Identity".to_vec(),
    };
    Ok(EncInfo { v, r, n, o: bytes("O"), u: bytes("U"), oe: bytes("OE"), ue: bytes("UE"), perms: bytes("Perms"), p: p as i32, em, cf, stmf: name("StmF"), strf: name("StrF") })
}

impl EncInfo {
    fn cipher_named(&self, name: &[u8]) -> Result<Cipher, String> {
        if self.v < 4 {
            return Ok(Cipher::Rc4);
        }
        if name == b"Identity" {
            return Ok(Cipher::Identity);
        }
        self.cf.get(name).copied().ok_or_else(|| format!("crypt filter /{} is not defined in /CF", String::from_utf8_lossy(name)))
    }
    fn stream_cipher(&self, dict: &ADict) -> Result<Cipher, String> {
        if self.v >= 4 && !self.em && dget(dict, "Type") == Some(&AObj::name("Metadata")) {
            return Ok(Cipher::Identity);
        }
        let has_crypt = match dget(dict, "Filter") {
            Some(AObj::Name(n)) => n.0 == b"Crypt",
            Some(AObj::Array(a)) => a.iter().any(|x| *x == AObj::name("Crypt")),
            _ => false,
        };
        if has_crypt && self.v >= 4 {
            let name = match dget(dict, "DecodeParms") {
                Some(AObj::Dict(p)) => match dget(p, "Name") {
                    Some(AObj::Name(n)) => n.0.clone(),
                    _ => b"Identity".to_vec(),
                },
                _ => b"Identity".to_vec(),
            };
            return self.cipher_named(&name);
        }
        self.cipher_named(&self.stmf.clone())
    }
    /// authenticate a prepared password; returns who it is and the file key
    pub fn open(&self, pw: &[u8], id0: &[u8]) -> Option<(Who, Vec<u8>)> {
        if self.r <= 4 {
            if let Some(k) = sec::auth_user_r234(self.r, self.n, pw, &self.o, &self.u, self.p, id0, self.em) {
                return Some((Who::User, k));
            }
            sec::auth_owner_r234(self.r, self.n, pw, &self.o, &self.u, self.p, id0, self.em).map(|k| (Who::Owner, k))
        } else {
            sec::auth_r56(self.r, pw, &self.o, &self.u, &self.oe, &self.ue)
        }
    }
    pub fn transform(&self, key: &[u8], num: u32, gen: u16, o: &AObj, f: &dyn Fn(Cipher, &[u8], u32, u16, &[u8], &str) -> Result<Vec<u8>, String>, path: &str) -> Result<AObj, String> {
        Ok(match o {
            AObj::Str(s, h) => AObj::Str(B(f(self.cipher_named(&self.strf.clone())?, key, num, gen, &s.0, path)?), *h),
            AObj::Array(a) => AObj::Array(a.iter().enumerate().map(|(i, x)| self.transform(key, num, gen, x, f, &format!("{}[{}]", path, i))).collect::<Result<_, _>>()?),
            AObj::Dict(d) => AObj::Dict(d.iter().map(|(k, v)| Ok((k.clone(), self.transform(key, num, gen, v, f, &format!("{}/{}", path, String::from_utf8_lossy(&k.0)))?))).collect::<Result<_, String>>()?),
            AObj::Stream(d, c) => {
                let cipher = self.stream_cipher(d)?;
                let nd: ADict = d.iter().map(|(k, v)| Ok((k.clone(), self.transform(key, num, gen, v, f, &format!("{}.dict/{}", path, String::from_utf8_lossy(&k.0)))?))).collect::<Result<_, String>>()?;
                AObj::Stream(nd, B(f(cipher, key, num, gen, &c.0, &format!("{}.content", path))?))
            }
            other => other.clone(),
        })
    }
}

fn ref_decrypt(cipher: Cipher, key: &[u8], num: u32, gen: u16, data: &[u8], path: &str) -> Result<Vec<u8>, String> {
    if cipher != Cipher::Identity && matches!(cipher, Cipher::AesV2 | Cipher::AesV3) && data.is_empty() {
        // an empty AES ciphertext stands for an empty plaintext (no IV, no padding block): tolerated by readers
        return Ok(vec![]);
    }
    sec::decrypt_data(cipher, key, num, gen, data).ok_or_else(|| format!("{}: {} bytes do not decrypt with {:?} (bad length or padding)", path, data.len(), cipher))
}

// ------------------------------------------------------------------ direction A

fn strip_length(o: &AObj) -> AObj {
    match o {
        AObj::Stream(d, c) => AObj::Stream(d.iter().filter(|(k, _)| k.0 != b"Length").cloned().collect(), c.clone()),
        other => other.clone(),
    }
}

fn open_and_compare(info: &EncInfo, cfg: &Config, cdoc: &CDoc, objects: &BTreeMap<(u32, u16), AObj>, enc_id: (u32, u16), what: &str) -> Result<(), Violation> {
    for (who, pw) in [("user", &cfg.user_pw), ("owner", &cfg.owner_pw)] {
        let prepared = cfg.prepared(pw);
        if std::env::var("VERIF_C06_DEBUG").is_ok() && info.open(&prepared, &cfg.id0.0).is_none() {
            let raw = pw.as_bytes().to_vec();
            let variants: Vec<(&str, Vec<u8>)> = vec![
                ("raw utf8", raw.clone()),
                ("raw utf8 trunc127", raw[..raw.len().min(127)].to_vec()),
                ("prepared trunc127", prepared[..prepared.len().min(127)].to_vec()),
                ("prepared trimmed", String::from_utf8_lossy(&prepared).trim().as_bytes().to_vec()),
            ];
            for (n, v) in variants {
                eprintln!("variant {:?} ({} bytes): {}", n, v.len(), info.open(&v, &cfg.id0.0).is_some());
            }
            eprintln!("prepared: {} bytes, raw {} bytes", prepared.len(), raw.len());
        }
        let (as_who, key) = info.open(&prepared, &cfg.id0.0).ok_or_else(|| {
            Violation::new(
                if who == "user" { "ref-cannot-auth-user" } else { "ref-cannot-auth-owner" },
                format!("{}: the reference handler cannot authenticate the {} password {:?} against the dictionary lopdf wrote (R{}, O {} bytes, U {} bytes, P {})", what, who, pw, info.r, info.o.len(), info.u.len(), info.p),
            )
        })?;
        let _ = as_who;
        if info.r >= 5 && !sec::validate_perms(&key, &info.perms, info.p, info.em) {
            return Err(viol!("ref-perms-invalid", "{}: /Perms does not validate against P = {} and EncryptMetadata = {} (Algorithm 13)", what, info.p, info.em));
        }
        for (n, g, plain) in &cdoc.objects {
            let Some(eo) = objects.get(&(*n, *g)) else { return Err(viol!("ref-plaintext-differs", "{}: object {} {} missing", what, n, g)) };
            if (*n, *g) == enc_id {
                continue;
            }
            let dec = info
                .transform(&key, *n, *g, eo, &ref_decrypt, &format!("obj {} {}", n, g))
                .map_err(|e| viol!("ref-plaintext-differs", "{} ({} password): the reference handler cannot decrypt what lopdf wrote: {}", what, who, e))?;
            canon::obj_eq(&strip_length(plain).to_object(), &strip_length(&dec).to_object(), Opts::ROUNDTRIP, &format!("obj {} {}", n, g))
                .map_err(|e| viol!("ref-plaintext-differs", "{} ({} password): decrypting lopdf's output by the standard's rules does not give the plaintext: {}", what, who, e))?;
        }
    }
    Ok(())
}

pub fn check_a(case: &Case) -> Verdict {
    let mut rep = CaseReport::new();
    let cfg = &case.cfg;
    let cdoc = normalise_doc(cfg, &case.doc);
    let plain = cdoc.to_document(&cfg.id0.0, case.xref_stream);
    let _rng = FixedLopdfRng::new(case.seed ^ 0x6c6f_7064_665f_6832);
    let state = match no_panic("EncryptionState::try_from", || cfg.lopdf_state(&plain))? {
        Ok(s) => s,
        Err(_) => {
            rep.exclude("state-rejected");
            return Ok(rep);
        }
    };
    let mut enc = plain.clone();
    no_panic("encrypt", || enc.encrypt(&state))?.map_err(|e| viol!("encrypt-error", "encrypt fails: {:?}", e))?;
    let enc_id = enc.trailer.get(b"Encrypt").and_then(|o| o.as_reference()).map_err(|_| viol!("encrypt-error", "no /Encrypt reference in the trailer"))?;
    // from memory
    let objects: BTreeMap<(u32, u16), AObj> = enc.objects.iter().map(|(k, v)| (*k, AObj::from_object(v))).collect();
    let AObj::Dict(ed) = objects.get(&enc_id).cloned().ok_or_else(|| viol!("encrypt-error", "encryption dictionary object missing"))? else { return Err(viol!("encrypt-error", "encryption dictionary is not a dictionary")) };
    let info = parse_encrypt(&ed).map_err(|e| viol!("ref-cannot-interpret", "the encryption dictionary lopdf wrote is not interpretable by the standard: {}\n{:?}", e, ed))?;
    open_and_compare(&info, cfg, &cdoc, &objects, enc_id, "in memory")?;
    // from the saved file, read by the strict reader
    let saved = save(&mut enc)?;
    let sd = strict::read(&saved).map_err(|e| viol!("strict-rule", "strict reader rejects the encrypted file: rule {}: {}", e.rule, e.msg))?;
    let t_enc = sd.trailer.iter().find(|(k, _)| k.0 == b"Encrypt").map(|(_, v)| v.clone());
    let Some(AObj::Ref(en, eg)) = t_enc else { return Err(viol!("ref-cannot-interpret", "saved file has no /Encrypt reference in its trailer")) };
    let Some(AObj::Dict(ed2)) = sd.objects.get(&(en, eg)).cloned() else { return Err(viol!("ref-cannot-interpret", "saved file: encryption dictionary missing")) };
    let info2 = parse_encrypt(&ed2).map_err(|e| viol!("ref-cannot-interpret", "saved file: {}", e))?;
    let id0 = match sd.trailer.iter().find(|(k, _)| k.0 == b"ID") {
        Some((_, AObj::Array(a))) => match a.first() {
            Some(AObj::Str(s, _)) => s.0.clone(),
            _ => vec![],
        },
        _ => vec![],
    };
    if id0 != cfg.id0.0 {
        return Err(viol!("ref-cannot-interpret", "saved file: trailer /ID[0] is {:?}, the document's is {:?}", B(id0), cfg.id0));
    }
    open_and_compare(&info2, cfg, &cdoc, &sd.objects, (en, eg), "saved file")?;
    labels(cfg, &cdoc, &mut rep);
    rep.label("direction-A");
    Ok(rep)
}

// ------------------------------------------------------------------ direction B

struct Rng(u64);
impl Rng {
    fn bytes<const N: usize>(&mut self) -> [u8; N] {
        let mut out = [0u8; N];
        for b in out.iter_mut() {
            self.0 = self.0.wrapping_mul(6364136223846793005).wrapping_add(1442695040888963407);
            *b = (self.0 >> 33) as u8;
        }
        out
    }
}

pub struct RefEncrypted {
    pub encrypt_dict: ADict,
    pub objects: Vec<(u32, u16, AObj)>,
}

/// the reference security handler set up for one document: encryption dictionary, file key, IV source
pub struct RefHandler {
    pub encrypt_dict: ADict,
    pub info: EncInfo,
    pub key: Vec<u8>,
    rng: std::cell::RefCell<Rng>,
}

impl RefHandler {
    /// strings and streams of the indirect object (num, gen) encrypted as Algorithm 1 / 1.A prescribe
    pub fn encrypt_object(&self, num: u32, gen: u16, o: &AObj) -> Result<AObj, String> {
        let enc = |cipher: Cipher, key: &[u8], num: u32, gen: u16, data: &[u8], _p: &str| -> Result<Vec<u8>, String> {
            let iv: [u8; 16] = self.rng.borrow_mut().bytes();
            Ok(sec::encrypt_data(cipher, key, num, gen, &iv, data))
        };
        self.info.transform(&self.key, num, gen, o, &enc, "")
    }
}

/// encrypt an abstract document with the reference handler
pub fn ref_encrypt(cfg: &Config, cdoc: &CDoc, seed: u64, omit_identity_names: bool) -> Result<RefEncrypted, String> {
    let h = ref_handler(cfg, seed, omit_identity_names)?;
    let mut objects = vec![];
    for (n2, g, o) in &cdoc.objects {
        objects.push((*n2, *g, h.encrypt_object(*n2, *g, o)?));
    }
    Ok(RefEncrypted { encrypt_dict: h.encrypt_dict, objects })
}

pub fn ref_handler(cfg: &Config, seed: u64, omit_identity_names: bool) -> Result<RefHandler, String> {
    let mut rng = Rng(seed ^ 0x9E37_79B9_7F4A_7C15);
    let r = cfg.revision();
    let n = cfg.key_len_bytes();
    let user = cfg.prepared(&cfg.user_pw);
    let owner = cfg.prepared(&cfg.owner_pw);
    let p = cfg.p_word();
    let em = cfg.encrypt_metadata;
    let mut d: ADict = vec![(B::from("Filter"), AObj::name("Standard"))];
    let v = match cfg.version {
        1 => 1,
        2 => 2,
        4 => 4,
        _ => 5,
    };
    d.push((B::from("V"), AObj::Int(v)));
    d.push((B::from("R"), AObj::Int(r as i64)));
    let key: Vec<u8>;
    if r <= 4 {
        let o = sec::compute_o_r234(r, n, &owner, &user);
        key = sec::file_key_r234(r, n, &user, &o, p, &cfg.id0.0, em);
        let mut u = sec::compute_u_r234(r, &key, &cfg.id0.0);
        if r >= 3 {
            // the last 16 bytes of U are arbitrary
            let fill: [u8; 16] = rng.bytes();
            u[16..].copy_from_slice(&fill);
        }
        // Length: required knowledge for V2 only; for V4 it is redundant and stored by some writers only
        if cfg.version == 2 || (cfg.version == 4 && seed % 2 == 0) {
            d.push((B::from("Length"), AObj::Int((n * 8) as i64)));
        }
        d.push((B::from("O"), AObj::Str(B(o.to_vec()), true)));
        d.push((B::from("U"), AObj::Str(B(u.to_vec()), false)));
    } else {
        let mut fk = [0u8; 32];
        fk.copy_from_slice(&cfg.file_key.0[..32]);
        key = fk.to_vec();
        let (u, ue) = sec::compute_u_ue_r56(r, &user, &fk, &rng.bytes(), &rng.bytes());
        let (o, oe) = sec::compute_o_oe_r56(r, &owner, &fk, &u, &rng.bytes(), &rng.bytes());
        let perms = sec::compute_perms(&fk, p, em, rng.bytes());
        if seed % 2 == 0 {
            // not required by the standard for V5, but stored by widely deployed writers
            d.push((B::from("Length"), AObj::Int(256)));
        }
        d.push((B::from("O"), AObj::Str(B(o.to_vec()), true)));
        d.push((B::from("U"), AObj::Str(B(u.to_vec()), true)));
        d.push((B::from("OE"), AObj::Str(B(oe.to_vec()), false)));
        d.push((B::from("UE"), AObj::Str(B(ue.to_vec()), true)));
        d.push((B::from("Perms"), AObj::Str(B(perms.to_vec()), true)));
    }
    d.push((B::from("P"), AObj::Int(p as i64)));
    if cfg.version >= 4 {
        if !em || seed % 2 == 0 {
            d.push((B::from("EncryptMetadata"), AObj::Bool(em)));
        }
        let cfm = |c: Cf| match c {
            Cf::Rc4 => "V2",
            Cf::Aes128 => "AESV2",
            Cf::Aes256 => "AESV3",
            Cf::NoneCf => "None",
        };
        let entry = |c: Cf, with_type: bool| {
            let mut e: ADict = vec![];
            if with_type {
                e.push((B::from("Type"), AObj::name("CryptFilter")));
            }
            e.push((B::from("CFM"), AObj::name(cfm(c))));
            e.push((B::from("AuthEvent"), AObj::name("DocOpen")));

            AObj::Dict(e)
        };
        d.push((B::from("CF"), AObj::Dict(vec![(B::from("StdCF"), entry(cfg.cf_std, seed % 3 != 0)), (B::from("Alt"), entry(cfg.cf_alt, seed % 5 != 0))])));
        for (k, sel) in [("StmF", cfg.stm_f), ("StrF", cfg.str_f)] {
            if sel % 3 == 2 && omit_identity_names {
                continue; // default value Identity
            }
            d.push((B::from(k), AObj::Name(B(Config::filter_name(sel).to_vec()))));
        }
    }
    let info = parse_encrypt(&d)?;
    Ok(RefHandler { encrypt_dict: d, info, key, rng: std::cell::RefCell::new(rng) })
}

pub fn check_b(case: &Case) -> Verdict {
    let mut rep = CaseReport::new();
    let cfg = &case.cfg;
    let cdoc = normalise_doc(cfg, &case.doc);
    // Algorithm 3: "if there is no owner password, use the user password instead" — with an empty owner password
    // (R <= 4) the owner password of the encrypted file IS the user password
    let mut cfg_b = cfg.clone();
    if cfg_b.revision() <= 4 && cfg_b.owner_pw.is_empty() {
        cfg_b.owner_pw = cfg_b.user_pw.clone();
    }
    let cfg = &cfg_b;
    let re = ref_encrypt(cfg, &cdoc, case.seed, case.omit_identity_names).map_err(|e| viol!("harness-ref-encrypt", "{}", e))?;
    // self-check of the reference: it opens its own output with both passwords
    {
        let info = parse_encrypt(&re.encrypt_dict).map_err(|e| viol!("harness-ref-encrypt", "{}", e))?;
        let objs: BTreeMap<(u32, u16), AObj> = re.objects.iter().map(|(n, g, o)| ((*n, *g), o.clone())).collect();
        open_and_compare(&info, cfg, &cdoc, &objs, (0, 0), "reference self-check").map_err(|v| Violation::new("harness-ref-selfcheck", v.detail))?;
    }
    let enc_num = cdoc.objects.iter().map(|o| o.0).max().unwrap_or(0) + 1;
    let mut objects = if case.objstm { cdoc.objects.clone() } else { re.objects.clone() };
    objects.push((enc_num, 0, AObj::Dict(re.encrypt_dict.clone())));
    let id = AObj::Array(vec![AObj::Str(cfg.id0.clone(), true), AObj::Str(B(fnv64(&cfg.id0.0).to_le_bytes().to_vec()), true)]);
    let wf = WFile {
        version: "1.7".into(),
        binary_mark: B(vec![0xe2, 0xe3, 0xcf, 0xd3]),
        junk: B(vec![]),
        xref_stream: case.xref_stream || case.objstm,
        objstm: case.objstm,
        revisions: vec![WRevision { objects, trailer: vec![(B::from("Encrypt"), AObj::Ref(enc_num, 0)), (B::from("ID"), id)] }],
        tape: case.tape.clone(),
        raw_eol_in_strings: false,
        quirks: 0,
    };
    let out = if case.objstm {
        // encryption happens while writing: objects inside object streams stay plain, the containers are encrypted.
        // The strict reader cannot look into encrypted containers; it checks the unencrypted rendering of the same file
        // (same tape, same layout decisions) instead.
        let ident = |_n: u32, _g: u16, o: &AObj| o.clone();
        let plain = writer::write_with(&wf, Some(&writer::WEnc { f: &ident, skip: [enc_num].into_iter().collect(), length_in_objstm: case.length_in_objstm }));
        strict::read(&plain.bytes).map_err(|e| viol!("harness-ref-writer-invalid", "rule {}: {}", e.rule, e.msg))?;
        let h = ref_handler(cfg, case.seed, case.omit_identity_names).map_err(|e| viol!("harness-ref-encrypt", "{}", e))?;
        let failed = std::cell::RefCell::new(None);
        let f = |n: u32, g: u16, o: &AObj| match h.encrypt_object(n, g, o) {
            Ok(x) => x,
            Err(e) => {
                *failed.borrow_mut() = Some(e);
                o.clone()
            }
        };
        let out = writer::write_with(&wf, Some(&writer::WEnc { f: &f, skip: [enc_num].into_iter().collect(), length_in_objstm: case.length_in_objstm }));
        if let Some(e) = failed.borrow_mut().take() {
            return Err(viol!("harness-ref-encrypt", "{}", e));
        }
        out
    } else {
        let out = writer::write(&wf);
        strict::read(&out.bytes).map_err(|e| viol!("harness-ref-writer-invalid", "rule {}: {}", e.rule, e.msg))?;
        out
    };
    rep.label_if(out.features.contains("objstm"), "encrypted-object-streams");
    rep.label_if(case.objstm && out.features.contains("indirect-length-in-objstm"), "length-in-encrypted-object-stream");
    let user_empty = cfg.effective(&cfg.user_pw).is_empty();
    for (who, pw) in [("user", &cfg.user_pw), ("owner", &cfg.owner_pw)] {
        let kind_open = if who == "user" { "lopdf-cannot-open-user" } else { "lopdf-cannot-open-owner" };
        let ctx = |v: Violation| Violation::new(&v.kind, format!("{}\nencryption dictionary: {:?}", v.detail, AObj::Dict(re.encrypt_dict.clone())));
        let mut doc = no_panic("load_mem", || Document::load_mem(&out.bytes))?.map_err(|e| ctx(Violation::new(kind_open, format!("load_mem rejects a file encrypted by the reference handler: {:?}", e))))?;
        if doc.is_encrypted() {
            if user_empty {
                let why = format!("authenticate_user_password(\"\") = {:?}; authenticate_owner_password(\"\") = {:?}", doc.authenticate_user_password(""), doc.authenticate_owner_password(""));
                return Err(ctx(viol!("lopdf-cannot-open-user", "the user password is empty but load_mem left the document encrypted ({})", why)));
            }
            no_panic("decrypt", || doc.decrypt(pw))?.map_err(|e| ctx(Violation::new(kind_open, format!("decrypt({} password {:?}) fails on a file encrypted by the reference handler: {:?}", who, pw, e))))?;
        }
        for (n, g, o) in &cdoc.objects {
            let Some(a) = doc.objects.get(&(*n, *g)) else { return Err(ctx(viol!("lopdf-plaintext-differs", "{} password: object {} {} missing after opening", who, n, g))) };
            let mut act = a.clone();
            super::c02::normalise_length(&mut act, &out.length_objects[0].iter().map(|(k, v)| (*k, v.clone())).collect());
            canon::obj_eq(&strip_length(o).to_object(), &strip_length(&AObj::from_object(&act)).to_object(), Opts::FOREIGN, &format!("obj {} {}", n, g))
                .map_err(|e| ctx(viol!("lopdf-plaintext-differs", "opened with the {} password {:?}: {}", who, pw, e)))?;
        }
        if doc.trailer.has(b"Encrypt") {
            return Err(ctx(viol!("lopdf-plaintext-differs", "trailer still has /Encrypt after decrypting")));
        }
        // the state decrypt() leaves behind is what an application protects the edited document with again: the
        // result must open in the reference handler with both passwords like any other lopdf-encrypted document.
        // (indirect stream lengths are made direct first: stream lengths change under encryption and the holder
        // objects are none of the handler's business)
        if let Some(state) = doc.encryption_state.clone() {
            let mut again = doc.clone();
            for (id, o) in again.objects.iter_mut() {
                if let Object::Stream(st) = o {
                    let _ = id;
                    st.dict.set("Length", st.content.len() as i64);
                }
            }
            no_panic("encrypt (state stored by decrypt)", || again.encrypt(&state))?
                .map_err(|e| ctx(viol!("encrypt-error", "encrypting again with the state decrypt() stored fails: {:?}", e)))?;
            let enc_id = again.trailer.get(b"Encrypt").and_then(|o| o.as_reference()).map_err(|_| ctx(viol!("encrypt-error", "no /Encrypt reference after encrypting again")))?;
            let objects: BTreeMap<(u32, u16), AObj> = again.objects.iter().map(|(k, v)| (*k, AObj::from_object(v))).collect();
            let Some(AObj::Dict(ed)) = objects.get(&enc_id).cloned() else { return Err(ctx(viol!("encrypt-error", "encryption dictionary missing after encrypting again"))) };
            let info = parse_encrypt(&ed).map_err(|e| ctx(viol!("ref-cannot-interpret", "after encrypting again with the stored state: {}\n{:?}", e, ed)))?;
            open_and_compare(&info, cfg, &cdoc, &objects, enc_id, &format!("opened with the {} password, encrypted again with the stored state", who)).map_err(ctx)?;
            rep.label("re-encrypted-with-stored-state");
        }
    }
    labels(cfg, &cdoc, &mut rep);
    rep.label("direction-B");
    rep.label_if(case.omit_identity_names && (cfg.stm_f % 3 == 2 || cfg.str_f % 3 == 2) && cfg.version >= 4, "StmF/StrF-defaulted");
    Ok(rep)
}

fn labels(cfg: &Config, cdoc: &CDoc, rep: &mut CaseReport) {
    rep.label(match cfg.revision() {
        2 => "R2",
        3 => "R3",
        4 => "R4",
        5 => "R5",
        _ => "R6",
    });
    rep.label_if(cfg.version == 2 && cfg.key_bits != 40 && cfg.key_bits != 128, "V2-odd-key-length");
    rep.label_if(cfg.version >= 4 && !cfg.encrypt_metadata, "EncryptMetadata-false");
    rep.label_if(cfg.effective(&cfg.user_pw) == cfg.effective(&cfg.owner_pw), "owner==user");
    rep.label_if(cfg.user_pw.is_empty(), "empty-user-password");
    rep.label_if(!cfg.user_pw.is_ascii() || !cfg.owner_pw.is_ascii(), "non-ascii-password");
    rep.label_if(cfg.version >= 4 && (cfg.stm_f % 3 == 2 || cfg.str_f % 3 == 2), "predefined-Identity-filter");
    rep.label_if(cfg.version == 4 && (cfg.cf_std == Cf::Aes128 || cfg.cf_alt == Cf::Aes128), "AESV2");
    rep.label_if(cfg.version == 4 && (cfg.cf_std == Cf::Rc4 || cfg.cf_alt == Cf::Rc4), "V2-RC4-filter");
    let strings = cdoc.objects.iter().any(|(_, _, o)| {
        let mut f = false;
        o.visit(&mut |x| f |= matches!(x, AObj::Str(s, _) if !s.0.is_empty()));
        f
    });
    let streams = cdoc.objects.iter().any(|(_, _, o)| matches!(o, AObj::Stream(_, c) if !c.0.is_empty()));
    rep.nontrivial = strings && streams;
}

pub fn check(case: &Case) -> Verdict {
    // both directions for the same parameter tuple
    let a = check_a(case)?;
    let b = check_b(case)?;
    let mut rep = b;
    for l in a.labels {
        rep.label(l);
    }
    for e in a.excluded {
        rep.exclude(e);
    }
    rep.nontrivial = rep.nontrivial && a.nontrivial;
    Ok(rep)
}

/// known finding C06-length-in-encrypted-objstm: the failure disappears when the length holder is kept out of the
/// object streams, everything else equal
pub fn classify(case: &Case, _v: &Violation) -> Option<&'static str> {
    if case.objstm && case.length_in_objstm {
        let mut c = case.clone();
        c.length_in_objstm = false;
        if check(&c).is_ok() {
            return Some("C06-length-in-encrypted-objstm");
        }
    }
    None
}

pub fn strategy_with(sw: Switches, length_in_objstm: bool) -> BoxedStrategy<Case> {
    strategy(sw).prop_map(move |mut c| {
        c.length_in_objstm = length_in_objstm;
        if length_in_objstm {
            c.objstm = true;
        }
        c
    }).boxed()
}

pub fn strategy(sw: Switches) -> BoxedStrategy<Case> {
    (super::c05::strategy(sw), any::<u64>(), proptest::collection::vec(any::<u8>(), 0..200), any::<bool>(), prop_oneof![2 => Just(false), 1 => Just(true)])
        .prop_map(|(c, seed, tape, omit, objstm)| Case { cfg: c.cfg, doc: c.doc, xref_stream: c.xref_stream, seed, tape: B(tape), omit_identity_names: omit, objstm, length_in_objstm: false })
        .boxed()
}

pub fn run(run: &mut Run) {
    run.rule = "parameter tuples: revision 2,3,4,5,6 x key length (40..128 for V2) x crypt filters RC4 / AESV2 / AESV3 / None incl. the predefined Identity and per-stream Crypt overrides x EncryptMetadata x conforming permission words x user/owner passwords (empty owner, empty user, long, non-ASCII) x file identifiers x salts/IVs x documents with strings (also inside stream dictionaries) and streams. Direction A: lopdf builds the state and encrypts; an independent implementation of ISO 32000 Algorithms 1-13 over own MD5/SHA-2/AES/RC4 reads /Encrypt and the ciphertexts from memory and, through the strict reader, from the saved file, authenticates user AND owner password, validates /Perms and must decrypt to the plaintext. Direction B: the reference handler encrypts, the reference writer renders (random style; in a third of the cases with object streams, whose members stay plain while the container is encrypted), lopdf load_mem + decrypt(user) / decrypt(owner) must yield the plaintext. The reference first opens its own output (harness error otherwise). non-trivial = both directions executed with >= 1 non-empty string and >= 1 non-empty stream; distinct by case hash.".into();
    run.assumptions = vec![
        "REF-SEC implements the algorithms as summarised in DESIGN.md Appendix A.1 (round counting of 2.B as deployed readers do); primitives carry known-answer tests".into(),
        "passwords over alphabets whose preparation is known independently (see C05)".into(),
        "an empty AES ciphertext is accepted as an empty plaintext".into(),
    ];
    run.replay_known_demos(replay);
    let sw = super::c05::switches(run);
    let n = run.tier.pick(4_000, 120_000);
    let open = run.finding_open("C06-length-in-encrypted-objstm");
    run.campaign("both-directions", move || strategy_with(sw, false).prop_map(move |mut c| { c.length_in_objstm = !open && c.objstm; c }), n, check, classify);
    if open {
        // focused campaign with only this finding's construct on: every failure must match the finding's key
        // failures that match the finding's key are counted and the search goes on; anything else is reported
        let tolerant = |c: &Case| match check(c) {
            Err(v) if !v.kind.starts_with("harness-") && classify(c, &v).is_some() => {
                let mut rep = CaseReport::new();
                rep.exclude("known:C06-length-in-encrypted-objstm");
                Ok(rep)
            }
            other => other,
        };
        run.campaign("focused-length-in-encrypted-objstm", move || strategy_with(sw, true), run.tier.pick(400, 4000), tolerant, classify);
    }
}

pub fn replay(file: &Value) -> Result<Verdict, String> {
    Ok(check(&replay_case::<Case>(file)?))
}
