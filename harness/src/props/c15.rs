//! C15 — ToUnicode CMaps decode text as the CMap defines (DESIGN.md §7 C15).

use super::entries::{cmap_document, CMapSpec};
use crate::engine::{no_panic, replay_case, CaseReport, Run, Verdict};
use crate::model::B;
use crate::viol;
use lopdf::Document;
use proptest::collection::vec;
use proptest::prelude::*;
use serde::{Deserialize, Serialize};
use serde_json::Value;
use std::collections::BTreeMap;

#[derive(Clone, Debug, Serialize, Deserialize)]
pub enum Def {
    Char { len: u8, block: u8, lo: u8, target: Vec<u16> },
    /// single target: the offset within the range is added to the last UTF-16 unit
    Range { len: u8, block: u8, lo: u8, span: u8, target: Vec<u16>, split: Vec<u8> },
    /// one target per code
    Array { len: u8, block: u8, lo: u8, targets: Vec<Vec<u16>> },
}

#[derive(Clone, Debug, Serialize, Deserialize)]
pub struct Case {
    pub defs: Vec<Def>,
    /// indices into the list of mapped codes
    pub text: Vec<u16>,
    /// rendering choices
    pub tape: B,
    pub encoding: u8,
    pub compress: bool,
}

/// prefix-free code space: the first byte decides the code length
fn code_of(len: u8, block: u8, lo: u8) -> (u8, u32) {
    let len = len.clamp(1, 4);
    match len {
        // the integer values of codes of different lengths overlap on purpose (<41> and <000041> are different codes)
        1 => (1, 0x40 + (lo % 0x40) as u32),
        2 => (2, ((1 + (block % 3) as u32) << 8) | lo as u32),
        3 => (3, (((block % 4) as u32) << 8) | lo as u32),
        _ => (4, ((0xC0 + (block % 2) as u32) << 24) | (((block / 2) % 2) as u32) << 8 | lo as u32),
    }
}

fn max_lo(len: u8) -> u32 {
    if len.clamp(1, 4) == 1 {
        0x3f
    } else {
        0xff
    }
}

/// keep a target a valid UTF-16 sequence whose last unit can be incremented by `span` within its class
fn sanitise_target(t: &[u16], span: u32) -> Vec<u16> {
    let mut out: Vec<u16> = vec![];
    let mut i = 0;
    while i < t.len() && out.len() < 4 {
        let u = t[i];
        if (0xD800..0xDC00).contains(&u) {
            // high surrogate: pair it
            let lo = t.get(i + 1).copied().filter(|l| (0xDC00..0xE000).contains(l)).unwrap_or(0xDC00 + (u & 0xff));
            out.push(u);
            out.push(lo);
            i += 2;
            continue;
        }
        if (0xDC00..0xE000).contains(&u) {
            out.push(0x20 + (u & 0x3f));
        } else {
            out.push(u);
        }
        i += 1;
    }
    if out.is_empty() {
        out.push(0x41);
    }
    let last = *out.last().unwrap() as u32;
    let fixed = if (0xDC00..0xE000).contains(&(last as u16)) {
        // low surrogate of a pair: stay below 0xE000
        if last + span > 0xDFFF { 0xDFFF - span } else { last }
    } else if last < 0xD800 {
        if last + span >= 0xD800 { 0xD7FF - span } else { last }
    } else if last + span > 0xFFFF {
        0xFFFF - span
    } else {
        last
    };
    *out.last_mut().unwrap() = fixed as u16;
    out
}

struct Tape<'a> {
    t: &'a [u8],
    pos: usize,
}
impl Tape<'_> {
    fn pick(&mut self, n: usize) -> usize {
        let b = self.t.get(self.pos).copied().unwrap_or(0);
        self.pos += 1;
        if n <= 1 { 0 } else { b as usize % n }
    }
}

fn hex_code(t: &mut Tape, len: u8, code: u32) -> String {
    let s = format!("{:0width$X}", code, width = len as usize * 2);
    if t.pick(3) == 1 { s.to_lowercase() } else { s }
}

fn hex_target(t: &mut Tape, target: &[u16]) -> String {
    let mut s = String::new();
    for u in target {
        let h = format!("{:04X}", u);
        s.push_str(&if t.pick(3) == 1 { h.to_lowercase() } else { h });
    }
    s
}

fn gap(t: &mut Tape) -> &'static str {
    ["", " ", " ", "\t", "  "][t.pick(5)]
}

fn eol(t: &mut Tape) -> &'static str {
    ["\n", "\n", "\r\n", "\r", " \n", "\n% a comment line\n", "\t\n"][t.pick(7)]
}

#[derive(Clone)]
enum Line {
    Char(String),
    Range(String),
}

pub struct Rendered {
    pub cmap: Vec<u8>,
    /// reference table after all definitions: (len, code) -> target
    pub table: BTreeMap<(u8, u32), Vec<u16>>,
    pub multi_unit: bool,
    pub array_target: bool,
    pub overlap_or_adjacent: bool,
}

pub fn render(case: &Case) -> Rendered {
    let mut t = Tape { t: &case.tape.0, pos: 0 };
    let mut table: BTreeMap<(u8, u32), Vec<u16>> = BTreeMap::new();
    let mut lines: Vec<Line> = vec![];
    let mut multi_unit = false;
    let mut array_target = false;
    let mut overlap = false;
    let note = |table: &BTreeMap<(u8, u32), Vec<u16>>, len: u8, a: u32, b: u32, overlap: &mut bool| {
        // overlap with, or adjacency to, an existing definition of the same length
        let lo = a.saturating_sub(1);
        let hi = b.saturating_add(1);
        if table.range((len, lo)..=(len, hi)).next().is_some() {
            *overlap = true;
        }
    };
    for d in &case.defs {
        match d {
            Def::Char { len, block, lo, target } => {
                let (len, code) = code_of(*len, *block, *lo);
                let target = sanitise_target(target, 0);
                note(&table, len, code, code, &mut overlap);
                multi_unit |= target.len() > 1;
                let c = hex_code(&mut t, len, code);
                let g = gap(&mut t);
                let tg = hex_target(&mut t, &target);
                lines.push(Line::Char(format!("<{}>{}<{}>", c, g, tg)));
                table.insert((len, code), target);
            }
            Def::Range { len, block, lo, span, target, split } => {
                let (len, start) = code_of(*len, *block, *lo);
                let room = max_lo(len) - (start & 0xff).min(max_lo(len));
                let span = (*span as u32 % 24).min(room);
                let end = start + span;
                let target = sanitise_target(target, span);
                note(&table, len, start, end, &mut overlap);
                multi_unit |= target.len() > 1;
                // optional splitting into several consecutive ranges / single chars (same meaning)
                let mut cuts: Vec<u32> = split.iter().map(|c| *c as u32 % (span + 1)).filter(|c| *c > 0).collect();
                cuts.sort();
                cuts.dedup();
                let mut pieces = vec![];
                let mut from = 0u32;
                for c in cuts {
                    pieces.push((from, c - 1));
                    from = c;
                }
                pieces.push((from, span));
                for (a, b) in pieces {
                    let mut tg = target.clone();
                    *tg.last_mut().unwrap() += a as u16;
                    if a == b && t.pick(2) == 1 {
                        let c = hex_code(&mut t, len, start + a);
                        let g = gap(&mut t);
                        let h = hex_target(&mut t, &tg);
                        lines.push(Line::Char(format!("<{}>{}<{}>", c, g, h)));
                    } else {
                        let c1 = hex_code(&mut t, len, start + a);
                        let g1 = gap(&mut t);
                        let c2 = hex_code(&mut t, len, start + b);
                        let g2 = gap(&mut t);
                        let h = hex_target(&mut t, &tg);
                        lines.push(Line::Range(format!("<{}>{}<{}>{}<{}>", c1, g1, c2, g2, h)));
                    }
                }
                for k in 0..=span {
                    let mut tg = target.clone();
                    *tg.last_mut().unwrap() += k as u16;
                    table.insert((len, start + k), tg);
                }
            }
            Def::Array { len, block, lo, targets } => {
                if targets.is_empty() {
                    continue;
                }
                let (len, start) = code_of(*len, *block, *lo);
                let room = max_lo(len) - (start & 0xff).min(max_lo(len));
                let n = (targets.len() as u32).min(room + 1).min(12);
                let end = start + n - 1;
                note(&table, len, start, end, &mut overlap);
                array_target = true;
                let tgs: Vec<Vec<u16>> = targets.iter().take(n as usize).map(|x| sanitise_target(x, 0)).collect();
                let c1 = hex_code(&mut t, len, start);
                let g1 = gap(&mut t);
                let c2 = hex_code(&mut t, len, end);
                let g2 = gap(&mut t);
                let mut arr = String::from("[");
                arr.push_str(gap(&mut t));
                for (i, tg) in tgs.iter().enumerate() {
                    if i > 0 {
                        arr.push_str([" ", "  ", "\t"][t.pick(3)]);
                    }
                    arr.push('<');
                    arr.push_str(&hex_target(&mut t, tg));
                    arr.push('>');
                }
                arr.push_str(gap(&mut t));
                arr.push(']');
                // an array of one element is the same as a single-target range of one code
                lines.push(Line::Range(format!("<{}>{}<{}>{}{}", c1, g1, c2, g2, arr)));
                for (k, tg) in tgs.into_iter().enumerate() {
                    multi_unit |= tg.len() > 1;
                    table.insert((len, start + k as u32), tg);
                }
            }
        }
    }
    // envelope: the Adobe template the parser documents
    let mut s = String::new();
    s.push_str("/CIDInit /ProcSet findresource begin\n12 dict begin\nbegincmap\n");
    match t.pick(3) {
        0 => s.push_str("/CIDSystemInfo\n<< /Registry (Adobe)\n/Ordering (UCS)\n/Supplement 0\n>> def\n/CMapName /Adobe-Identity-UCS def\n/CMapType 2 def\n"),
        1 => s.push_str("/CMapName /Adobe-Identity-UCS def\n/CMapType 2 def\n"),
        _ => s.push_str("/CIDSystemInfo << /Registry (Adobe) /Ordering (UCS) /Supplement 0 >> def\n/CMapType 2 def\n"),
    }
    s.push_str("4 begincodespacerange\n<40> <7F>\n<0100> <03FF>\n<000000> <0003FF>\n<C0000000> <C1FFFFFF>\nendcodespacerange\n");
    if lines.is_empty() {
        // the grammar needs at least one mapping entry per section; an empty map still has the codespace section
    }
    let mut i = 0;
    while i < lines.len() {
        let is_char = matches!(lines[i], Line::Char(_));
        let mut j = i;
        let limit = 1 + t.pick(100);
        while j < lines.len() && matches!(lines[j], Line::Char(_)) == is_char && j - i < limit {
            j += 1;
        }
        s.push_str(&format!("{} {}", j - i, if is_char { "beginbfchar" } else { "beginbfrange" }));
        s.push_str(eol(&mut t));
        for l in &lines[i..j] {
            s.push_str(gap(&mut t));
            match l {
                Line::Char(x) | Line::Range(x) => s.push_str(x),
            }
            s.push_str(eol(&mut t));
        }
        s.push_str(if is_char { "endbfchar" } else { "endbfrange" });
        s.push_str(eol(&mut t));
        i = j;
    }
    s.push_str("endcmap\nCMapName currentdict /CMap defineresource pop\nend\nend\n");
    Rendered { cmap: s.into_bytes(), table, multi_unit, array_target, overlap_or_adjacent: overlap }
}

pub fn check(case: &Case) -> Verdict {
    let mut rep = CaseReport::new();
    let r = render(case);
    let codes: Vec<(u8, u32)> = r.table.keys().cloned().collect();
    let mut bytes = vec![];
    let mut units: Vec<u16> = vec![];
    if !codes.is_empty() {
        for i in &case.text {
            let (len, code) = codes[(*i as usize * codes.len()) >> 16];
            for k in (0..len).rev() {
                bytes.push((code >> (8 * k)) as u8);
            }
            units.extend(&r.table[&(len, code)]);
        }
    }
    let expected = String::from_utf16(&units).map_err(|_| viol!("harness-invalid-utf16", "generator produced an invalid UTF-16 sequence"))?;
    let enc_name = match case.encoding % 3 {
        0 => Some(B::from("Identity-H")),
        1 => Some(B::from("Identity-V")),
        _ => None,
    };
    let spec = CMapSpec { cmap: B(r.cmap.clone()), codes: B(bytes.clone()), encoding: enc_name, compress: case.compress };
    let (doc, fid) = cmap_document(&spec);
    let font = doc.get_dictionary(fid).unwrap();
    let show = || String::from_utf8_lossy(&r.cmap).to_string();
    let enc = no_panic("get_font_encoding", || font.get_font_encoding(&doc))?
        .map_err(|e| viol!("cmap-rejected", "get_font_encoding rejects a well-formed ToUnicode CMap: {:?}\n{}", e, show()))?;
    if !matches!(enc, lopdf::Encoding::UnicodeMapEncoding(_)) {
        return Err(viol!("cmap-rejected", "get_font_encoding did not return the ToUnicode map: {:?}", enc));
    }
    let got = no_panic("decode_text", || Document::decode_text(&enc, &bytes))?.map_err(|e| viol!("decode-error", "decode_text: {:?}\n{}", e, show()))?;
    if got != expected {
        // locate the first differing code
        let mut detail = String::new();
        let mut pos = 0;
        if !codes.is_empty() {
            for i in &case.text {
                let (len, code) = codes[(*i as usize * codes.len()) >> 16];
                let one: Vec<u8> = (0..len).rev().map(|k| (code >> (8 * k)) as u8).collect();
                let exp1 = String::from_utf16_lossy(&r.table[&(len, code)]);
                let got1 = Document::decode_text(&enc, &one).unwrap_or_default();
                if exp1 != got1 {
                    detail = format!("code <{:0w$X}> (position {}) decodes to {:?}, the CMap defines {:?}", code, pos, got1, exp1, w = len as usize * 2);
                    break;
                }
                pos += 1;
            }
        }
        return Err(viol!("text-differs", "decoded {:?}, expected {:?}; {}\n{}", got, expected, detail, show()));
    }
    rep.label_if(r.multi_unit, "multi-unit-target");
    rep.label_if(r.array_target, "array-target");
    rep.label_if(r.overlap_or_adjacent, "overlap-or-adjacent");
    rep.label_if(units.iter().any(|u| (0xD800..0xDC00).contains(u)), "surrogate-pair");
    rep.label_if(codes.iter().any(|c| c.0 == 1), "1-byte-codes");
    rep.label_if(codes.iter().any(|c| c.0 == 3), "3-byte-codes");
    rep.label_if(codes.iter().any(|c| c.0 == 4), "4-byte-codes");
    rep.label_if(case.compress, "flate");
    rep.nontrivial = (r.multi_unit || r.array_target) && r.overlap_or_adjacent && case.text.len() >= 3 && !codes.is_empty();
    Ok(rep)
}

fn target_strategy() -> BoxedStrategy<Vec<u16>> {
    let unit = prop_oneof![
        4 => 0x20u16..0x7f,
        3 => 0x00A0u16..0x3000,
        1 => 0xD7F0u16..0xD800,
        1 => 0xE000u16..0xE010,
        1 => 0xFFF0u16..=0xFFFF,
        1 => 0xD800u16..0xDC00,
    ];
    prop_oneof![5 => vec(unit.clone(), 1..2), 3 => vec(unit.clone(), 2..4), 1 => Just(vec![0xD83D, 0xDE00])].boxed()
}

pub fn case_strategy() -> BoxedStrategy<Case> {
    let len = prop_oneof![2 => Just(1u8), 6 => Just(2u8), 1 => Just(3u8), 1 => Just(4u8)];
    let lo = prop_oneof![6 => 0u8..24, 1 => any::<u8>(), 1 => 0xf0u8..=0xff];
    let def = prop_oneof![
        3 => (len.clone(), prop_oneof![3 => Just(0u8), 1 => 0u8..4], lo.clone(), target_strategy()).prop_map(|(len, block, lo, target)| Def::Char { len, block, lo, target }),
        4 => (len.clone(), prop_oneof![3 => Just(0u8), 1 => 0u8..4], lo.clone(), 0u8..24, target_strategy(), vec(any::<u8>(), 0..3)).prop_map(|(len, block, lo, span, target, split)| Def::Range { len, block, lo, span, target, split }),
        3 => (len, prop_oneof![3 => Just(0u8), 1 => 0u8..4], lo, vec(target_strategy(), 1..8)).prop_map(|(len, block, lo, targets)| Def::Array { len, block, lo, targets }),
    ];
    (vec(def, 1..10), vec(any::<u16>(), 0..12), vec(any::<u8>(), 0..200), any::<u8>(), any::<bool>())
        .prop_map(|(defs, text, tape, encoding, compress)| Case { defs, text, tape: B(tape), encoding, compress })
        .boxed()
}

pub fn run(run: &mut Run) {
    run.rule = "cases: a list of 1..9 definitions (bfchar with 1..3 units or a surrogate pair; bfrange with a single target incremented on the last unit; bfrange with an array target) applied in order to a reference table (code length, code) -> UTF-16 target, 'last definition wins'; codes of 1-4 bytes in a prefix-free code space (first byte decides the length; the integer values of 1-, 2- and 3-byte codes overlap), ranges inside one low-byte block, positions drawn from a small pool so that overlaps and adjacencies (equal and different targets) are frequent; rendered as a CMap with random sectioning (<=100 entries), splitting of ranges into sub-ranges/chars, hex case, operand spacing, LF/CR/CRLF, trailing blanks and comment lines, optional Flate, Encoding Identity-H / Identity-V / absent. Oracle: get_font_encoding + Document::decode_text of a string over the mapped codes = UTF-16 decoding of the concatenated reference targets. non-trivial = a multi-unit or array target AND an overlap/adjacency, text of >= 3 codes; distinct by case hash.".into();
    run.assumptions = vec![
        "the envelope is the Adobe template the parser documents; other envelopes and unmapped codes are C04's business".into(),
        "targets are valid UTF-16 and incrementing ranges do not leave the class of their last unit".into(),
    ];
    run.replay_known_demos(replay);
    let n = run.tier.pick(150_000, 3_000_000);
    run.campaign("cmap-model", case_strategy, n, check, |_c, _v| None);
}

pub fn replay(file: &Value) -> Result<Verdict, String> {
    Ok(check(&replay_case::<Case>(file)?))
}
