//! C17 — bookmarks become a well-formed outline that reads back (DESIGN.md §7 C17).

use super::common::*;
use crate::engine::{no_panic, replay_case, CaseReport, Run, Verdict, Violation};
use crate::viol;
use lopdf::{dictionary, Bookmark, Document, Object, ObjectId};
use proptest::collection::vec;
use proptest::prelude::*;
use serde::{Deserialize, Serialize};
use serde_json::Value;
use std::collections::{BTreeMap, BTreeSet};

#[derive(Clone, Debug, Serialize, Deserialize)]
pub struct Bm {
    pub title: String,
    /// None = top level; Some(slot) = child of an earlier bookmark
    pub parent: Option<u16>,
    /// page index, or None for a zero page (0,0) to be fixed up by adjust_zero_pages
    pub page: Option<u8>,
    pub format: u8,
    pub color: [u8; 3],
}

#[derive(Clone, Debug, Serialize, Deserialize)]
pub struct Case {
    pub n_pages: u8,
    pub bookmarks: Vec<Bm>,
    pub xref_stream: bool,
    /// extra objects before the pages so that ids are not trivially small
    pub padding: u8,
    /// the document already has named destinations: 0 none; 1 /Names /Dests tree with a valid, a dictionary-valued
    /// and a dangling entry; 2 the same tree as the (PDF 1.1) /Dests entry of the catalog
    #[serde(default)]
    pub name_tree: u8,
}

struct Node {
    title: String,
    page: ObjectId,
    children: Vec<usize>,
    parent: Option<usize>,
}

fn eff_page(nodes: &[Node], i: usize) -> ObjectId {
    if nodes[i].page.0 != 0 {
        return nodes[i].page;
    }
    for c in &nodes[i].children {
        let p = eff_page(nodes, *c);
        if p.0 != 0 {
            return p;
        }
    }
    (0, 0)
}

fn title_bytes_to_string(b: &[u8]) -> String {
    if b.len() >= 2 && b[0] == 0xFE && b[1] == 0xFF {
        let units: Vec<u16> = b[2..].chunks(2).map(|c| if c.len() == 2 { u16::from_be_bytes([c[0], c[1]]) } else { c[0] as u16 }).collect();
        String::from_utf16_lossy(&units)
    } else {
        String::from_utf8_lossy(b).to_string()
    }
}

pub fn check(case: &Case) -> Verdict {
    let mut rep = CaseReport::new();
    let n_pages = case.n_pages.clamp(1, 8) as usize;
    let mut doc = Document::with_version("1.5");
    for i in 0..case.padding % 5 {
        doc.add_object(Object::Integer(i as i64));
    }
    let pages_id = doc.new_object_id();
    let mut page_ids = vec![];
    for _ in 0..n_pages {
        page_ids.push(doc.add_object(dictionary! { "Type" => "Page", "Parent" => pages_id }));
    }
    doc.objects.insert(
        pages_id,
        Object::Dictionary(dictionary! { "Type" => "Pages", "Kids" => page_ids.iter().map(|p| Object::Reference(*p)).collect::<Vec<_>>(), "Count" => n_pages as i64 }),
    );
    let mut catalog = dictionary! { "Type" => "Catalog", "Pages" => pages_id };
    if case.name_tree % 3 != 0 {
        let fit = |p: ObjectId| Object::Array(vec![Object::Reference(p), "Fit".into()]);
        let held = doc.add_object(dictionary! { "D" => fit(page_ids[0]) });
        let tree = doc.add_object(dictionary! {
            "Names" => vec![
                Object::string_literal("alpha"), fit(page_ids[0]),
                Object::string_literal("beta"), Object::Reference(held),
                Object::string_literal("gone"), Object::Reference((9_000_000, 0)),
                Object::string_literal("inline"), Object::Dictionary(dictionary! { "D" => fit(page_ids[n_pages - 1]) }),
            ],
        });
        if case.name_tree % 3 == 1 {
            catalog.set("Names", dictionary! { "Dests" => tree });
        } else {
            catalog.set("Dests", tree);
        }
    }
    let catalog_id = doc.add_object(catalog);
    doc.trailer.set("Root", catalog_id);
    doc.reference_table.cross_reference_type = if case.xref_stream { lopdf::xref::XrefType::CrossReferenceStream } else { lopdf::xref::XrefType::CrossReferenceTable };
    // model + calls
    let mut nodes: Vec<Node> = vec![];
    let mut top: Vec<usize> = vec![];
    let mut ids: Vec<u32> = vec![];
    for (i, b) in case.bookmarks.iter().enumerate() {
        // distinct titles: precondition of get_toc, which keys by title
        let title = format!("{}\u{1}{}", b.title, i);
        let page = match b.page {
            Some(p) => page_ids[(p as usize * n_pages) >> 8],
            None => (0, 0),
        };
        let parent = b.parent.filter(|_| !nodes.is_empty()).map(|s| (s as usize * nodes.len()) >> 16);
        let color = [b.color[0] as f32 / 255.0, b.color[1] as f32 / 255.0, b.color[2] as f32 / 255.0];
        let id = no_panic("add_bookmark", || doc.add_bookmark(Bookmark::new(title.clone(), color, (b.format % 4) as u32, page), parent.map(|p| ids[p])))?;
        if ids.contains(&id) {
            return Err(viol!("id-not-fresh", "add_bookmark returned id {} twice", id));
        }
        ids.push(id);
        nodes.push(Node { title, page, children: vec![], parent });
        match parent {
            Some(p) => nodes[p].children.push(i),
            None => top.push(i),
        }
    }
    // identifiers handed out by new_object_id() but not stored yet are taken as well (an application reserves ids for
    // objects it inserts later): derived from the case, 0..3 of them in every other case
    let reserve = if case.padding & 1 == 1 { (case.padding >> 1) % 4 } else { 0 };
    for _ in 0..reserve {
        doc.new_object_id();
    }
    let old_max = doc.max_id;
    let old_ids: BTreeSet<ObjectId> = doc.objects.keys().cloned().collect();
    no_panic("adjust_zero_pages", || doc.adjust_zero_pages())?;
    let outline_id = no_panic("build_outline", || doc.build_outline())?;
    if nodes.is_empty() {
        if outline_id.is_some() {
            return Err(viol!("link-inconsistent", "build_outline returned an outline for a document without bookmarks"));
        }
        return Ok(rep);
    }
    let outline_id = outline_id.ok_or_else(|| viol!("link-inconsistent", "build_outline returned None although {} bookmarks exist", nodes.len()))?;
    // fresh identifiers
    let new_ids: Vec<ObjectId> = doc.objects.keys().filter(|k| !old_ids.contains(k)).cloned().collect();
    for id in &new_ids {
        if id.0 <= old_max {
            return Err(viol!("id-not-fresh", "outline object {:?} does not lie above the previous max_id {}", id, old_max));
        }
    }
    rep.label_if(reserve > 0, "identifiers-reserved-before-build_outline");
    if doc.max_id < new_ids.iter().map(|i| i.0).max().unwrap_or(0) {
        return Err(viol!("id-not-fresh", "max_id {} is below an outline object id", doc.max_id));
    }
    for id in &old_ids {
        // nothing that existed may have been overwritten
        if !doc.objects.contains_key(id) {
            return Err(viol!("id-not-fresh", "object {:?} disappeared while building the outline", id));
        }
    }
    // walk the outline objects and compare with the forest
    fn getd(doc: &Document, id: ObjectId) -> Result<&lopdf::Dictionary, Violation> {
        doc.get_dictionary(id).map_err(|e| viol!("link-inconsistent", "outline object {:?} missing: {:?}", id, e))
    }
    fn refkey(d: &lopdf::Dictionary, k: &[u8]) -> Option<ObjectId> {
        d.get(k).ok().and_then(|o| o.as_reference().ok())
    }
    fn walk(doc: &Document, parent_id: ObjectId, kids: &[usize], nodes: &[Node], seen: &mut BTreeSet<ObjectId>) -> Result<(), Violation> {
        let get = |id: ObjectId| getd(doc, id);
        let pd = get(parent_id)?;
        let first = refkey(pd, b"First");
        let last = refkey(pd, b"Last");
        if kids.is_empty() {
            if first.is_some() || last.is_some() {
                return Err(viol!("link-inconsistent", "node {:?} has First/Last but no children in the forest", parent_id));
            }
            return Ok(());
        }
        let mut cur = first.ok_or_else(|| viol!("link-inconsistent", "node {:?} with {} children lacks First", parent_id, kids.len()))?;
        let mut prev: Option<ObjectId> = None;
        for (k, idx) in kids.iter().enumerate() {
            if !seen.insert(cur) {
                return Err(viol!("link-inconsistent", "outline item {:?} is linked twice", cur));
            }
            let d = get(cur)?;
            if refkey(d, b"Parent") != Some(parent_id) {
                return Err(viol!("link-inconsistent", "item {:?}: Parent is {:?}, expected {:?}", cur, refkey(d, b"Parent"), parent_id));
            }
            if refkey(d, b"Prev") != prev {
                return Err(viol!("link-inconsistent", "item {:?}: Prev is {:?}, expected {:?}", cur, refkey(d, b"Prev"), prev));
            }
            let title = d.get(b"Title").and_then(Object::as_str).map_err(|_| viol!("title-wrong", "item {:?} has no Title string", cur))?;
            let t = title_bytes_to_string(title);
            if t != nodes[*idx].title {
                return Err(viol!("order-wrong", "item {:?} (child #{} of {:?}) carries title {:?}, expected {:?} (sibling order = insertion order)", cur, k, parent_id, t, nodes[*idx].title));
            }
            let decoded = lopdf::decode_text_string(d.get(b"Title").unwrap());
            if nodes[*idx].title.chars().all(|c| (' '..='~').contains(&c)) || !nodes[*idx].title.is_ascii() {
                // (ASCII titles holding control characters are raw bytes in a PDFDocEncoding string: read by get_toc as UTF-8)
                if decoded.as_deref().ok() != Some(&nodes[*idx].title[..]) {
                    return Err(viol!("title-wrong", "item {:?}: Title decodes to {:?}, expected {:?}", cur, decoded, nodes[*idx].title));
                }
            }
            let a = refkey(d, b"A").ok_or_else(|| viol!("dest-wrong", "item {:?} lacks an action reference", cur))?;
            let ad = get(a)?;
            let expected_page = eff_page(nodes, *idx);
            let s_ok = ad.get(b"S").and_then(Object::as_name).ok() == Some(&b"GoTo"[..]);
            let dest = ad.get(b"D").and_then(Object::as_array).map_err(|_| viol!("dest-wrong", "action {:?} lacks a D array", a))?;
            let d_ok = dest.len() == 2 && dest[0] == Object::Reference(expected_page) && dest[1].as_name().ok() == Some(&b"Fit"[..]);
            if !s_ok || !d_ok {
                return Err(viol!("dest-wrong", "item {:?}: action {:?}, expected GoTo [{:?} /Fit]", cur, ad, expected_page));
            }
            walk(doc, cur, &nodes[*idx].children, nodes, seen)?;
            if !nodes[*idx].children.is_empty() {
                let cnt = d.get(b"Count").and_then(Object::as_i64).ok();
                if cnt != Some(nodes[*idx].children.len() as i64) {
                    return Err(viol!("link-inconsistent", "item {:?}: Count {:?}, expected {}", cur, cnt, nodes[*idx].children.len()));
                }
            }
            prev = Some(cur);
            let next = refkey(d, b"Next");
            if k + 1 < kids.len() {
                cur = next.ok_or_else(|| viol!("link-inconsistent", "item {:?} lacks Next although {} siblings follow", cur, kids.len() - k - 1))?;
            } else {
                if next.is_some() {
                    return Err(viol!("link-inconsistent", "last sibling {:?} has a Next", cur));
                }
                if last != Some(cur) {
                    return Err(viol!("link-inconsistent", "node {:?}: Last is {:?}, the last child is {:?}", parent_id, last, cur));
                }
            }
        }
        Ok(())
    }
    let mut seen = BTreeSet::new();
    walk(&doc, outline_id, &top, &nodes, &mut seen)?;
    if seen.len() != nodes.len() {
        return Err(viol!("link-inconsistent", "{} outline items are linked, {} bookmarks were added", seen.len(), nodes.len()));
    }
    // install and read back
    doc.catalog_mut().map_err(|e| viol!("harness-catalog", "{:?}", e))?.set("Outlines", Object::Reference(outline_id));
    let page_no: BTreeMap<ObjectId, usize> = page_ids.iter().enumerate().map(|(i, p)| (*p, i + 1)).collect();
    let mut expected: Vec<(String, usize, usize)> = vec![];
    fn preorder(nodes: &[Node], kids: &[usize], level: usize, page_no: &BTreeMap<ObjectId, usize>, out: &mut Vec<(String, usize, usize)>) {
        for k in kids {
            let p = eff_page(nodes, *k);
            if let Some(n) = page_no.get(&p) {
                out.push((nodes[*k].title.clone(), level, *n));
            }
            preorder(nodes, &nodes[*k].children, level + 1, page_no, out);
        }
    }
    preorder(&nodes, &top, 1, &page_no, &mut expected);
    let compare = |d: &Document, what: &str, kind: &str| -> Result<(), Violation> {
        let toc = no_panic("get_toc", || d.get_toc())?.map_err(|e| Violation::new(kind, format!("{}: get_toc fails: {:?}", what, e)))?;
        let got: Vec<(String, usize, usize)> = toc.toc.iter().map(|t| (t.title.clone(), t.level, t.page)).collect();
        if got != expected {
            let p = got.iter().zip(expected.iter()).position(|(a, b)| a != b).unwrap_or(got.len().min(expected.len()));
            return Err(Violation::new(kind, format!("{}: table of contents has {} entries, expected {}; first difference at {}: got {:?}, expected {:?}; errors {:?}", what, got.len(), expected.len(), p, got.get(p), expected.get(p), toc.errors)));
        }
        Ok(())
    };
    compare(&doc, "in memory", "toc-differs")?;
    let bytes = save(&mut doc)?;
    let loaded = load(&bytes)?;
    compare(&loaded, "after save + load", "toc-differs-after-reload")?;
    let depth = nodes.iter().map(|n| { let mut d = 1; let mut p = n.parent; while let Some(q) = p { d += 1; p = nodes[q].parent; } d }).max().unwrap_or(0);
    rep.label_if(depth >= 2, "depth>=2");
    rep.label_if(depth >= 4, "depth>=4");
    rep.label_if(nodes.iter().any(|n| !n.title.is_ascii()), "non-ascii-title");
    rep.label_if(nodes.iter().any(|n| n.page.0 == 0), "zero-page-bookmark");
    rep.label_if(expected.len() < nodes.len(), "bookmark-without-page-omitted");
    rep.nontrivial = nodes.len() >= 3 && depth >= 2 && nodes.iter().any(|n| !n.title.is_ascii());
    Ok(rep)
}

pub fn strategy() -> BoxedStrategy<Case> {
    let ch = prop_oneof![5 => (0x20u32..0x7f), 1 => (1u32..0x20), 3 => (0xa0u32..0x3000), 1 => (0x10000u32..0x10ffff), 1 => Just(0x28u32), 1 => Just(0x5cu32), 1 => (0xe000u32..0xf900)]
        .prop_map(|c| char::from_u32(c).unwrap_or('?'));
    let bm = (vec(ch, 0..10), proptest::option::weighted(0.6, any::<u16>()), proptest::option::weighted(0.75, any::<u8>()), any::<u8>(), any::<[u8; 3]>())
        .prop_map(|(t, parent, page, format, color)| Bm { title: t.into_iter().collect(), parent, page, format, color });
    (1u8..=8, vec(bm, 0..25), any::<bool>(), any::<u8>(), prop_oneof![3 => Just(0u8), 1 => Just(1u8), 1 => Just(2u8)]).prop_map(|(n_pages, bookmarks, xref_stream, padding, name_tree)| Case { n_pages, bookmarks, xref_stream, padding, name_tree }).boxed()
}

pub fn run(run: &mut Run) {
    run.rule = "cases: documents with 1..8 pages (two in five already carrying a named-destination tree with a valid, a dictionary-valued, an inline and a dangling entry, under /Names /Dests or /Dests) and 0..24 add_bookmark calls, parent = none or any earlier bookmark (children attached in any order, any depth and fan-out), distinct titles over printable ASCII, C0 controls, BMP and astral characters (distinctness is get_toc's stated precondition), targets on real pages or zero pages fixed up by adjust_zero_pages. Oracle: after adjust_zero_pages + build_outline every created object has an id above the previous max_id, no existing object was overwritten, First/Last/Next/Prev/Parent/Count are mutually consistent and siblings follow insertion order under the right parent, Title decodes to the title, /A is GoTo with D [effective page /Fit]; get_toc() = preorder (title, level, page number) of the forest, in memory and after save_to + load_mem (both xref formats). non-trivial = >= 3 bookmarks, depth >= 2, >= 1 non-ASCII title; distinct by case hash.".into();
    run.assumptions = vec![
        "a bookmark whose effective page is (0,0) (zero page without any descendant on a real page) is not expected in the table of contents".into(),
        "effective page of a zero-page bookmark = page of its first descendant (preorder) that has one".into(),
    ];
    run.replay_known_demos(replay);
    let n = run.tier.pick(12_000, 400_000);
    run.campaign("bookmark-forests", strategy, n, check, |_c, _v| None);
}

pub fn replay(file: &Value) -> Result<Verdict, String> {
    Ok(check(&replay_case::<Case>(file)?))
}
