//! C11 — editing operations keep the document sound (DESIGN.md §7 C11).
//! Model-based: a program of editing operations is interpreted against lopdf; after every step the state is
//! compared with what the operation's documented effect implies, computed by independent code in this file
//! (own reachability, own page-tree walk, own reference stripping, own effective-resources lookup).

use super::c14::{compare_ops, op_strategy, to_content, Op as COp};
use super::common::*;
use crate::canon::{self, Opts};
use crate::engine::{no_panic, replay_case, CaseReport, Run, Verdict, Violation};
use crate::gen::objects::ObjOpts;
use crate::model::B;
use crate::viol;
use lopdf::content::{Content, Operation};
use lopdf::{dictionary, Bookmark, Dictionary, Document, Object, ObjectId, Stream};
use proptest::collection::vec;
use proptest::prelude::*;
use serde::{Deserialize, Serialize};
use serde_json::Value;
use std::collections::{BTreeMap, BTreeSet};

pub const MARK: &[u8] = b"VId";

// ------------------------------------------------------------------ start state

#[derive(Clone, Debug, Serialize, Deserialize)]
pub struct PageSpec {
    /// 0 = no Contents, 1 = one reference, 2 = array of one, 3 = array of two
    pub contents: u8,
    /// 0 = none (inherits), 1 = own direct dictionary, 2 = reference to a resources object
    pub resources: u8,
    pub annots: u8,
    /// content produced by Content::encode (no trailing newline) or hand-written with a trailing newline
    pub encoded_by_lopdf: bool,
    pub compressed: bool,
}

#[derive(Clone, Debug, Serialize, Deserialize)]
pub struct Start {
    /// pages grouped under intermediate nodes: each inner vec is one intermediate Pages node
    pub groups: Vec<Vec<PageSpec>>,
    /// resources on the root node: 0 none, 1 direct, 2 reference
    pub root_resources: u8,
    /// resources on intermediate nodes (cycled)
    pub group_resources: Vec<u8>,
    /// extra dictionaries: list of reference slots (duplicates likely), anchored or not
    pub extras: Vec<(Vec<u16>, bool, bool)>,
    pub reload: bool,
    pub xref_stream: bool,
}

#[derive(Clone, Debug, Serialize, Deserialize)]
pub enum Op {
    NewObjectId,
    AddObject { refs: Vec<u16> },
    SetObject { slot: u16, refs: Vec<u16> },
    DeleteObject { slot: u16 },
    RemoveAnnotation { slot: u16 },
    Prune,
    DeletePages { pages: Vec<u8> },
    Renumber { start: Option<u32> },
    Compress,
    Decompress,
    ChangePageContent { page: u8, ops: Vec<COp> },
    AddPageContents { page: u8, ops: Vec<COp> },
    AddToPageContent { page: u8, ops: Vec<COp> },
    AddXObject { page: u8, name: u8 },
    AddGraphicsState { page: u8, name: u8 },
    Bookmarks { n: u8 },
    Save { continue_on_reloaded: bool },
}

#[derive(Clone, Debug, Serialize, Deserialize)]
pub struct Case {
    pub start: Start,
    pub program: Vec<Op>,
}

struct Builder {
    doc: Document,
    next_mark: i64,
}

impl Builder {
    fn add(&mut self, mut d: Dictionary) -> ObjectId {
        self.next_mark += 1;
        d.set(MARK, Object::Integer(self.next_mark));
        self.doc.add_object(Object::Dictionary(d))
    }
    fn add_stream(&mut self, mut d: Dictionary, content: Vec<u8>, compress: bool) -> ObjectId {
        self.next_mark += 1;
        d.set(MARK, Object::Integer(self.next_mark));
        let mut s = Stream::new(d, content);
        if compress {
            let _ = s.compress();
        }
        self.doc.add_object(Object::Stream(s))
    }
}

fn sample_ops(i: usize) -> Vec<Operation> {
    vec![
        Operation::new("BT", vec![]),
        Operation::new("Tf", vec!["F1".into(), 12.into()]),
        Operation::new("Tj", vec![Object::string_literal(format!("page text {} ( with ) \\ bytes", i).into_bytes())]),
        Operation::new("ET", vec![]),
    ]
}

/// style 0: Font and XObject as direct dictionaries; 1: plus an ExtGState dictionary; 2: XObject and ExtGState held
/// behind references (as most producers write them)
fn resources_dict(b: &mut Builder, tag: &str, style: u8) -> Dictionary {
    let font = b.add(dictionary! { "Type" => "Font", "Subtype" => "Type1", "BaseFont" => "Courier" });
    let xo = b.add_stream(dictionary! { "Type" => "XObject", "Subtype" => "Form" }, format!("% form of {}\n", tag).into_bytes(), false);
    let mut d = dictionary! {
        "Font" => dictionary! { "F1" => font, format!("F{}", tag) => font },
    };
    let xobjects = dictionary! { format!("X{}", tag) => xo };
    if style % 3 == 0 {
        d.set("XObject", xobjects);
        return d;
    }
    let gs = b.add(dictionary! { "Type" => "ExtGState", "LW" => 2 });
    let states = dictionary! { format!("G{}", tag) => gs };
    if style % 3 == 1 {
        d.set("XObject", xobjects);
        d.set("ExtGState", states);
    } else {
        let x = b.add(xobjects);
        let s = b.add(states);
        d.set("XObject", x);
        d.set("ExtGState", s);
    }
    d
}

pub fn build(start: &Start) -> Document {
    let mut b = Builder { doc: Document::with_version("1.5"), next_mark: 0 };
    let info = b.add(dictionary! { "Title" => Object::string_literal("model test") });
    let root_id = b.doc.new_object_id();
    let mut root_kids = vec![];
    let mut total = 0i64;
    let mut annots_all = vec![];
    let mut page_no = 0usize;
    for (gi, group) in start.groups.iter().enumerate() {
        let gid = b.doc.new_object_id();
        let mut kids = vec![];
        for spec in group {
            page_no += 1;
            let mut page = dictionary! { "Type" => "Page", "Parent" => gid };
            let mk_content = |b: &mut Builder, k: usize| -> ObjectId {
                let predictor = spec.compressed && spec.annots % 2 == 1;
                // long enough for compress() to keep its result (it must save more than a few bytes)
                let ops: Vec<Operation> = if predictor { (0..6).flat_map(|r| sample_ops(page_no * 10 + k + r * 100)).collect() } else { sample_ops(page_no * 10 + k) };
                let bytes = if spec.encoded_by_lopdf {
                    Content { operations: ops }.encode().unwrap()
                } else {
                    let mut v = Content { operations: ops }.encode().unwrap();
                    v.push(b'\n');
                    v
                };
                if predictor {
                    // as many producers write content streams: Flate with a PNG predictor (parameters that must go when
                    // the filter goes, and must not come back when the stream is compressed again)
                    let mut padded = bytes.clone();
                    while padded.len() % 8 != 0 {
                        padded.push(b'\n');
                    }
                    let predicted = crate::refimpl::filt::png::encode(&padded, 1, 8, 8, &[2, 1, 0, 4, 3]);
                    let mut z = flate2::write::ZlibEncoder::new(Vec::new(), flate2::Compression::default());
                    use std::io::Write as _;
                    z.write_all(&predicted).unwrap();
                    let data = z.finish().unwrap();
                    return b.add_stream(dictionary! { "Filter" => "FlateDecode", "DecodeParms" => dictionary! { "Predictor" => 15, "Columns" => 8 } }, data, false);
                }
                b.add_stream(dictionary! {}, bytes, spec.compressed)
            };
            match spec.contents % 4 {
                0 => {}
                1 => {
                    let c = mk_content(&mut b, 0);
                    page.set("Contents", c);
                }
                2 => {
                    let c = mk_content(&mut b, 0);
                    page.set("Contents", vec![Object::Reference(c)]);
                }
                _ => {
                    let c1 = mk_content(&mut b, 0);
                    let c2 = mk_content(&mut b, 1);
                    page.set("Contents", vec![Object::Reference(c1), Object::Reference(c2)]);
                }
            }
            match spec.resources % 3 {
                0 => {}
                1 => {
                    let r = resources_dict(&mut b, &format!("p{}", page_no), spec.resources / 3);
                    page.set("Resources", r);
                }
                _ => {
                    let r = resources_dict(&mut b, &format!("q{}", page_no), spec.resources / 3);
                    let rid = b.add(r);
                    page.set("Resources", rid);
                }
            }
            if spec.annots % 3 != 0 {
                let mut arr = vec![];
                for k in 0..(spec.annots % 3) {
                    let a = b.add(dictionary! { "Type" => "Annot", "Subtype" => "Text", "Contents" => Object::string_literal(format!("annot {} {}", page_no, k)) });
                    arr.push(Object::Reference(a));
                    annots_all.push(a);
                }
                page.set("Annots", arr);
            }
            let pid = b.add(page);
            kids.push(Object::Reference(pid));
        }
        let mut node = dictionary! { "Type" => "Pages", "Parent" => root_id, "Count" => kids.len() as i64, "Kids" => kids.clone() };
        let gr = if start.group_resources.is_empty() { 0 } else { start.group_resources[gi % start.group_resources.len()] };
        match gr % 3 {
            0 => {}
            1 => {
                let r = resources_dict(&mut b, &format!("g{}", gi), gr / 3);
                node.set("Resources", r);
            }
            _ => {
                let r = resources_dict(&mut b, &format!("h{}", gi), gr / 3);
                let rid = b.add(r);
                node.set("Resources", rid);
            }
        }
        total += kids.len() as i64;
        b.next_mark += 1;
        node.set(MARK, Object::Integer(b.next_mark));
        b.doc.objects.insert(gid, Object::Dictionary(node));
        root_kids.push(Object::Reference(gid));
    }
    let mut root = dictionary! { "Type" => "Pages", "Count" => total, "Kids" => root_kids };
    match start.root_resources % 3 {
        0 => {}
        1 => {
            let r = resources_dict(&mut b, "root", start.root_resources / 3);
            root.set("Resources", r);
        }
        _ => {
            let r = resources_dict(&mut b, "rootref", start.root_resources / 3);
            let rid = b.add(r);
            root.set("Resources", rid);
        }
    }
    b.next_mark += 1;
    root.set(MARK, Object::Integer(b.next_mark));
    b.doc.objects.insert(root_id, Object::Dictionary(root));
    let catalog = b.add(dictionary! { "Type" => "Catalog", "Pages" => root_id });
    // extras: arbitrary reference lists (duplicates on purpose), anchored in the catalog or unreachable
    let ids: Vec<ObjectId> = b.doc.objects.keys().cloned().collect();
    let mut anchored = vec![];
    for (refs, anchor, as_dict_values) in &start.extras {
        let rs: Vec<Object> = refs.iter().map(|s| Object::Reference(ids[(*s as usize * ids.len()) >> 16])).collect();
        let mut d = dictionary! { "Type" => "Extra" };
        if *as_dict_values {
            for (k, r) in rs.iter().enumerate() {
                d.set(format!("K{}", k), r.clone());
            }
        }
        d.set("List", rs);
        // every third shape is a stream: its dictionary is a container of references too (/SMask, /Resources of a form)
        let id = if refs.len() % 3 == 2 { b.add_stream(d, b"% extra stream\n".to_vec(), false) } else { b.add(d) };
        if *anchor {
            anchored.push(Object::Reference(id));
        }
    }
    if !anchored.is_empty() {
        if let Ok(Object::Dictionary(c)) = b.doc.get_object_mut(catalog) {
            c.set("Extras", anchored);
        }
    }
    b.doc.trailer.set("Root", catalog);
    b.doc.trailer.set("Info", info);
    b.doc
}

// ------------------------------------------------------------------ independent analyses

fn marker(o: &Object) -> Option<i64> {
    match o {
        Object::Dictionary(d) => d.get(MARK).ok().and_then(|v| v.as_i64().ok()),
        Object::Stream(s) => s.dict.get(MARK).ok().and_then(|v| v.as_i64().ok()),
        _ => None,
    }
}

fn refs_of(o: &Object, out: &mut Vec<ObjectId>) {
    match o {
        Object::Reference(id) => out.push(*id),
        Object::Array(a) => a.iter().for_each(|x| refs_of(x, out)),
        Object::Dictionary(d) => d.iter().for_each(|(_, v)| refs_of(v, out)),
        Object::Stream(s) => s.dict.iter().for_each(|(_, v)| refs_of(v, out)),
        _ => {}
    }
}

fn reachable(doc: &Document) -> BTreeSet<ObjectId> {
    let mut seen = BTreeSet::new();
    let mut stack = vec![];
    doc.trailer.iter().for_each(|(_, v)| refs_of(v, &mut stack));
    while let Some(id) = stack.pop() {
        if let Some(o) = doc.objects.get(&id) {
            if seen.insert(id) {
                refs_of(o, &mut stack);
            }
        }
    }
    seen
}

fn dict_of(o: &Object) -> Option<&Dictionary> {
    match o {
        Object::Dictionary(d) => Some(d),
        Object::Stream(s) => Some(&s.dict),
        _ => None,
    }
}

fn deref<'a>(doc: &'a Document, o: &'a Object) -> Option<&'a Object> {
    let mut cur = o;
    for _ in 0..32 {
        match cur {
            Object::Reference(id) => cur = doc.objects.get(id)?,
            other => return Some(other),
        }
    }
    None
}

/// own page-tree walk: (page ids in order, per Pages node: (id, stated Count, leaves below))
fn walk_pages(doc: &Document) -> (Vec<ObjectId>, Vec<(ObjectId, Option<i64>, i64)>) {
    fn rec(doc: &Document, id: ObjectId, pages: &mut Vec<ObjectId>, nodes: &mut Vec<(ObjectId, Option<i64>, i64)>, depth: usize, seen: &mut BTreeSet<ObjectId>) -> i64 {
        if depth > 64 || !seen.insert(id) {
            return 0;
        }
        let Some(d) = doc.objects.get(&id).and_then(dict_of) else { return 0 };
        match d.get(b"Type").and_then(Object::as_name).ok() {
            Some(b"Page") => {
                pages.push(id);
                1
            }
            Some(b"Pages") => {
                let mut n = 0;
                if let Some(Object::Array(kids)) = d.get(b"Kids").ok().and_then(|k| deref(doc, k)) {
                    for k in kids {
                        if let Object::Reference(kid) = k {
                            n += rec(doc, *kid, pages, nodes, depth + 1, seen);
                        }
                    }
                }
                nodes.push((id, d.get(b"Count").and_then(Object::as_i64).ok(), n));
                n
            }
            _ => 0,
        }
    }
    let mut pages = vec![];
    let mut nodes = vec![];
    if let Some(root) = doc.trailer.get(b"Root").ok().and_then(|r| deref(doc, r)).and_then(dict_of).and_then(|c| c.get(b"Pages").ok()).and_then(|p| p.as_reference().ok()) {
        rec(doc, root, &mut pages, &mut nodes, 0, &mut BTreeSet::new());
    }
    (pages, nodes)
}

/// ISO 32000-1 7.7.3.4: the resource dictionary in effect is the nearest one up the Parent chain (not merged).
/// Returned as category -> name -> value (dictionaries only; other categories by equality of the whole value).
/// the resource dictionary in effect for a page: its own, or the nearest one up the Parent chain
fn nearest_resources(doc: &Document, page: ObjectId) -> Option<&Dictionary> {
    let mut cur = Some(page);
    for _ in 0..64 {
        let d = doc.objects.get(&cur?).and_then(dict_of)?;
        if let Some(res) = d.get(b"Resources").ok().and_then(|r| deref(doc, r)).and_then(dict_of) {
            return Some(res);
        }
        cur = d.get(b"Parent").ok().and_then(|p| p.as_reference().ok());
    }
    None
}

fn effective_resources(doc: &Document, page: ObjectId) -> BTreeMap<(Vec<u8>, Vec<u8>), Object> {
    let mut out = BTreeMap::new();
    let mut cur = Some(page);
    let mut hops = 0;
    while let Some(id) = cur {
        hops += 1;
        if hops > 64 {
            break;
        }
        let Some(d) = doc.objects.get(&id).and_then(dict_of) else { break };
        if let Some(res) = d.get(b"Resources").ok().and_then(|r| deref(doc, r)).and_then(dict_of) {
            for (cat, v) in res.iter() {
                if cat == MARK {
                    continue;
                }
                match deref(doc, v) {
                    Some(Object::Dictionary(cd)) => {
                        for (name, val) in cd.iter() {
                            if name != MARK {
                                out.insert((cat.clone(), name.clone()), val.clone());
                            }
                        }
                    }
                    Some(other) => {
                        out.insert((cat.clone(), vec![]), other.clone());
                    }
                    None => {}
                }
            }
            break;
        }
        cur = d.get(b"Parent").ok().and_then(|p| p.as_reference().ok());
    }
    out
}

/// remove every reference to `id`: array elements equal to it at any depth, dictionary entries whose value is it
fn strip_refs(o: &Object, id: ObjectId) -> Object {
    match o {
        Object::Array(a) => Object::Array(a.iter().filter(|x| **x != Object::Reference(id)).map(|x| strip_refs(x, id)).collect()),
        Object::Dictionary(d) => Object::Dictionary(strip_dict(d, id)),
        Object::Stream(s) => Object::Stream(Stream { dict: strip_dict(&s.dict, id), content: s.content.clone(), allows_compression: s.allows_compression, start_position: s.start_position }),
        other => other.clone(),
    }
}

fn strip_dict(d: &Dictionary, id: ObjectId) -> Dictionary {
    let mut out = Dictionary::new();
    for (k, v) in d.iter() {
        if *v == Object::Reference(id) {
            continue;
        }
        out.set(k.clone(), strip_refs(v, id));
    }
    out
}

fn rename(o: &Object, map: &BTreeMap<ObjectId, ObjectId>) -> Object {
    match o {
        Object::Reference(id) => Object::Reference(*map.get(id).unwrap_or(id)),
        Object::Array(a) => Object::Array(a.iter().map(|x| rename(x, map)).collect()),
        Object::Dictionary(d) => {
            let mut out = Dictionary::new();
            for (k, v) in d.iter() {
                out.set(k.clone(), rename(v, map));
            }
            Object::Dictionary(out)
        }
        Object::Stream(s) => {
            let mut out = Dictionary::new();
            for (k, v) in s.dict.iter() {
                out.set(k.clone(), rename(v, map));
            }
            Object::Stream(Stream { dict: out, content: s.content.clone(), allows_compression: s.allows_compression, start_position: s.start_position })
        }
        other => other.clone(),
    }
}

fn by_marker(doc: &Document) -> BTreeMap<i64, ObjectId> {
    doc.objects.iter().filter_map(|(id, o)| marker(o).map(|m| (m, *id))).collect()
}

/// compare two objects ignoring the listed top-level dictionary keys; streams compared on decoded content when asked
fn same_object(exp: &Object, act: &Object, ignore: &[&[u8]], decoded: bool, what: &str) -> Result<(), String> {
    let strip = |o: &Object| -> Object {
        match o {
            Object::Dictionary(d) => {
                let mut out = Dictionary::new();
                for (k, v) in d.iter() {
                    if !ignore.contains(&k.as_slice()) {
                        out.set(k.clone(), v.clone());
                    }
                }
                Object::Dictionary(out)
            }
            Object::Stream(s) => {
                let mut out = Dictionary::new();
                for (k, v) in s.dict.iter() {
                    if !ignore.contains(&k.as_slice()) && !(decoded && [&b"Filter"[..], b"DecodeParms", b"Length"].contains(&k.as_slice())) {
                        out.set(k.clone(), v.clone());
                    }
                }
                let content = if decoded { s.get_plain_content().unwrap_or_else(|_| s.content.clone()) } else { s.content.clone() };
                Object::Stream(Stream { dict: out, content, allows_compression: true, start_position: None })
            }
            other => other.clone(),
        }
    };
    canon::obj_eq(&strip(exp), &strip(act), Opts::ROUNDTRIP, what)
}

// ------------------------------------------------------------------ interpreter

struct State {
    doc: Document,
    /// expected decoded operations per page marker
    page_ops: BTreeMap<i64, Vec<Operation>>,
    next_mark: i64,
    bookmarks_built: bool,
}

fn decode_ops(bytes: &[u8]) -> Vec<Operation> {
    Content::decode(bytes).map(|c| c.operations).unwrap_or_default()
}

fn page_marker(doc: &Document, id: ObjectId) -> Option<i64> {
    doc.objects.get(&id).and_then(marker)
}

/// invariants that hold after every step
fn global_invariants(st: &State, step: &str) -> Result<(), Violation> {
    let doc = &st.doc;
    // Count = number of leaf pages below
    let (pages, nodes) = walk_pages(doc);
    for (id, stated, actual) in &nodes {
        if *stated != Some(*actual) {
            return Err(viol!("count-wrong", "{}: Pages node {:?} states Count {:?} but has {} leaf pages below it", step, id, stated, actual));
        }
    }
    // lopdf's own enumeration agrees (C12) — needed because page-addressed operations go through it
    let it: Vec<ObjectId> = doc.page_iter().collect();
    if it != pages {
        return Err(viol!("count-wrong", "{}: page_iter {:?} differs from the page tree {:?}", step, it, pages));
    }
    // max_id is an upper bound of the numbers in use
    if let Some(m) = doc.objects.keys().map(|k| k.0).max() {
        if doc.max_id < m {
            return Err(viol!("id-collision", "{}: max_id {} is below object number {} in use", step, doc.max_id, m));
        }
    }
    // page contents
    for p in &pages {
        let Some(m) = page_marker(doc, *p) else { continue };
        let Some(exp) = st.page_ops.get(&m) else { continue };
        let got = no_panic("get_and_decode_page_content", || doc.get_and_decode_page_content(*p))?
            .map_err(|e| viol!("content-differs", "{}: page {:?} content does not decode: {:?}", step, p, e))?;
        compare_ops(exp, &got.operations, Opts::ROUNDTRIP, "page content").map_err(|v| {
            let raw = doc.get_page_content(*p).unwrap_or_default();
            viol!("content-differs", "{}: page {:?}: {}\nraw content: {}", step, p, v.detail, show_bytes(&raw, 600))
        })?;
    }
    Ok(())
}

/// every object reachable before the step must be present afterwards and equal `expect(before)`, up to `exempt`
#[allow(clippy::too_many_arguments)]
fn frame(
    before: &Document, after: &Document, step: &str, expect: &dyn Fn(ObjectId, &Object) -> Option<Object>, exempt: &dyn Fn(i64) -> Option<Vec<&'static [u8]>>,
    decoded_streams: bool, kind: &str,
) -> Result<(), Violation> {
    frame_t(before, after, step, expect, exempt, decoded_streams, kind, &|t| t.clone())
}

#[allow(clippy::too_many_arguments)]
fn frame_t(
    before: &Document, after: &Document, step: &str, expect: &dyn Fn(ObjectId, &Object) -> Option<Object>, exempt: &dyn Fn(i64) -> Option<Vec<&'static [u8]>>,
    decoded_streams: bool, kind: &str, trailer_expect: &dyn Fn(&Dictionary) -> Dictionary,
) -> Result<(), Violation> {
    let reach = reachable(before);
    let reach_after = reachable(after);
    let after_by_marker = by_marker(after);
    let before_by_marker = by_marker(before);
    // id map through markers (identity unless renumbered)
    let mut map: BTreeMap<ObjectId, ObjectId> = BTreeMap::new();
    for (m, oid) in &before_by_marker {
        if let Some(nid) = after_by_marker.get(m) {
            map.insert(*oid, *nid);
        }
    }
    // objects without a marker (the cross-reference stream a reload leaves in the document): renumbering keeps the
    // relative order of everything but pages, so they correspond in ascending order
    let unmarked = |d: &Document| -> Vec<ObjectId> { d.objects.iter().filter(|(_, o)| marker(o).is_none()).map(|(id, _)| *id).collect() };
    let (ub, ua) = (unmarked(before), unmarked(after));
    let renumbered = map.iter().any(|(a, b)| a != b);
    if renumbered && ub.len() == ua.len() {
        for (b, a) in ub.iter().zip(ua.iter()) {
            map.entry(*b).or_insert(*a);
        }
    }
    for oid in &reach {
        let bo = &before.objects[oid];
        let Some(m) = marker(bo) else { continue };
        let exp = expect(*oid, bo);
        match (exp, after_by_marker.get(&m)) {
            (None, None) => {}
            (None, Some(nid)) => return Err(Violation::new(kind, format!("{}: object {:?} (marker {}) should be gone but is still present as {:?}", step, oid, m, nid))),
            (Some(_), None) => return Err(Violation::new(kind, format!("{}: object {:?} (marker {}) was reachable from the trailer and has disappeared", step, oid, m))),
            (Some(e), Some(nid)) => {
                let e = rename(&e, &map);
                let ignore: Vec<&[u8]> = exempt(m).unwrap_or_default();
                if exempt(m).map(|v| v.is_empty()).unwrap_or(false) {
                    // wholly exempt object (checked semantically elsewhere)
                    continue;
                }
                let r = same_object(&e, &after.objects[nid], &ignore, decoded_streams, &format!("obj {:?} (was {:?})", nid, oid));
                if let Err(d) = r {
                    // an object that the step made unreachable may also simply have been left as it was
                    let untouched = !reach_after.contains(nid) && same_object(&rename(bo, &map), &after.objects[nid], &ignore, decoded_streams, "").is_ok();
                    // … or treated for some of the step's deletions only (it dropped out of reach between two of them):
                    // applying the step's effect to what is there now must give the fully treated object
                    let partly = !reach_after.contains(nid)
                        && expect(*oid, &after.objects[nid]).map(|x| same_object(&e, &rename(&x, &map), &ignore, decoded_streams, "").is_ok()).unwrap_or(false);
                    if !untouched && !partly {
                        return Err(Violation::new(kind, format!("{}: {}", step, d)));
                    }
                }
            }
        }
    }
    // the trailer (bookkeeping keys aside)
    let t_exp = rename(&Object::Dictionary(canon::strip_trailer(&trailer_expect(&before.trailer), true)), &map);
    let t_act = Object::Dictionary(canon::strip_trailer(&after.trailer, true));
    canon::obj_eq(&t_exp, &t_act, Opts::ROUNDTRIP, "trailer").map_err(|d| Violation::new(kind, format!("{}: {}", step, d)))?;
    Ok(())
}

fn no_exempt(_: i64) -> Option<Vec<&'static [u8]>> {
    None
}

fn pick_page(doc: &Document, sel: u8) -> Option<ObjectId> {
    let (pages, _) = walk_pages(doc);
    if pages.is_empty() {
        None
    } else {
        Some(pages[(sel as usize * pages.len()) >> 8])
    }
}

fn marked_ids(doc: &Document) -> Vec<ObjectId> {
    doc.objects.iter().filter(|(_, o)| marker(o).is_some()).map(|(id, _)| *id).collect()
}

fn structural(doc: &Document, id: ObjectId) -> bool {
    // objects whose deletion/replacement would make the document ill-formed by the user's own action
    let Some(d) = doc.objects.get(&id).and_then(dict_of) else { return false };
    matches!(d.get(b"Type").and_then(Object::as_name).ok(), Some(b"Catalog") | Some(b"Pages") | Some(b"Page"))
}

pub fn check(case: &Case) -> Verdict {
    let mut rep = CaseReport::new();
    let mut doc = build(&case.start);
    doc.reference_table.cross_reference_type = if case.start.xref_stream { lopdf::xref::XrefType::CrossReferenceStream } else { lopdf::xref::XrefType::CrossReferenceTable };
    if case.start.reload {
        let bytes = save(&mut doc)?;
        doc = load(&bytes)?;
        rep.label("start-reloaded");
    }
    let next_mark = doc.objects.values().filter_map(marker).max().unwrap_or(0) + 1000;
    let mut st = State { doc, page_ops: BTreeMap::new(), next_mark, bookmarks_built: false };
    let (pages0, _) = walk_pages(&st.doc);
    for p in &pages0 {
        let m = page_marker(&st.doc, *p).unwrap();
        let raw = st.doc.get_page_content(*p).unwrap_or_default();
        st.page_ops.insert(m, decode_ops(&raw));
    }
    global_invariants(&st, "start state").map_err(|v| Violation::new("harness-start-state", v.detail))?;
    let mut deletion_then_alloc = false;
    let mut had_deletion = false;
    let mut content_edit_after_reload = false;
    let mut reloaded = case.start.reload;
    for (i, op) in case.program.iter().enumerate() {
        let step = format!("step {} {:?}", i, op_name(op));
        let before = st.doc.clone();
        let ids = marked_ids(&before);
        let mk_obj = |st: &mut State, refs: &[u16]| -> Object {
            st.next_mark += 1;
            let rs: Vec<Object> = if ids.is_empty() { vec![] } else { refs.iter().map(|s| Object::Reference(ids[(*s as usize * ids.len()) >> 16])).collect() };
            Object::Dictionary(dictionary! { "Type" => "Extra", "List" => rs, "VId" => Object::Integer(st.next_mark) })
        };
        match op {
            Op::NewObjectId | Op::AddObject { .. } => {
                let id = match op {
                    Op::NewObjectId => no_panic("new_object_id", || st.doc.new_object_id())?,
                    Op::AddObject { refs } => {
                        let o = mk_obj(&mut st, refs);
                        no_panic("add_object", || st.doc.add_object(o))?
                    }
                    _ => unreachable!(),
                };
                if before.objects.contains_key(&id) || before.objects.keys().any(|k| k.0 == id.0) {
                    return Err(viol!("id-collision", "{}: allocated id {:?} collides with an existing object", step, id));
                }
                if let Some(m) = before.objects.keys().map(|k| k.0).max() {
                    if id.0 <= m {
                        return Err(viol!("id-collision", "{}: allocated id {:?} is not above the highest number in use ({})", step, id, m));
                    }
                }
                deletion_then_alloc |= had_deletion;
                frame(&before, &st.doc, &step, &|_, o| Some(o.clone()), &no_exempt, false, "reachable-altered")?;
            }
            Op::SetObject { slot, refs } => {
                // replacing a content stream or a resource dictionary by an unrelated dictionary would be the caller
                // making the document ill-formed: only plain data objects are replaced
                let cand: Vec<ObjectId> = ids
                    .iter()
                    .cloned()
                    .filter(|id| matches!(before.objects.get(id), Some(Object::Dictionary(d)) if d.has_type(b"Extra") || d.has_type(b"Annot") || d.has(b"Title")))
                    .collect();
                if cand.is_empty() {
                    continue;
                }
                let id = cand[(*slot as usize * cand.len()) >> 16];
                let old_marker = marker(&before.objects[&id]).unwrap();
                let mut o = mk_obj(&mut st, refs);
                // keep the identity marker of the replaced object
                if let Object::Dictionary(d) = &mut o {
                    d.set(MARK, Object::Integer(old_marker));
                }
                let o2 = o.clone();
                no_panic("set_object", || st.doc.set_object(id, o))?;
                // replacing a content stream is the caller altering that page's content
                let (pages, _) = walk_pages(&before);
                for p in pages {
                    if before.get_page_contents(p).contains(&id) {
                        if let Some(m) = page_marker(&before, p) {
                            let raw = st.doc.get_page_content(p).unwrap_or_default();
                            st.page_ops.insert(m, decode_ops(&raw));
                        }
                    }
                }
                frame(&before, &st.doc, &step, &|oid, ob| if oid == id { Some(o2.clone()) } else { Some(ob.clone()) }, &no_exempt, false, "reachable-altered")?;
            }
            Op::DeleteObject { slot } => {
                let cand: Vec<ObjectId> = ids.iter().cloned().filter(|id| !structural(&before, *id)).collect();
                if cand.is_empty() {
                    continue;
                }
                let id = cand[(*slot as usize * cand.len()) >> 16];
                no_panic("delete_object", || st.doc.delete_object(id))?;
                had_deletion = true;
                if st.doc.objects.contains_key(&id) {
                    return Err(viol!("reference-left-behind", "{}: object {:?} still exists after delete_object", step, id));
                }
                // no reference to the deleted object in any reachable object
                for rid in reachable(&st.doc) {
                    let mut rs = vec![];
                    refs_of(&st.doc.objects[&rid], &mut rs);
                    if rs.contains(&id) {
                        return Err(viol!("reference-left-behind", "{}: after delete_object({:?}) the reachable object {:?} still refers to it: {:?}", step, id, rid, crate::model::AObj::from_object(&st.doc.objects[&rid])));
                    }
                }
                let mut rs = vec![];
                st.doc.trailer.iter().for_each(|(_, v)| refs_of(v, &mut rs));
                if rs.contains(&id) {
                    return Err(viol!("reference-left-behind", "{}: the trailer still refers to the deleted object {:?}", step, id));
                }
                // content streams of pages may have been deleted: their pages' expected content changes accordingly
                let (pages, _) = walk_pages(&st.doc);
                for p in pages {
                    if let Some(m) = page_marker(&st.doc, p) {
                        let raw = st.doc.get_page_content(p).unwrap_or_default();
                        let before_raw = before.get_page_content(p).unwrap_or_default();
                        if raw != before_raw {
                            st.page_ops.insert(m, decode_ops(&raw));
                        }
                    }
                }
                frame_t(&before, &st.doc, &step, &|oid, ob| if oid == id { None } else { Some(strip_refs(ob, id)) }, &no_exempt, false, "reachable-altered", &|t| strip_dict(t, id))?;
            }
            Op::RemoveAnnotation { slot } => {
                let annots: Vec<ObjectId> = ids.iter().cloned().filter(|id| before.objects.get(id).and_then(dict_of).map(|d| d.has_type(b"Annot")).unwrap_or(false)).collect();
                if annots.is_empty() {
                    continue;
                }
                let id = annots[(*slot as usize * annots.len()) >> 16];
                // Err is the API's answer when some page has no Annots array: the pages visited before it were edited
                let _ = no_panic("remove_object", || st.doc.remove_object(&id))?;
                let (pages, _) = walk_pages(&before);
                let page_set: BTreeSet<ObjectId> = pages.into_iter().collect();
                frame(
                    &before,
                    &st.doc,
                    &step,
                    &|oid, ob| {
                        if page_set.contains(&oid) {
                            // the page's Annots array may have lost exactly the references to `id`
                            let after_o = st.doc.objects.get(&oid)?;
                            let stripped = match ob {
                                Object::Dictionary(d) => {
                                    let mut d2 = d.clone();
                                    if let Ok(Object::Array(a)) = d.get(b"Annots") {
                                        d2.set("Annots", Object::Array(a.iter().filter(|x| **x != Object::Reference(id)).cloned().collect()));
                                    }
                                    Object::Dictionary(d2)
                                }
                                other => other.clone(),
                            };
                            if *after_o == stripped { Some(stripped) } else { Some(ob.clone()) }
                        } else {
                            Some(ob.clone())
                        }
                    },
                    &no_exempt,
                    false,
                    "reachable-altered",
                )?;
            }
            Op::Prune => {
                let reach = reachable(&before);
                let removed = no_panic("prune_objects", || st.doc.prune_objects())?;
                had_deletion = true;
                for id in before.objects.keys() {
                    let gone = !st.doc.objects.contains_key(id);
                    if reach.contains(id) && gone {
                        return Err(viol!("prune-removed-reachable", "{}: prune_objects removed {:?}, which is reachable from the trailer", step, id));
                    }
                    if !reach.contains(id) && !gone {
                        return Err(viol!("prune-kept-unreachable", "{}: prune_objects kept {:?}, which is not reachable from the trailer", step, id));
                    }
                }
                let removed_set: BTreeSet<ObjectId> = removed.into_iter().collect();
                let expected_removed: BTreeSet<ObjectId> = before.objects.keys().filter(|k| !reach.contains(k)).cloned().collect();
                if removed_set != expected_removed {
                    return Err(viol!("prune-kept-unreachable", "{}: prune_objects reports {:?}, the unreachable objects were {:?}", step, removed_set, expected_removed));
                }
                frame(&before, &st.doc, &step, &|_, o| Some(o.clone()), &no_exempt, false, "reachable-altered")?;
            }
            Op::DeletePages { pages } => {
                let (plist, _) = walk_pages(&before);
                if plist.is_empty() {
                    continue;
                }
                let mut nums: Vec<u32> = pages.iter().map(|p| 1 + ((*p as usize * plist.len()) >> 8) as u32).collect();
                nums.dedup();
                let mut seen = BTreeSet::new();
                nums.retain(|n| seen.insert(*n));
                let victims: Vec<ObjectId> = nums.iter().map(|n| plist[*n as usize - 1]).collect();
                no_panic("delete_pages", || st.doc.delete_pages(&nums))?;
                had_deletion = true;
                for v in &victims {
                    if let Some(m) = page_marker(&before, *v) {
                        st.page_ops.remove(&m);
                    }
                }
                let (after_pages, _) = walk_pages(&st.doc);
                let exp_pages: Vec<ObjectId> = plist.iter().filter(|p| !victims.contains(p)).cloned().collect();
                if after_pages != exp_pages {
                    return Err(viol!("count-wrong", "{}: pages after delete_pages({:?}) are {:?}, expected {:?}", step, nums, after_pages, exp_pages));
                }
                frame(
                    &before,
                    &st.doc,
                    &step,
                    &|oid, ob| {
                        if victims.contains(&oid) {
                            return None;
                        }
                        let mut o = ob.clone();
                        for v in &victims {
                            o = strip_refs(&o, *v);
                        }
                        Some(o)
                    },
                    // Pages nodes: Count is verified by the global invariant
                    &|m| {
                        let id = by_marker(&before).get(&m).copied()?;
                        let d = before.objects.get(&id).and_then(dict_of)?;
                        if d.has_type(b"Pages") { Some(vec![&b"Count"[..]]) } else { None }
                    },
                    false,
                    "reachable-altered",
                )?;
            }
            Op::Renumber { start } => {
                match start {
                    None => no_panic("renumber_objects", || st.doc.renumber_objects())?,
                    Some(s) => no_panic("renumber_objects_with", || st.doc.renumber_objects_with(1 + *s % 50))?,
                }
                let fr = frame(&before, &st.doc, &step, &|_, o| Some(o.clone()), &no_exempt, false, "reachable-altered");
                if fr.is_err() && std::env::var("VERIF_C11_DEBUG").is_ok() {
                    for (tag, d) in [("before", &before), ("after", &st.doc)] {
                        eprintln!("--- {} max_id={} trailer={:?}", tag, d.max_id, d.trailer);
                        for (id, o) in &d.objects {
                            eprintln!("{:?}: {}", id, crate::engine::truncate(&format!("{:?}", o), 300));
                        }
                        eprintln!("bookmarks: {:?}", d.bookmark_table.iter().map(|(k, b)| (*k, b.page)).collect::<Vec<_>>());
                    }
                }
                fr?;
            }
            Op::Compress | Op::Decompress => {
                match op {
                    Op::Compress => no_panic("compress", || st.doc.compress())?,
                    _ => no_panic("decompress", || st.doc.decompress())?,
                }
                frame(&before, &st.doc, &step, &|_, o| Some(o.clone()), &no_exempt, true, "reachable-altered")?;
            }
            Op::ChangePageContent { page, ops } | Op::AddPageContents { page, ops } | Op::AddToPageContent { page, ops } => {
                let Some(pid) = pick_page(&before, *page) else { continue };
                let m = page_marker(&before, pid).unwrap();
                let ops: Vec<COp> = ops.iter().filter(|o| !o.operator.is_empty() && !o.operator.starts_with("true") && !o.operator.starts_with("false") && !o.operator.starts_with("null") && o.operator != "BI").cloned().collect();
                let content = to_content(&ops);
                let encoded = content.encode().map_err(|e| viol!("encode-error", "{}", e))?;
                let had_contents = before.objects.get(&pid).and_then(dict_of).map(|d| d.has(b"Contents")).unwrap_or(false);
                match op {
                    Op::ChangePageContent { .. } => {
                        let r = no_panic("change_page_content", || st.doc.change_page_content(pid, encoded.clone()))?;
                        if had_contents {
                            r.map_err(|e| viol!("content-differs", "{}: change_page_content fails on a page with Contents: {:?}", step, e))?;
                            st.page_ops.insert(m, content.operations.clone());
                        }
                    }
                    Op::AddPageContents { .. } => {
                        // raw bytes API: the fragment is self-delimiting (leading and trailing newline)
                        let mut raw = b"\n".to_vec();
                        raw.extend_from_slice(&encoded);
                        raw.push(b'\n');
                        no_panic("add_page_contents", || st.doc.add_page_contents(pid, raw))?.map_err(|e| viol!("content-differs", "{}: add_page_contents fails: {:?}", step, e))?;
                        st.page_ops.entry(m).or_default().extend(content.operations.clone());
                    }
                    _ => {
                        no_panic("add_to_page_content", || st.doc.add_to_page_content(pid, content.clone()))?.map_err(|e| viol!("content-differs", "{}: add_to_page_content fails: {:?}", step, e))?;
                        st.page_ops.entry(m).or_default().extend(content.operations.clone());
                    }
                }
                content_edit_after_reload |= reloaded;
                // footprint: the page's Contents entry and the content streams it referred to; everything else unchanged
                let old_streams: BTreeSet<i64> = before.get_page_contents(pid).iter().filter_map(|c| before.objects.get(c).and_then(marker)).collect();
                frame(
                    &before,
                    &st.doc,
                    &step,
                    &|_, o| Some(o.clone()),
                    &|mm| {
                        if mm == m {
                            Some(vec![&b"Contents"[..]])
                        } else if old_streams.contains(&mm) && matches!(op, Op::ChangePageContent { .. }) {
                            Some(vec![])
                        } else {
                            None
                        }
                    },
                    false,
                    "reachable-altered",
                )?;
            }
            Op::AddXObject { page, name } | Op::AddGraphicsState { page, name } => {
                let Some(pid) = pick_page(&before, *page) else { continue };
                let target = {
                    st.next_mark += 1;
                    let mk = st.next_mark;
                    st.doc.add_object(Object::Stream(Stream::new(dictionary! { "Type" => "XObject", "Subtype" => "Form", "VId" => Object::Integer(mk) }, b"% added\n".to_vec())))
                };
                let before2 = st.doc.clone();
                let res_before = effective_resources(&before2, pid);
                let nm = format!("N{}", name % 4);
                let r = match op {
                    Op::AddXObject { .. } => no_panic("add_xobject", || st.doc.add_xobject(pid, nm.clone(), target))?,
                    _ => no_panic("add_graphics_state", || st.doc.add_graphics_state(pid, nm.clone(), target))?,
                };
                let cat: &[u8] = if matches!(op, Op::AddXObject { .. }) { b"XObject" } else { b"ExtGState" };
                // the page's own resources hold the category behind a reference: the call may refuse (an error, nothing
                // changed) — what it may never do is succeed and lose what was there
                let cat_indirect = nearest_resources(&before2, pid).map(|res| matches!(res.get(cat), Ok(Object::Reference(_)))).unwrap_or(false);
                let refused = r.is_err() && cat_indirect;
                if !refused {
                    r.map_err(|e| viol!("resource-lost", "{}: adding a resource to a well-formed page fails: {:?}", step, e))?;
                }
                rep.label_if(cat_indirect, "resource-category-behind-a-reference");
                let res_after = effective_resources(&st.doc, pid);
                for (k, v) in &res_before {
                    if k.0 == cat && k.1 == nm.as_bytes() {
                        continue; // the entry being (re)defined
                    }
                    if res_after.get(k) != Some(v) {
                        return Err(viol!(
                            "resource-lost",
                            "{}: page {:?} could use /{} /{} = {:?} before the call (own or inherited resources) and cannot afterwards (now {:?})",
                            step, pid, String::from_utf8_lossy(&k.0), String::from_utf8_lossy(&k.1), v, res_after.get(k)
                        ));
                    }
                }
                if !refused && res_after.get(&(cat.to_vec(), nm.clone().into_bytes())) != Some(&Object::Reference(target)) {
                    return Err(viol!("resource-lost", "{}: the added resource /{} /{} is not in effect for the page", step, String::from_utf8_lossy(cat), nm));
                }
                // other pages keep what they had
                let (pages, _) = walk_pages(&before2);
                for q in pages {
                    if q == pid {
                        continue;
                    }
                    let b = effective_resources(&before2, q);
                    let a = effective_resources(&st.doc, q);
                    for (k, v) in &b {
                        if k.0 == cat && k.1 == nm.as_bytes() {
                            continue; // the entry being (re)defined, seen through a category dictionary the pages share
                        }
                        if a.get(k) != Some(v) {
                            return Err(viol!("resource-lost", "{}: adding a resource to page {:?} took /{} /{} away from page {:?}", step, pid, String::from_utf8_lossy(&k.0), String::from_utf8_lossy(&k.1), q));
                        }
                    }
                }
            }
            Op::Bookmarks { n } => {
                if st.bookmarks_built {
                    continue;
                }
                let (pages, _) = walk_pages(&before);
                if pages.is_empty() {
                    continue;
                }
                for k in 0..(1 + n % 4) {
                    let p = pages[k as usize % pages.len()];
                    st.doc.add_bookmark(Bookmark::new(format!("bm {}", k), [0.0, 0.0, 0.0], 0, p), None);
                }
                let oid = no_panic("build_outline", || st.doc.build_outline())?;
                st.bookmarks_built = true;
                if let Some(oid) = oid {
                    if before.objects.contains_key(&oid) {
                        return Err(viol!("id-collision", "{}: build_outline reused the existing id {:?}", step, oid));
                    }
                }
                for id in st.doc.objects.keys() {
                    if !before.objects.contains_key(id) {
                        if let Some(m) = before.objects.keys().map(|k| k.0).max() {
                            if id.0 <= m {
                                return Err(viol!("id-collision", "{}: outline object {:?} is not above the highest number in use ({})", step, id, m));
                            }
                        }
                    }
                }
                frame(&before, &st.doc, &step, &|_, o| Some(o.clone()), &no_exempt, false, "reachable-altered")?;
            }
            Op::Save { continue_on_reloaded } => {
                let bytes = no_panic("save_to", || {
                    let mut v = vec![];
                    st.doc.save_to(&mut v).map(|_| v)
                })?
                .map_err(|e| viol!("save-reload-differs", "{}: save_to fails: {}", step, e))?;
                frame(&before, &st.doc, &step, &|_, o| Some(o.clone()), &no_exempt, false, "reachable-altered")?;
                let loaded = load(&bytes).map_err(|v| Violation::new("save-reload-differs", v.detail))?;
                frame(&before, &loaded, &format!("{} (reloaded)", step), &|_, o| Some(o.clone()), &no_exempt, false, "save-reload-differs")?;
                if *continue_on_reloaded {
                    // bookmarks are not part of the file
                    st.doc = loaded;
                    reloaded = true;
                }
            }
        }
        global_invariants(&st, &step)?;
        // objects created by lopdf during the step get an identity marker of their own
        let mut nm = st.next_mark;
        for o in st.doc.objects.values_mut() {
            let d = match o {
                Object::Dictionary(d) => d,
                Object::Stream(s) => &mut s.dict,
                _ => continue,
            };
            // cross-reference streams of a reloaded file are bookkeeping, not document content
            if !d.has(MARK) && !d.has_type(b"XRef") && !d.has_type(b"ObjStm") {
                nm += 1;
                d.set(MARK, Object::Integer(nm));
            }
        }
        st.next_mark = nm;
    }
    rep.label_if(had_deletion, "deletion-or-prune");
    rep.label_if(deletion_then_alloc, "allocation-after-deletion");
    rep.label_if(content_edit_after_reload, "content-edit-after-reload");
    rep.label_if(case.program.iter().any(|o| matches!(o, Op::Renumber { .. })), "renumber");
    rep.label_if(case.program.iter().any(|o| matches!(o, Op::AddXObject { .. } | Op::AddGraphicsState { .. })), "add-resource");
    rep.label_if(case.program.iter().any(|o| matches!(o, Op::DeletePages { .. })), "delete-pages");
    rep.label_if(case.program.iter().any(|o| matches!(o, Op::AddToPageContent { .. })), "add-to-page-content");
    rep.nontrivial = case.program.len() >= 3 && (deletion_then_alloc || content_edit_after_reload);
    Ok(rep)
}

fn op_name(op: &Op) -> &'static str {
    match op {
        Op::NewObjectId => "new_object_id",
        Op::AddObject { .. } => "add_object",
        Op::SetObject { .. } => "set_object",
        Op::DeleteObject { .. } => "delete_object",
        Op::RemoveAnnotation { .. } => "remove_object(annotation)",
        Op::Prune => "prune_objects",
        Op::DeletePages { .. } => "delete_pages",
        Op::Renumber { .. } => "renumber_objects",
        Op::Compress => "compress",
        Op::Decompress => "decompress",
        Op::ChangePageContent { .. } => "change_page_content",
        Op::AddPageContents { .. } => "add_page_contents",
        Op::AddToPageContent { .. } => "add_to_page_content",
        Op::AddXObject { .. } => "add_xobject",
        Op::AddGraphicsState { .. } => "add_graphics_state",
        Op::Bookmarks { .. } => "add_bookmark+build_outline",
        Op::Save { .. } => "save_to",
    }
}

pub fn strategy(switches: Switches) -> BoxedStrategy<Case> {
    let page = (0u8..4, 0u8..9, 0u8..3, any::<bool>(), any::<bool>()).prop_map(|(contents, resources, annots, encoded_by_lopdf, compressed)| PageSpec { contents, resources, annots, encoded_by_lopdf, compressed });
    let start = (vec(vec(page, 0..4), 1..4), 0u8..9, vec(0u8..9, 0..3), vec((vec(any::<u16>(), 0..5), any::<bool>(), any::<bool>()), 0..5), any::<bool>(), any::<bool>())
        .prop_map(|(groups, root_resources, group_resources, extras, reload, xref_stream)| Start { groups, root_resources, group_resources, extras, reload, xref_stream });
    let mut oo = ObjOpts::default();
    oo.allow_refs = false;
    oo.max_str = 12;
    let cops = vec(op_strategy(oo), 1..4);
    let mut ops: Vec<(u32, BoxedStrategy<Op>)> = vec![
        (2, Just(Op::NewObjectId).boxed()),
        (3, vec(any::<u16>(), 0..4).prop_map(|refs| Op::AddObject { refs }).boxed()),
        (2, (any::<u16>(), vec(any::<u16>(), 0..4)).prop_map(|(slot, refs)| Op::SetObject { slot, refs }).boxed()),
        (3, any::<u16>().prop_map(|slot| Op::DeleteObject { slot }).boxed()),
        (1, any::<u16>().prop_map(|slot| Op::RemoveAnnotation { slot }).boxed()),
        (2, Just(Op::Prune).boxed()),
        (2, vec(any::<u8>(), 1..3).prop_map(|pages| Op::DeletePages { pages }).boxed()),
        (2, proptest::option::of(any::<u32>()).prop_map(|start| Op::Renumber { start }).boxed()),
        (1, Just(Op::Compress).boxed()),
        (1, Just(Op::Decompress).boxed()),
        (2, (any::<u8>(), cops.clone()).prop_map(|(page, ops)| Op::ChangePageContent { page, ops }).boxed()),
        (2, (any::<u8>(), cops.clone()).prop_map(|(page, ops)| Op::AddPageContents { page, ops }).boxed()),
        (1, any::<u8>().prop_map(|n| Op::Bookmarks { n }).boxed()),
        (2, any::<bool>().prop_map(|continue_on_reloaded| Op::Save { continue_on_reloaded }).boxed()),
    ];
    if switches.add_to_page_content {
        ops.push((3, (any::<u8>(), cops).prop_map(|(page, ops)| Op::AddToPageContent { page, ops }).boxed()));
    }
    if switches.add_resource {
        ops.push((2, (any::<u8>(), any::<u8>()).prop_map(|(page, name)| Op::AddXObject { page, name }).boxed()));
        ops.push((2, (any::<u8>(), any::<u8>()).prop_map(|(page, name)| Op::AddGraphicsState { page, name }).boxed()));
    }
    let op = proptest::strategy::Union::new_weighted(ops);
    (start, vec(op, 0..25)).prop_map(|(start, program)| Case { start, program }).boxed()
}

#[derive(Clone, Copy, Debug)]
pub struct Switches {
    pub add_to_page_content: bool,
    pub add_resource: bool,
}

pub fn run(run: &mut Run) {
    run.rule = "programs: 0..24 operations drawn from new_object_id, add_object, set_object, delete_object, remove_object(annotation), prune_objects, delete_pages, renumber_objects[_with], compress, decompress, change_page_content, add_page_contents, add_to_page_content, add_xobject, add_graphics_state, add_bookmark+build_outline, save_to (optionally continuing on the reloaded document), with random arguments, applied to generated well-formed documents (catalog, two-level page tree with correct Counts, Resources own / inherited / by reference on pages, intermediate nodes and root, Contents as reference or array, compressed or not, produced by Content::encode or hand-terminated, annotations, extra dictionaries with duplicate references, unreachable objects), optionally saved and reloaded first. After EVERY step, code independent of lopdf's traversal checks: fresh ids above every number in use; every object reachable before the step is present and equal to what the operation's documented effect implies (reference stripping for deletions, renaming through unique markers for renumbering, decoded content for compress/decompress, Contents footprint for content edits); no reference to a deleted object remains; prune removes exactly the unreachable objects; every Pages node's Count equals its leaf pages; each page's decoded content equals the operation-list the content edits imply; adding a resource never removes a resource in effect for any page. non-trivial = >= 3 operations with a deletion/prune followed by an allocation, or a content edit after a reload; distinct by case hash.".into();
    run.assumptions = vec![
        "catalog, page-tree nodes and pages are not deleted or replaced through delete_object/set_object (that would be the caller making the document ill-formed); pages are deleted through delete_pages".into(),
        "raw-bytes content fragments are self-delimiting (leading/trailing newline); the Content API is expected to keep operation lists apart by itself".into(),
        "effective resources = the nearest Resources dictionary up the Parent chain (ISO 32000-1 7.7.3.4), not merged".into(),
    ];
    run.replay_known_demos(replay);
    let sw = Switches { add_to_page_content: !run.finding_open("C11-content-streams-run-together"), add_resource: !run.finding_open("C11-inherited-resources-shadowed") };
    let n = run.tier.pick(6_000, 200_000);
    run.campaign("edit-programs", move || strategy(sw), n, check, |_c, _v| None);
}

pub fn replay(file: &Value) -> Result<Verdict, String> {
    Ok(check(&replay_case::<Case>(file)?))
}

#[allow(dead_code)]
fn _unused(_: B) {}
