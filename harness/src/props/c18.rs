//! C18 — dates convert to PDF date strings and back (DESIGN.md §7 C18).

use crate::engine::{no_panic, replay_case, CaseReport, Run, Verdict, Violation};
use crate::viol;
use lopdf::Object;
use proptest::prelude::*;
use serde::{Deserialize, Serialize};
use serde_json::Value;
use std::io::{BufRead, Write};

#[derive(Clone, Debug, Serialize, Deserialize)]
pub struct Case {
    /// Unix seconds
    pub instant: i64,
    /// offset from UTC in minutes, -1439..=1439
    pub offset_min: i32,
}

pub const MIN_INSTANT: i64 = -62_135_596_800; // 0001-01-01T00:00:00Z
pub const MAX_INSTANT: i64 = 253_402_300_799; // 9999-12-31T23:59:59Z

// ---------- REF-TIME: own proleptic Gregorian conversion ----------

/// days since 1970-01-01 -> (year, month, day)
pub fn civil_from_days(z: i64) -> (i64, u32, u32) {
    let z = z + 719_468;
    let era = z.div_euclid(146_097);
    let doe = z.rem_euclid(146_097);
    let yoe = (doe - doe / 1460 + doe / 36_524 - doe / 146_096) / 365;
    let y = yoe + era * 400;
    let doy = doe - (365 * yoe + yoe / 4 - yoe / 100);
    let mp = (5 * doy + 2) / 153;
    let d = (doy - (153 * mp + 2) / 5 + 1) as u32;
    let m = if mp < 10 { mp + 3 } else { mp - 9 } as u32;
    (if m <= 2 { y + 1 } else { y }, m, d)
}

pub fn ref_civil(instant: i64, offset_min: i32) -> (i64, u32, u32, u32, u32, u32) {
    let local = instant + offset_min as i64 * 60;
    let days = local.div_euclid(86_400);
    let sod = local.rem_euclid(86_400);
    let (y, m, d) = civil_from_days(days);
    (y, m, d, (sod / 3600) as u32, ((sod % 3600) / 60) as u32, (sod % 60) as u32)
}

pub fn ref_string(instant: i64, offset_min: Option<i32>) -> String {
    let off = offset_min.unwrap_or(0);
    let (y, m, d, hh, mm, ss) = ref_civil(instant, off);
    match offset_min {
        None => format!("D:{:04}{:02}{:02}{:02}{:02}{:02}Z", y, m, d, hh, mm, ss),
        Some(o) => format!("D:{:04}{:02}{:02}{:02}{:02}{:02}{}{:02}'{:02}'", y, m, d, hh, mm, ss, if o < 0 { '-' } else { '+' }, o.abs() / 60, o.abs() % 60),
    }
}

fn in_domain(instant: i64, offset_min: i32) -> bool {
    let (y, ..) = ref_civil(instant, offset_min);
    (1..=9999).contains(&y) && (MIN_INSTANT..=MAX_INSTANT).contains(&instant)
}

fn obj_str(o: &Object) -> String {
    match o {
        Object::String(b, _) => String::from_utf8_lossy(b).to_string(),
        other => format!("{:?}", other),
    }
}

// ---------- back-ends ----------

fn jiff_zoned(instant: i64, offset_min: i32) -> Result<jiff::Zoned, Violation> {
    let ts = jiff::Timestamp::from_second(instant).map_err(|e| viol!("harness-jiff", "{}", e))?;
    let off = jiff::tz::Offset::from_seconds(offset_min * 60).map_err(|e| viol!("harness-jiff", "{}", e))?;
    Ok(ts.to_zoned(jiff::tz::TimeZone::fixed(off)))
}

fn time_odt(instant: i64, offset_min: i32) -> Result<time::OffsetDateTime, Violation> {
    let t = time::OffsetDateTime::from_unix_timestamp(instant).map_err(|e| viol!("harness-time", "{}", e))?;
    let off = time::UtcOffset::from_whole_seconds(offset_min * 60).map_err(|e| viol!("harness-time", "{}", e))?;
    Ok(t.to_offset(off))
}

/// parse `s` with every in-process back-end; each must yield `instant` (and `offset_min` where the type keeps one)
fn parse_all(s: &str, instant: i64, offset_min: Option<i32>, what: &str) -> Result<(), Violation> {
    let obj = Object::string_literal(s.as_bytes().to_vec());
    // jiff
    let z: Option<jiff::Zoned> = no_panic("jiff parse", || obj.as_datetime().and_then(|dt| dt.try_into().ok()))?;
    let z = z.ok_or_else(|| viol!("parse-failed", "jiff::Zoned does not parse {} {:?}", what, s))?;
    if z.timestamp().as_second() != instant {
        return Err(viol!("instant-differs", "jiff::Zoned parses {} {:?} as Unix second {}, expected {}", what, s, z.timestamp().as_second(), instant));
    }
    if let Some(o) = offset_min {
        if z.offset().seconds() != o * 60 {
            return Err(viol!("offset-differs", "jiff::Zoned parses {} {:?} with offset {} s, expected {} s", what, s, z.offset().seconds(), o * 60));
        }
    }
    // time
    let t: Option<time::OffsetDateTime> = no_panic("time parse", || obj.as_datetime().and_then(|dt| dt.try_into().ok()))?;
    let t = t.ok_or_else(|| viol!("parse-failed", "time::OffsetDateTime does not parse {} {:?}", what, s))?;
    if t.unix_timestamp() != instant {
        return Err(viol!("instant-differs", "time::OffsetDateTime parses {} {:?} as Unix second {}, expected {}", what, s, t.unix_timestamp(), instant));
    }
    if let Some(o) = offset_min {
        if t.offset().whole_seconds() != o * 60 {
            return Err(viol!("offset-differs", "time::OffsetDateTime parses {} {:?} with offset {} s, expected {} s", what, s, t.offset().whole_seconds(), o * 60));
        }
    }
    // chrono (Local is whatever zone this process runs in; only the instant is comparable)
    let c: Option<chrono::DateTime<chrono::Local>> = no_panic("chrono parse", || obj.as_datetime().and_then(|dt| dt.try_into().ok()))?;
    let c = c.ok_or_else(|| viol!("parse-failed", "chrono::DateTime<Local> does not parse {} {:?}", what, s))?;
    if c.timestamp() != instant {
        return Err(viol!("instant-differs", "chrono::DateTime<Local> parses {} {:?} as Unix second {}, expected {}", what, s, c.timestamp(), instant));
    }
    Ok(())
}

pub fn check(case: &Case) -> Verdict {
    let mut rep = CaseReport::new();
    let instant = case.instant.clamp(MIN_INSTANT, MAX_INSTANT);
    let off = case.offset_min.clamp(-1439, 1439);
    if !in_domain(instant, off) {
        rep.exclude("local-year-outside-0001-9999");
        return Ok(rep);
    }
    let want = ref_string(instant, Some(off));
    let want_z = ref_string(instant, None);
    // to string: offset-carrying types
    let z = jiff_zoned(instant, off)?;
    let s_jiff = obj_str(&no_panic("From<Zoned>", || Object::from(z))?);
    if s_jiff != want {
        return Err(viol!("string-differs", "jiff::Zoned -> {:?}, expected {:?}", s_jiff, want));
    }
    let t = time_odt(instant, off)?;
    let s_time = obj_str(&no_panic("From<OffsetDateTime>", || Object::from(t))?);
    if s_time != want {
        return Err(viol!("string-differs", "time::OffsetDateTime -> {:?}, expected {:?}", s_time, want));
    }
    // UTC types: Z form
    let ts = jiff::Timestamp::from_second(instant).map_err(|e| viol!("harness-jiff", "{}", e))?;
    let s_ts = obj_str(&no_panic("From<Timestamp>", || Object::from(ts))?);
    if s_ts != want_z {
        return Err(viol!("string-differs", "jiff::Timestamp -> {:?}, expected {:?}", s_ts, want_z));
    }
    let cu = chrono::DateTime::<chrono::Utc>::from_timestamp(instant, 0).ok_or_else(|| viol!("harness-chrono", "from_timestamp"))?;
    let s_cu = obj_str(&no_panic("From<DateTime<Utc>>", || Object::from(cu))?);
    if s_cu != want_z {
        return Err(viol!("string-differs", "chrono::DateTime<Utc> -> {:?}, expected {:?}", s_cu, want_z));
    }
    // chrono Local in this process' zone
    let cl = cu.with_timezone(&chrono::Local);
    let local_off = cl.offset().local_minus_utc() / 60;
    let s_cl = obj_str(&no_panic("From<DateTime<Local>>", || Object::from(cl))?);
    if in_domain(instant, local_off) && s_cl != ref_string(instant, Some(local_off)) {
        return Err(viol!("string-differs", "chrono::DateTime<Local> (zone offset {} min) -> {:?}, expected {:?}", local_off, s_cl, ref_string(instant, Some(local_off))));
    }
    // from string: every back-end parses both forms
    parse_all(&want, instant, Some(off), "the offset form")?;
    parse_all(&want_z, instant, Some(0), "the Z form")?;
    // the shorter forms of ISO 32000-1 7.9.4
    let (y, m, d, hh, mm, _ss) = ref_civil(instant, off);
    let minute_form = format!("D:{:04}{:02}{:02}{:02}{:02}{}{:02}'{:02}'", y, m, d, hh, mm, if off < 0 { '-' } else { '+' }, off.abs() / 60, off.abs() % 60);
    let minute_instant = instant - instant.rem_euclid(60) ;
    // (seconds are dropped in local time; offsets are whole minutes, so the same holds in UTC)
    parse_all(&minute_form, minute_instant, Some(off), "the minute-precision form")?;
    let (y0, m0, d0, ..) = ref_civil(instant, 0);
    let date_form = format!("D:{:04}{:02}{:02}", y0, m0, d0);
    let date_instant = instant - instant.rem_euclid(86_400);
    parse_all(&date_form, date_instant, None, "the date-only form")?;
    let leap = m == 2 && d == 29;
    rep.label_if(off != 0, "offset!=0");
    rep.label_if(off < 0, "negative-offset");
    rep.label_if(off % 60 != 0, "offset-minutes!=0");
    rep.label_if(y < 1000, "year<1000");
    rep.label_if(leap, "leap-day");
    rep.label_if((m == 12 && d == 31) || (m == 1 && d == 1), "year-boundary");
    rep.nontrivial = off != 0 || y < 1000 || leap;
    Ok(rep)
}

// ---------- chrono::Local under other zones: child processes ----------

/// `lv c18-chrono`: for every "instant" line on stdin print the PDF date string of DateTime<Local> and the
/// Unix seconds obtained by parsing the reference strings given after it: "instant|s1|s2|…"
pub fn chrono_child() {
    let stdin = std::io::stdin();
    let out = std::io::stdout();
    for line in stdin.lock().lines() {
        let Ok(line) = line else { return };
        let mut parts = line.split('|');
        let instant: i64 = match parts.next().and_then(|s| s.parse().ok()) {
            Some(i) => i,
            None => continue,
        };
        let cu = chrono::DateTime::<chrono::Utc>::from_timestamp(instant, 0).unwrap();
        let cl = cu.with_timezone(&chrono::Local);
        let s = obj_str(&Object::from(cl));
        let mut res = vec![format!("{}", cl.offset().local_minus_utc()), s];
        for p in parts {
            let obj = Object::string_literal(p.as_bytes().to_vec());
            let c: Option<chrono::DateTime<chrono::Local>> = obj.as_datetime().and_then(|dt| dt.try_into().ok());
            res.push(c.map(|c| c.timestamp().to_string()).unwrap_or_else(|| "FAIL".into()));
        }
        let mut o = out.lock();
        let _ = writeln!(o, "{}", res.join("|"));
        let _ = o.flush();
    }
}

#[derive(Clone, Debug, Serialize, Deserialize)]
pub struct TzCase {
    pub offset_min: i32,
    pub instants: Vec<i64>,
}

pub fn check_tz(case: &TzCase) -> Verdict {
    let mut rep = CaseReport::new();
    let off = case.offset_min;
    // POSIX TZ: sign inverted, "<name>hh:mm"
    let tz = format!("XXX{}{:02}:{:02}", if off <= 0 { "+" } else { "-" }, off.abs() / 60, off.abs() % 60);
    let exe = std::env::current_exe().map_err(|e| viol!("harness-chrono-child", "{}", e))?;
    let mut input = String::new();
    let mut used = vec![];
    for i in &case.instants {
        if !in_domain(*i, off) {
            continue;
        }
        input.push_str(&format!("{}|{}|{}\n", i, ref_string(*i, Some(off)), ref_string(*i, None)));
        used.push(*i);
    }
    if used.is_empty() {
        return Ok(rep);
    }
    let mut child = std::process::Command::new(exe)
        .arg("c18-chrono")
        .env("TZ", &tz)
        .stdin(std::process::Stdio::piped())
        .stdout(std::process::Stdio::piped())
        .spawn()
        .map_err(|e| viol!("harness-chrono-child", "{}", e))?;
    child.stdin.take().unwrap().write_all(input.as_bytes()).map_err(|e| viol!("harness-chrono-child", "{}", e))?;
    let out = child.wait_with_output().map_err(|e| viol!("harness-chrono-child", "{}", e))?;
    let text = String::from_utf8_lossy(&out.stdout).to_string();
    let lines: Vec<&str> = text.lines().collect();
    if lines.len() != used.len() {
        return Err(viol!("harness-chrono-child", "child answered {} lines for {} instants (TZ={})", lines.len(), used.len(), tz));
    }
    for (i, l) in used.iter().zip(lines) {
        let f: Vec<&str> = l.split('|').collect();
        if f.len() != 4 {
            return Err(viol!("harness-chrono-child", "malformed child line {:?}", l));
        }
        let zone_off: i32 = f[0].parse().unwrap_or(i32::MIN);
        if zone_off != off * 60 {
            return Err(viol!("harness-chrono-child", "TZ={} gives chrono::Local offset {} s, wanted {} s", tz, zone_off, off * 60));
        }
        let want = ref_string(*i, Some(off));
        if f[1] != want {
            return Err(viol!("string-differs", "chrono::DateTime<Local> in zone {:+} min -> {:?}, expected {:?}", off, f[1], want));
        }
        for (k, what) in [(2usize, "offset form"), (3, "Z form")] {
            if f[k] != i.to_string() {
                return Err(viol!("instant-differs", "chrono::DateTime<Local> in zone {:+} min parses the {} of instant {} as {}", off, what, i, f[k]));
            }
        }
    }
    rep.nontrivial = true;
    rep.label_if(off % 60 != 0, "offset-minutes!=0");
    rep.label_if(off < 0, "negative-offset");
    Ok(rep)
}

pub fn instant_strategy() -> BoxedStrategy<i64> {
    prop_oneof![
        4 => MIN_INSTANT..=MAX_INSTANT,
        2 => (0i64..2_000_000_000),
        // years below 1000
        2 => (MIN_INSTANT..MIN_INSTANT + 31_556_952_000),
        // leap days (Feb 29 of leap years): pick a leap year then an offset into the day
        2 => (0i64..2400, 0i64..86_400).prop_map(|(k, s)| {
            let y = 4 + 4 * k; // 4, 8, … (century rule handled by clamping to a real leap year)
            let y = if y % 100 == 0 && y % 400 != 0 { y + 4 } else { y };
            days_from_civil(y, 2, 29) * 86_400 + s
        }),
        // year boundaries
        2 => (1i64..9999, -3i64..3).prop_map(|(y, d)| days_from_civil(y + 1, 1, 1) * 86_400 + d),
    ]
    .boxed()
}

pub fn days_from_civil(y: i64, m: i64, d: i64) -> i64 {
    let y = if m <= 2 { y - 1 } else { y };
    let era = y.div_euclid(400);
    let yoe = y.rem_euclid(400);
    let mp = (m + 9) % 12;
    let doy = (153 * mp + 2) / 5 + d - 1;
    let doe = yoe * 365 + yoe / 4 - yoe / 100 + doy;
    era * 146_097 + doe - 719_468
}

pub fn run(run: &mut Run) {
    run.rule = "cases: (instant, offset) pairs with second precision, local civil year 0001-9999 (uniform instants, years below 1000, leap days and year boundaries weighted), offsets -23:59..+23:59; ALL 2879 offsets enumerated at three fixed instants for jiff::Zoned and time::OffsetDateTime in-process; chrono::DateTime<Local> driven through child processes started with TZ set to a fixed POSIX offset (sampled offsets in the quick tier, all 2879 in the thorough tier). Oracle: REF-TIME (own proleptic-Gregorian conversion) string D:YYYYMMDDHHmmSS+HH'mm' (Z form for jiff::Timestamp and chrono::DateTime<Utc>) equals every back-end's output; every back-end parses the offset form, the Z form, the minute-precision form and the date-only form to the reference Unix second, and to the same offset where the type keeps one. non-trivial = offset != 0 or year < 1000 or leap day; distinct by case hash.".into();
    run.assumptions = vec![
        "REF-TIME (civil-from-days) is correct; cross-checked against days_from_civil in the harness unit tests".into(),
        "the date-only form is read as midnight UTC, the minute-precision form as second 00 (ISO 32000-1 7.9.4 defaults)".into(),
    ];
    run.replay_known_demos(replay);
    let n = run.tier.pick(60_000, 1_500_000);
    run.campaign("instants-x-offsets", || (instant_strategy(), prop_oneof![1 => Just(0i32), 6 => -1439i32..=1439, 2 => (-23i32..=23).prop_map(|h| h * 60)]).prop_map(|(instant, offset_min)| Case { instant, offset_min }), n, check, |_c, _v| None);
    let mut all = vec![];
    for instant in [951_782_400i64 + 45_296, -30_610_224_000 + 7, 1_700_000_000] {
        for off in -1439..=1439 {
            all.push(Case { instant, offset_min: off });
        }
    }
    run.enumerated("all-offsets", all, true, "all 2879 offsets x 3 fixed instants (a leap day, a year below 1000, a recent date)", check);
    let thorough = run.tier == crate::engine::Tier::Thorough;
    let offs: Vec<i32> = if thorough { (-1439..=1439).collect() } else { (-1439i32..=1439).filter(|o: &i32| *o % 7 == 0 || o.abs() >= 1437 || (-2..=2).contains(o) || *o == 330 || *o == -570).collect() };
    let tz_cases: Vec<TzCase> = offs.into_iter().map(|o| TzCase { offset_min: o, instants: vec![951_825_296, -30_610_223_993, 1_700_000_000, 253_402_214_400, MIN_INSTANT + 86_400 * 2] }).collect();
    run.enumerated("chrono-local-zones", tz_cases, thorough, "chrono::DateTime<Local> in child processes with TZ=<fixed offset>; 5 instants per zone", check_tz);
}

pub fn replay(file: &Value) -> Result<Verdict, String> {
    match file.get("campaign").and_then(|c| c.as_str()).unwrap_or("instants-x-offsets") {
        "chrono-local-zones" => Ok(check_tz(&replay_case::<TzCase>(file)?)),
        _ => Ok(check(&replay_case::<Case>(file)?)),
    }
}
