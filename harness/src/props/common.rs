//! helpers shared by the property modules

use crate::canon::{self, Opts};
use crate::engine::{no_panic, Violation};
use crate::model::{ADoc, AObj};
use crate::viol;
use lopdf::{Document, Object};

pub fn save(doc: &mut Document) -> Result<Vec<u8>, Violation> {
    let mut out = Vec::new();
    let r = no_panic("Document::save_to", || doc.save_to(&mut out))?;
    r.map_err(|e| viol!("save-error", "save_to returned Err: {}", e))?;
    Ok(out)
}

pub fn load(bytes: &[u8]) -> Result<Document, Violation> {
    let r = no_panic("Document::load_mem", || Document::load_mem(bytes))?;
    r.map_err(|e| viol!("load-error", "load_mem returned Err: {:?}\nfile: {}", e, show_bytes(bytes, 1500)))
}

pub fn show_bytes(b: &[u8], max: usize) -> String {
    let mut s = String::new();
    for &c in b.iter().take(max) {
        if c == b'\n' {
            s.push_str("\\n\n");
        } else if (0x20..0x7f).contains(&c) && c != b'\\' {
            s.push(c as char);
        } else {
            s.push_str(&format!("\\x{:02x}", c));
        }
    }
    if b.len() > max {
        s.push_str(&format!("…[{} bytes]", b.len()));
    }
    s
}

pub fn is_structural(o: &Object) -> bool {
    match o {
        Object::Stream(s) => s.dict.has_type(b"XRef") || s.dict.has_type(b"ObjStm"),
        _ => false,
    }
}

/// `loaded` must contain every object of `expected` (equal under `opts`), and nothing else except
/// cross-reference bookkeeping objects (xref streams / object-stream containers).
pub fn compare_objects(expected: &ADoc, loaded: &Document, opts: Opts, what: &str) -> Result<(), Violation> {
    for (n, g, o) in &expected.objects {
        let exp = o.to_object();
        match loaded.objects.get(&(*n, *g)) {
            None => return Err(viol!("object-missing", "{}: object {} {} missing after load (expected {:?})", what, n, g, o)),
            Some(act) => canon::obj_eq(&exp, act, opts, &format!("obj {} {}", n, g))
                .map_err(|e| viol!("object-differs", "{}: {}", what, e))?,
        }
    }
    for (id, o) in &loaded.objects {
        if expected.get(id.0, id.1).is_none() && !is_structural(o) {
            return Err(viol!("object-extra", "{}: unexpected object {:?} = {:?}", what, id, AObj::from_object(o)));
        }
    }
    Ok(())
}

pub fn compare_trailer(expected: &ADoc, loaded: &Document, opts: Opts, what: &str) -> Result<(), Violation> {
    let exp = canon::strip_trailer(&crate::model::adict_to_dict(&expected.trailer), false);
    // strip xref-stream keys only when the loaded trailer came from an xref stream
    let from_stream = loaded.trailer.has_type(b"XRef");
    let act = canon::strip_trailer(&loaded.trailer, from_stream);
    canon::dict_eq(&exp, &act, opts, "trailer", false).map_err(|e| viol!("trailer-differs", "{}: {}", what, e))
}

/// Hook H2: while the guard lives, the random bytes lopdf's security handler draws on this thread (salts, IVs,
/// padding) are a deterministic stream, so that an encryption case replays and shrinks.
pub struct FixedLopdfRng;

impl FixedLopdfRng {
    pub fn new(seed: u64) -> Self {
        #[cfg(lopdf_verif)]
        lopdf::verif_hooks::set_rng_seed(Some(seed));
        let _ = seed;
        FixedLopdfRng
    }
}

impl Drop for FixedLopdfRng {
    fn drop(&mut self) {
        #[cfg(lopdf_verif)]
        lopdf::verif_hooks::set_rng_seed(None);
    }
}
