//! C14 — content streams survive encode and decode (DESIGN.md §7 C14).

use crate::canon::{self, Opts};
use crate::engine::{no_panic, replay_case, CaseReport, Run, Verdict};
use crate::gen::objects::{self as g, ObjOpts};
use crate::model::{AObj, B};
use crate::viol;
use lopdf::content::{Content, Operation};
use lopdf::Object;
use proptest::collection::vec;
use proptest::prelude::*;
use serde::{Deserialize, Serialize};
use serde_json::Value;

pub const TABLE51: &[&str] = &[
    "b", "B", "b*", "B*", "BDC", "BMC", "BT", "BX", "c", "cm", "CS", "cs", "d", "Do", "DP", "EMC", "ET", "EX", "f", "F", "f*",
    "G", "g", "gs", "h", "i", "j", "J", "K", "k", "l", "m", "M", "MP", "n", "q", "Q", "re", "RG", "rg", "ri", "s", "S", "SC", "sc",
    "SCN", "scn", "sh", "T*", "Tc", "Td", "TD", "Tf", "Tj", "TJ", "TL", "Tm", "Tr", "Ts", "Tw", "Tz", "v", "w", "W", "W*", "y", "'",
    "\"",
];

#[derive(Clone, Debug, Serialize, Deserialize)]
pub struct Op {
    pub operator: String,
    pub operands: Vec<AObj>,
}

#[derive(Clone, Debug, Serialize, Deserialize)]
pub struct Case {
    pub ops: Vec<Op>,
}

/// operators that lex as operands or are outside the documented alphabet
fn excluded_operator(op: &str) -> bool {
    op.is_empty() || op.starts_with("true") || op.starts_with("false") || op.starts_with("null") || op == "BI"
}

pub fn operator_strategy() -> BoxedStrategy<String> {
    prop_oneof![
        7 => (0usize..TABLE51.len()).prop_map(|i| TABLE51[i].to_string()),
        3 => "[A-Za-z*'\"]{1,6}",
    ]
    .boxed()
}

pub fn op_strategy(opts: ObjOpts) -> BoxedStrategy<Op> {
    (operator_strategy(), vec(g::direct_object(opts, 3, 4), 0..=6))
        .prop_map(|(operator, operands)| Op { operator, operands })
        .boxed()
}

pub fn to_content(ops: &[Op]) -> Content<Vec<Operation>> {
    Content {
        operations: ops
            .iter()
            .map(|o| Operation::new(&o.operator, o.operands.iter().map(|x| x.to_object()).collect()))
            .collect(),
    }
}

pub fn compare_ops(exp: &[Operation], act: &[Operation], opts: Opts, what: &str) -> Result<(), crate::engine::Violation> {
    if exp.len() != act.len() {
        let first = exp
            .iter()
            .zip(act.iter())
            .position(|(a, b)| a.operator != b.operator || a.operands.len() != b.operands.len());
        return Err(viol!(
            "ops-differ",
            "{}: {} operations became {} (first difference at index {:?}: expected {:?} got {:?})",
            what,
            exp.len(),
            act.len(),
            first,
            first.map(|i| &exp[i]),
            first.map(|i| &act[i])
        ));
    }
    for (i, (a, b)) in exp.iter().zip(act.iter()).enumerate() {
        if a.operator != b.operator {
            return Err(viol!("ops-differ", "{}: op {} operator {:?} became {:?}", what, i, a.operator, b.operator));
        }
        canon::obj_eq(
            &Object::Array(a.operands.clone()),
            &Object::Array(b.operands.clone()),
            opts,
            &format!("op {} ({}) operands", i, a.operator),
        )
        .map_err(|e| viol!("ops-differ", "{}: {}", what, e))?;
    }
    Ok(())
}

/// one operation whose operand is nested `levels.len()` deep (see c01::DeepCase)
#[derive(Clone, Debug, Serialize, Deserialize)]
pub struct DeepCase {
    pub levels: Vec<u8>,
}

pub fn check_deep(case: &DeepCase, tolerate: bool) -> Verdict {
    let depth = case.levels.len();
    let ops = vec![
        Op { operator: "q".into(), operands: vec![] },
        Op { operator: "DP".into(), operands: vec![AObj::name("T"), super::c01::build_deep(&case.levels)] },
        Op { operator: "Q".into(), operands: vec![] },
    ];
    match check(&Case { ops }) {
        Ok(mut rep) => {
            rep.label_if(depth >= 16, "depth>=16");
            rep.nontrivial = depth >= 8;
            Ok(rep)
        }
        Err(_) if tolerate && depth >= super::c01::NESTING_LIMIT => {
            let mut rep = CaseReport::new();
            rep.exclude("known:C14-nesting-limit");
            Ok(rep)
        }
        Err(v) => Err(v),
    }
}

pub fn check(case: &Case) -> Verdict {
    let mut rep = CaseReport::new();
    let mut ops = case.ops.clone();
    let before = ops.len();
    ops.retain(|o| !excluded_operator(&o.operator));
    if ops.len() != before {
        rep.exclude("operator-lexes-as-operand");
    }
    let content = to_content(&ops);
    let bytes = no_panic("Content::encode", || content.encode())?.map_err(|e| viol!("encode-error", "encode returned Err: {}", e))?;
    let decoded = no_panic("Content::decode", || Content::decode(&bytes))?
        .map_err(|e| viol!("decode-error", "decode of encoder output returned Err: {:?}; bytes {}", e, super::common::show_bytes(&bytes, 600)))?;
    compare_ops(&content.operations, &decoded.operations, Opts::ROUNDTRIP, "decode(encode(ops))")
        .map_err(|mut v| {
            v.detail.push_str(&format!("\nencoded: {}", super::common::show_bytes(&bytes, 600)));
            v
        })?;
    let mut nested = false;
    let mut hostile = false;
    let mut nops = 0;
    for o in &ops {
        nops += o.operands.len();
        for x in &o.operands {
            nested |= x.depth() >= 1;
            x.visit(&mut |y| match y {
                AObj::Name(n) | AObj::Str(n, _) => hostile |= n.0.iter().any(|c| b"()\\#/%<>[]{}\r\n \x00".contains(c) || *c >= 0x80),
                _ => {}
            });
        }
    }
    rep.label_if(nested, "nested-operand");
    rep.label_if(hostile, "hostile-bytes");
    rep.label_if(ops.iter().any(|o| o.operands.is_empty()), "zero-operand-op");
    rep.label_if(ops.iter().any(|o| !TABLE51.contains(&o.operator.as_str())), "non-table51-operator");
    rep.nontrivial = ops.len() >= 2 && nops >= 2 && (nested || hostile);
    Ok(rep)
}

// ---------- inline images ----------

#[derive(Clone, Debug, Serialize, Deserialize)]
pub struct InlineImage {
    pub w: u8,
    pub h: u8,
    pub bpc: u8,
    /// index into COLORSPACES
    pub cs: u8,
    pub abbreviated_keys: bool,
    pub data_seed: B,
    pub extra_key: bool,
    /// a further entry whose key has arbitrary bytes (written with #XX escapes where the name syntax needs them);
    /// empty = none
    #[serde(default)]
    pub hostile_key: B,
}

fn escaped_name(n: &[u8]) -> Vec<u8> {
    let mut out = vec![b'/'];
    for &c in n {
        if (33..=126).contains(&c) && !b"()<>[]{}/%#".contains(&c) {
            out.push(c);
        } else {
            out.extend_from_slice(format!("#{:02X}", c).as_bytes());
        }
    }
    out
}

#[derive(Clone, Debug, Serialize, Deserialize)]
pub enum Piece {
    Op(Op),
    Image(InlineImage),
}

#[derive(Clone, Debug, Serialize, Deserialize)]
pub struct ImageCase {
    pub pieces: Vec<Piece>,
}

pub const COLORSPACES: &[(&str, usize)] = &[
    ("DeviceGray", 1),
    ("Gray", 1),
    ("DeviceRGB", 3),
    ("RGB", 3),
    ("DeviceCMYK", 4),
    ("CMYK", 4),
    ("DeviceRGBA", 4),
    ("RGBA", 4),
];

fn image_len(i: &InlineImage) -> usize {
    let comps = COLORSPACES[i.cs as usize % COLORSPACES.len()].1;
    let stride = (i.w as usize * comps * i.bpc as usize + 7) / 8;
    stride * i.h as usize
}

fn render_image(i: &InlineImage, out: &mut Vec<u8>) {
    // the colour-space names the parser lists as supported
    let cs = COLORSPACES[i.cs as usize % COLORSPACES.len()].0;
    let (kw, kh, kbpc, kcs) = if i.abbreviated_keys { ("W", "H", "BPC", "CS") } else { ("Width", "Height", "BitsPerComponent", "ColorSpace") };
    out.extend_from_slice(format!("BI /{} {} /{} {} /{} /{} /{} {}", kw, i.w, kh, i.h, kcs, cs, kbpc, i.bpc).as_bytes());
    if i.extra_key {
        out.extend_from_slice(b" /I true");
    }
    if !i.hostile_key.0.is_empty() {
        out.push(b' ');
        out.extend_from_slice(&escaped_name(&i.hostile_key.0));
        out.extend_from_slice(b" 7");
    }
    out.extend_from_slice(b"\nID\n");
    let n = image_len(i);
    let seed = if i.data_seed.0.is_empty() { &b"EI Q\n"[..] } else { &i.data_seed.0[..] };
    for k in 0..n {
        out.push(seed[k % seed.len()]);
    }
    out.extend_from_slice(b"\nEI\n");
}

pub fn check_images(case: &ImageCase) -> Verdict {
    let mut rep = CaseReport::new();
    let mut bytes = Vec::new();
    let mut n_img = 0;
    for p in &case.pieces {
        match p {
            Piece::Op(o) => {
                if excluded_operator(&o.operator) {
                    continue;
                }
                let c = to_content(std::slice::from_ref(o));
                bytes.extend(c.encode().map_err(|e| viol!("encode-error", "{}", e))?);
                bytes.push(b'\n');
            }
            Piece::Image(i) => {
                n_img += 1;
                render_image(i, &mut bytes);
            }
        }
    }
    let o1 = no_panic("Content::decode", || Content::decode(&bytes))?
        .map_err(|e| viol!("decode-error", "hand-rendered content does not decode: {:?}", e))?;
    let expected_ops = case.pieces.iter().filter(|p| match p { Piece::Op(o) => !excluded_operator(&o.operator), _ => true }).count();
    if o1.operations.len() != expected_ops {
        // the hand-rendered input itself is not understood: outside the fixpoint claim but a decode defect of valid input
        return Err(viol!(
            "decode-error",
            "hand-rendered content with {} operations decodes to {} operations; bytes {}",
            expected_ops,
            o1.operations.len(),
            super::common::show_bytes(&bytes, 800)
        ));
    }
    // every image decodes to the data that was rendered
    let mut k = 0;
    for p in &case.pieces {
        match p {
            Piece::Op(o) if excluded_operator(&o.operator) => {}
            Piece::Op(_) => k += 1,
            Piece::Image(i) => {
                let op = &o1.operations[k];
                k += 1;
                let ok = op.operator == "BI"
                    && op.operands.len() == 1
                    && matches!(&op.operands[0], Object::Stream(s) if s.content.len() == image_len(i));
                if !ok {
                    return Err(viol!("decode-error", "inline image decoded as {:?}", op));
                }
                if !i.hostile_key.0.is_empty() {
                    let has = matches!(&op.operands[0], Object::Stream(s) if s.dict.get(&i.hostile_key.0).map(|v| v.as_i64().ok() == Some(7)).unwrap_or(false));
                    if !has {
                        return Err(viol!("decode-error", "inline image entry with key {:?} not found after decoding: {:?}", i.hostile_key, op));
                    }
                }
            }
        }
    }
    let re = no_panic("Content::encode", || o1.encode())?.map_err(|e| viol!("encode-error", "{}", e))?;
    let o2 = no_panic("Content::decode", || Content::decode(&re))?
        .map_err(|e| viol!("inline-image-not-fixpoint", "re-encoded content does not decode: {:?}; bytes {}", e, super::common::show_bytes(&re, 800)))?;
    compare_ops(&o1.operations, &o2.operations, Opts::ROUNDTRIP, "decode(encode(decode(bytes)))").map_err(|v| {
        viol!("inline-image-not-fixpoint", "{}\nre-encoded: {}", v.detail, super::common::show_bytes(&re, 800))
    })?;
    rep.label_if(n_img >= 2, "two-or-more-images");
    rep.label_if(case.pieces.iter().any(|p| matches!(p, Piece::Image(i) if !i.hostile_key.0.is_empty())), "image-key-needing-escapes");
    rep.label_if(case.pieces.iter().any(|p| matches!(p, Piece::Image(i) if !i.abbreviated_keys)), "full-keys");
    rep.label_if(case.pieces.iter().any(|p| matches!(p, Piece::Image(i) if i.bpc < 8)), "bpc<8");
    rep.label_if(case.pieces.iter().any(|p| matches!(p, Piece::Image(i) if i.bpc == 16)), "bpc16");
    rep.nontrivial = n_img >= 1 && case.pieces.len() >= 2;
    Ok(rep)
}

pub fn image_strategy() -> BoxedStrategy<InlineImage> {
    // a hostile key never equals one of the keys the decoder interprets
    let hostile = prop_oneof![3 => Just(vec![]), 2 => vec(prop_oneof![Just(b' '), Just(b'#'), Just(b'/'), Just(b'('), Just(b'%'), Just(0xe9u8), Just(b'\n'), Just(b'Z'), Just(b'q')], 2..6)];
    (1u8..=8, 1u8..=8, prop_oneof![Just(1u8), Just(2u8), Just(4u8), Just(8u8), Just(16u8)], 0u8..8, any::<bool>(), vec(any::<u8>(), 0..12), any::<bool>(), hostile)
        .prop_map(|(w, h, bpc, cs, abbreviated_keys, d, extra_key, hk)| InlineImage { w, h, bpc, cs, abbreviated_keys, data_seed: B(d), extra_key, hostile_key: B(hk) })
        .boxed()
}

// ---------- exhaustive byte pairs ----------

#[derive(Clone, Debug, Serialize, Deserialize)]
pub struct PairCase {
    pub first: u8,
}

pub fn check_pairs(case: &PairCase) -> Verdict {
    let mut ops = vec![];
    for b in 0..=255u8 {
        let s = B(vec![case.first, b]);
        ops.push(Op {
            operator: "Tj".into(),
            operands: vec![
                AObj::Str(s.clone(), false),
                AObj::Str(s.clone(), true),
                AObj::Name(s.clone()),
                AObj::Dict(vec![(s.clone(), AObj::Int(1))]),
                AObj::Array(vec![AObj::Name(s.clone()), AObj::Int(2), AObj::Str(s, false)]),
            ],
        });
    }
    let mut rep = check(&Case { ops })?;
    rep.nontrivial = true;
    Ok(rep)
}

fn obj_opts(run: &Run) -> ObjOpts {
    let mut o = ObjOpts::default();
    o.allow_refs = false;
    o.real.huge_integral = !run.finding_open("C01-huge-integral-real");
    o.deep_parens = !run.finding_open("C01-deep-balanced-parens");
    o
}

pub fn run(run: &mut Run) {
    run.rule = "cases: sequences of 0..12 operations, operator from ISO 32000-1 Table 51 or random over letters,*,',\" with 0..6 direct operands of every kind nested (no references, no streams), hostile bytes; oracle decode(encode(ops)) = ops under CANON. Campaign 'deep-operands': one operation with an operand nested 1..160 levels, same oracle. Inline images: hand-rendered content with valid BI..ID..EI images (W,H 1..8, BPC 1/2/4/8/16, every colour-space name the parser lists, abbreviated and full keys, data containing 'EI') interleaved with ordinary operations; oracle: decode -> encode -> decode is a fixpoint and every image has the rendered data length. Exhaustive: all 65 536 byte pairs as literal string, hex string, name, key. non-trivial = >=2 operations, >=2 operands and (a nested operand or a hostile byte) / >=1 image among >=2 pieces; distinct by case hash.".into();
    run.assumptions = vec![
        "operators beginning with true/false/null and BI outside an inline image are outside the domain (they lex as operands); removed and counted".into(),
    ];
    run.replay_known_demos(replay);
    let opts = obj_opts(run);
    let n = run.tier.pick(30_000, 1_000_000);
    run.campaign("encode-decode", || vec(op_strategy(opts), 0..12).prop_map(|ops| Case { ops }), n, check, |_c, _v| None);
    // operand nesting depth as a generated quantity; from 64 levels on the parser refuses (known finding C14-nesting-limit)
    let tolerate = run.finding_open("C14-nesting-limit");
    run.campaign("deep-operands", || vec(0u8..2, 1..160).prop_map(|levels| DeepCase { levels }), run.tier.pick(600, 10_000), move |c| check_deep(c, tolerate), |_c, _v| None);
    let n2 = run.tier.pick(10_000, 300_000);
    let img_on = !run.finding_open("C14-inline-image-encode");
    if img_on {
        run.campaign(
            "inline-images",
            || {
                vec(prop_oneof![2 => op_strategy(opts).prop_map(Piece::Op), 3 => image_strategy().prop_map(Piece::Image)], 1..6)
                    .prop_map(|pieces| ImageCase { pieces })
            },
            n2,
            check_images,
            |_c, _v| None,
        );
    }
    run.enumerated(
        "byte-pairs",
        (0..=255u8).map(|first| PairCase { first }),
        true,
        "all 65536 byte pairs as literal string, hex string, name, dictionary key and array element of one operation each, 256 per content stream",
        check_pairs,
    );
}

pub fn replay(file: &Value) -> Result<Verdict, String> {
    match file.get("campaign").and_then(|c| c.as_str()).unwrap_or("encode-decode") {
        "inline-images" => Ok(check_images(&replay_case::<ImageCase>(file)?)),
        "byte-pairs" => Ok(check_pairs(&replay_case::<PairCase>(file)?)),
        "deep-operands" => Ok(check_deep(&replay_case::<DeepCase>(file)?, false)),
        _ => Ok(check(&replay_case::<Case>(file)?)),
    }
}
