//! Byte-level front end shared by the libFuzzer targets (`harness/fuzz`) and by the confirmation step of the
//! thorough tier: the bytes libFuzzer mutates are decoded into (entry, payload) pairs for the worker's dispatch
//! function, so a saved artifact can be re-run in the isolated worker and turned into an ordinary replay file.

use super::c04;
use super::entries::*;
use crate::gen::chaos;
use crate::model::{AObj, B};
use proptest::strategy::{Strategy, ValueTree};
use proptest::test_runner::{Config, RngSeed, TestRunner};

pub const TARGETS_C04: &[&str] = &["load", "content", "streams", "cmap"];
pub const TARGETS_C13: &[&str] = &["queries"];

pub const MAX_INPUT: usize = 65536;

struct Un<'a>(&'a [u8]);
impl Un<'_> {
    fn byte(&mut self) -> u8 {
        if let Some((b, rest)) = self.0.split_first() {
            self.0 = rest;
            *b
        } else {
            0
        }
    }
    fn int(&mut self) -> i64 {
        match self.byte() % 6 {
            0 => self.byte() as i64,
            1 => -(self.byte() as i64),
            2 => (self.byte() as i64) << 8 | self.byte() as i64,
            3 => [i64::MAX, i64::MIN, 1 << 32, (1 << 32) - 1, 1 << 31, 1 << 62, 65536, 4294967296][self.byte() as usize % 8],
            4 => {
                let mut v = 0i64;
                for _ in 0..8 {
                    v = v << 8 | self.byte() as i64;
                }
                v
            }
            _ => (self.byte() % 16) as i64,
        }
    }
}

/// streams target: byte 0 selects the entry, then a small table-driven dictionary (filter chain, decode parameters,
/// N/First/W/Index/Size from compact integers incl. extremes); the rest is the stream content.
fn streams_case(data: &[u8]) -> Option<(u8, Vec<u8>)> {
    if data.is_empty() {
        return None;
    }
    let mut u = Un(data);
    let entry = [E_FILTER, E_OBJSTM, E_XREF][u.byte() as usize % 3];
    let mut dict: Vec<(B, AObj)> = vec![];
    let names = ["FlateDecode", "LZWDecode", "ASCII85Decode", "ASCIIHexDecode", "Crypt", "DCTDecode"];
    let nf = u.byte() % 4;
    if nf == 1 {
        dict.push((B::from("Filter"), AObj::name(names[u.byte() as usize % names.len()])));
    } else if nf > 1 {
        dict.push((B::from("Filter"), AObj::Array((0..nf).map(|_| AObj::name(names[u.byte() as usize % names.len()])).collect())));
    }
    let parms = |u: &mut Un| {
        let mut d: Vec<(B, AObj)> = vec![];
        let mask = u.byte();
        for (i, k) in ["Predictor", "Colors", "Columns", "BitsPerComponent", "EarlyChange"].iter().enumerate() {
            if mask & (1 << i) != 0 {
                let v = if i == 0 && mask & 0x80 != 0 { 10 + (u.byte() % 6) as i64 } else { u.int() };
                d.push((B::from(*k), AObj::Int(v)));
            }
        }
        AObj::Dict(d)
    };
    match u.byte() % 3 {
        0 => {}
        1 => dict.push((B::from("DecodeParms"), parms(&mut u))),
        _ => {
            let n = u.byte() % 4;
            dict.push((B::from("DecodeParms"), AObj::Array((0..n).map(|_| parms(&mut u)).collect())));
        }
    }
    match entry {
        E_OBJSTM => {
            dict.push((B::from("Type"), AObj::name("ObjStm")));
            dict.push((B::from("N"), AObj::Int(u.int())));
            dict.push((B::from("First"), AObj::Int(u.int())));
        }
        E_XREF => {
            dict.push((B::from("Type"), AObj::name("XRef")));
            dict.push((B::from("Size"), AObj::Int(u.int())));
            let nw = u.byte() % 5;
            dict.push((B::from("W"), AObj::Array((0..nw).map(|_| AObj::Int(u.int())).collect())));
            if u.byte() % 2 == 0 {
                let ni = u.byte() % 6;
                dict.push((B::from("Index"), AObj::Array((0..ni).map(|_| AObj::Int(u.int())).collect())));
            }
        }
        _ => {}
    }
    let content = u.0.to_vec();
    dict.push((B::from("Length"), AObj::Int(content.len() as i64)));
    let spec = StreamSpec { dict, content: B(content) };
    Some((entry, serde_json::to_vec(&spec).unwrap()))
}

const CMAP_HEAD: &[u8] = b"/CIDInit /ProcSet findresource begin\n12 dict begin\nbegincmap\n/CMapType 2 def\n1 begincodespacerange\n<0000> <FFFF>\nendcodespacerange\n";
const CMAP_TAIL: &[u8] = b"\nendcmap\nCMapName currentdict /CMap defineresource pop\nend\nend\n";

/// cmap target: byte 0 flags (bit 0 raw body, bits 1-2 /Encoding, bit 4 compression), bytes 1..9 the codes to
/// decode, the rest the CMap body (wrapped in the Adobe template unless raw).
fn cmap_case(data: &[u8]) -> Option<(u8, Vec<u8>)> {
    if data.len() < 10 {
        return None;
    }
    let flags = data[0];
    let codes = data[1..9].to_vec();
    let body = &data[9..];
    let cmap = if flags & 1 == 0 { [CMAP_HEAD, body, CMAP_TAIL].concat() } else { body.to_vec() };
    let encoding = match (flags >> 1) % 4 {
        0 => None,
        1 => Some(B::from("Identity-H")),
        2 => Some(B::from("Identity-V")),
        _ => Some(B::from("WinAnsiEncoding")),
    };
    let spec = CMapSpec { cmap: B(cmap), codes: B(codes), encoding, compress: flags & 0x10 != 0 };
    Some((E_CMAP, serde_json::to_vec(&spec).unwrap()))
}

/// The worker calls a libFuzzer input of `target` stands for.
pub fn entries_for(target: &str, data: &[u8]) -> Vec<(u8, Vec<u8>)> {
    if data.len() > MAX_INPUT {
        return vec![];
    }
    match target {
        "load" => vec![(E_LOAD, data.to_vec()), (E_INCLOAD, data.to_vec())],
        "content" => vec![(E_CONTENT, data.to_vec()), (E_TEXTSTRING, data.to_vec())],
        "streams" => streams_case(data).into_iter().collect(),
        "cmap" => cmap_case(data).into_iter().collect(),
        "queries" => vec![(E_FILEQUERIES, data.to_vec())],
        _ => vec![],
    }
}

/// One libFuzzer execution: every call the input stands for, in this process.
pub fn fuzz_one(target: &str, data: &[u8]) {
    for (entry, payload) in entries_for(target, data) {
        let _ = dispatch(entry, &payload);
    }
}

fn sample<T: std::fmt::Debug>(s: impl Strategy<Value = T>, seed: u64, n: usize) -> Vec<T> {
    let mut runner = TestRunner::new(Config { rng_seed: RngSeed::Fixed(seed), failure_persistence: None, ..Config::default() });
    (0..n).filter_map(|_| s.new_tree(&mut runner).ok().map(|t| t.current())).collect()
}

/// Starting corpus of a target: generated inputs of the check's own generators, rendered in the target's byte format
/// (a pure function of the seed), plus the repository assets where they apply.
pub fn seed_corpus(target: &str, seed: u64, n: usize) -> Vec<Vec<u8>> {
    let seed = crate::engine::mix(seed, "libfuzzer", target, 0);
    let mut out: Vec<Vec<u8>> = vec![];
    match target {
        "load" => {
            for c in sample(c04::load_strategy(), seed, n) {
                out.push(c.materialise().1);
            }
            for a in 0..3u8 {
                out.push(crate::gen::mutate::Base::Asset(a).render());
            }
        }
        "content" => {
            for c in sample(c04::content_strategy(), seed, n) {
                out.push(c.materialise().1);
            }
            for c in sample(c04::textstring_strategy(), seed, n / 4) {
                out.push(c.materialise().1);
            }
        }
        "cmap" => {
            for c in sample(c04::cmap_strategy(), seed, n) {
                if let c04::Case::CMap(spec) = c {
                    let enc = match spec.encoding.as_ref().map(|b| b.0.as_slice()) {
                        None => 0u8,
                        Some(b"Identity-H") => 1,
                        Some(b"Identity-V") => 2,
                        _ => 3,
                    };
                    let mut v = vec![1 | enc << 1 | if spec.compress { 0x10 } else { 0 }];
                    let mut codes = spec.codes.0.clone();
                    codes.resize(8, 0);
                    v.extend_from_slice(&codes);
                    v.extend_from_slice(&spec.cmap.0);
                    out.push(v);
                }
            }
        }
        "streams" => {
            // the dictionary prefix is a compact code of its own: start from a few hand-made prefixes and random tails
            for (i, tail) in sample(proptest::collection::vec(proptest::num::u8::ANY, 0..200), seed, n).into_iter().enumerate() {
                let mut v = vec![(i % 3) as u8, (i / 3 % 4) as u8, (i / 12 % 6) as u8, (i / 72 % 3) as u8];
                v.extend_from_slice(&tail);
                out.push(v);
            }
        }
        "queries" => {
            for g in sample(chaos::graph_strategy(), seed, n) {
                let mut doc = g.to_document();
                let mut buf = vec![];
                if std::panic::catch_unwind(std::panic::AssertUnwindSafe(|| doc.save_to(&mut buf))).map(|r| r.is_ok()).unwrap_or(false) {
                    out.push(buf);
                }
            }
            for a in 0..3u8 {
                out.push(crate::gen::mutate::Base::Asset(a).render());
            }
        }
        _ => {}
    }
    out.retain(|v| v.len() <= MAX_INPUT);
    out
}
