//! Abstract object model (own syntax tree, serialisable) and conversion to/from lopdf values.

use lopdf::{Dictionary, Document, Object, Stream, StringFormat};
use serde::{Deserialize, Deserializer, Serialize, Serializer};
use std::fmt;

/// Byte string, serialised as hex in replay files, printed escaped in Debug.
#[derive(Clone, PartialEq, Eq, Hash, PartialOrd, Ord, Default)]
pub struct B(pub Vec<u8>);

impl fmt::Debug for B {
    fn fmt(&self, f: &mut fmt::Formatter<'_>) -> fmt::Result {
        write!(f, "b\"")?;
        for &c in &self.0 {
            if (0x20..0x7f).contains(&c) && c != b'"' && c != b'\\' {
                write!(f, "{}", c as char)?;
            } else {
                write!(f, "\\x{:02x}", c)?;
            }
        }
        write!(f, "\"")
    }
}

impl Serialize for B {
    fn serialize<S: Serializer>(&self, s: S) -> Result<S::Ok, S::Error> {
        let mut out = String::with_capacity(self.0.len() * 2);
        for b in &self.0 {
            out.push_str(&format!("{:02x}", b));
        }
        s.serialize_str(&out)
    }
}

impl<'de> Deserialize<'de> for B {
    fn deserialize<D: Deserializer<'de>>(d: D) -> Result<Self, D::Error> {
        let s = String::deserialize(d)?;
        let bytes = s.as_bytes();
        if bytes.len() % 2 != 0 {
            return Err(serde::de::Error::custom("odd hex"));
        }
        let mut out = Vec::with_capacity(bytes.len() / 2);
        for ch in bytes.chunks(2) {
            let t = std::str::from_utf8(ch).map_err(serde::de::Error::custom)?;
            out.push(u8::from_str_radix(t, 16).map_err(serde::de::Error::custom)?);
        }
        Ok(B(out))
    }
}

impl From<&[u8]> for B {
    fn from(v: &[u8]) -> Self {
        B(v.to_vec())
    }
}
impl From<&str> for B {
    fn from(v: &str) -> Self {
        B(v.as_bytes().to_vec())
    }
}
impl From<Vec<u8>> for B {
    fn from(v: Vec<u8>) -> Self {
        B(v)
    }
}

pub type ADict = Vec<(B, AObj)>;

#[derive(Clone, PartialEq, Serialize, Deserialize)]
pub enum AObj {
    Null,
    Bool(bool),
    Int(i64),
    /// f32 bit pattern (finite)
    Real(u32),
    Name(B),
    /// bytes, hexadecimal?
    Str(B, bool),
    Array(Vec<AObj>),
    Dict(ADict),
    Ref(u32, u16),
    /// top-level only: extra dictionary entries (Length is maintained by conversion), content
    Stream(ADict, B),
}

impl fmt::Debug for AObj {
    fn fmt(&self, f: &mut fmt::Formatter<'_>) -> fmt::Result {
        match self {
            AObj::Null => write!(f, "null"),
            AObj::Bool(b) => write!(f, "{}", b),
            AObj::Int(i) => write!(f, "{}", i),
            AObj::Real(bits) => write!(f, "{:?}f", f32::from_bits(*bits)),
            AObj::Name(n) => write!(f, "/{:?}", n),
            AObj::Str(s, hex) => write!(f, "{}{:?}", if *hex { "hex" } else { "lit" }, s),
            AObj::Array(a) => f.debug_list().entries(a.iter()).finish(),
            AObj::Dict(d) => {
                write!(f, "<<")?;
                for (k, v) in d {
                    write!(f, "/{:?} {:?} ", k, v)?;
                }
                write!(f, ">>")
            }
            AObj::Ref(n, g) => write!(f, "{} {} R", n, g),
            AObj::Stream(d, c) => {
                write!(f, "stream<<")?;
                for (k, v) in d {
                    write!(f, "/{:?} {:?} ", k, v)?;
                }
                write!(f, ">>[{} bytes {:?}]", c.0.len(), B(c.0.iter().take(40).cloned().collect()))
            }
        }
    }
}

impl AObj {
    pub fn real(v: f32) -> AObj {
        AObj::Real(v.to_bits())
    }
    pub fn name(s: &str) -> AObj {
        AObj::Name(B(s.as_bytes().to_vec()))
    }
    pub fn lit(s: &[u8]) -> AObj {
        AObj::Str(B(s.to_vec()), false)
    }
    pub fn dict(entries: Vec<(&str, AObj)>) -> AObj {
        AObj::Dict(entries.into_iter().map(|(k, v)| (B::from(k), v)).collect())
    }
    pub fn to_object(&self) -> Object {
        match self {
            AObj::Null => Object::Null,
            AObj::Bool(b) => Object::Boolean(*b),
            AObj::Int(i) => Object::Integer(*i),
            AObj::Real(bits) => Object::Real(f32::from_bits(*bits)),
            AObj::Name(n) => Object::Name(n.0.clone()),
            AObj::Str(s, hex) => Object::String(
                s.0.clone(),
                if *hex { StringFormat::Hexadecimal } else { StringFormat::Literal },
            ),
            AObj::Array(a) => Object::Array(a.iter().map(|o| o.to_object()).collect()),
            AObj::Dict(d) => Object::Dictionary(adict_to_dict(d)),
            AObj::Ref(n, g) => Object::Reference((*n, *g)),
            AObj::Stream(d, c) => {
                // Stream::new maintains Length the way every in-repo caller does
                Object::Stream(Stream::new(adict_to_dict(d), c.0.clone()))
            }
        }
    }

    /// like `to_object`, but a stream keeps its dictionary exactly as given (no Length maintenance)
    pub fn to_object_raw(&self) -> Object {
        match self {
            AObj::Array(a) => Object::Array(a.iter().map(|o| o.to_object_raw()).collect()),
            AObj::Dict(d) => {
                let mut out = Dictionary::new();
                for (k, v) in d {
                    out.set(k.0.clone(), v.to_object_raw());
                }
                Object::Dictionary(out)
            }
            AObj::Stream(d, c) => {
                let mut out = Dictionary::new();
                for (k, v) in d {
                    out.set(k.0.clone(), v.to_object_raw());
                }
                Object::Stream(Stream {
                    dict: out,
                    content: c.0.clone(),
                    allows_compression: true,
                    start_position: None,
                })
            }
            other => other.to_object(),
        }
    }

    pub fn from_object(o: &Object) -> AObj {
        match o {
            Object::Null => AObj::Null,
            Object::Boolean(b) => AObj::Bool(*b),
            Object::Integer(i) => AObj::Int(*i),
            Object::Real(r) => AObj::Real(r.to_bits()),
            Object::Name(n) => AObj::Name(B(n.clone())),
            Object::String(s, f) => AObj::Str(B(s.clone()), matches!(f, StringFormat::Hexadecimal)),
            Object::Array(a) => AObj::Array(a.iter().map(AObj::from_object).collect()),
            Object::Dictionary(d) => AObj::Dict(dict_to_adict(d)),
            Object::Reference((n, g)) => AObj::Ref(*n, *g),
            Object::Stream(s) => AObj::Stream(dict_to_adict(&s.dict), B(s.content.clone())),
        }
    }

    /// visit every node (pre-order)
    pub fn visit<'a>(&'a self, f: &mut dyn FnMut(&'a AObj)) {
        f(self);
        match self {
            AObj::Array(a) => a.iter().for_each(|o| o.visit(f)),
            AObj::Dict(d) | AObj::Stream(d, _) => d.iter().for_each(|(_, o)| o.visit(f)),
            _ => {}
        }
    }

    pub fn visit_mut(&mut self, f: &mut dyn FnMut(&mut AObj)) {
        f(self);
        match self {
            AObj::Array(a) => a.iter_mut().for_each(|o| o.visit_mut(f)),
            AObj::Dict(d) | AObj::Stream(d, _) => d.iter_mut().for_each(|(_, o)| o.visit_mut(f)),
            _ => {}
        }
    }

    pub fn depth(&self) -> usize {
        match self {
            AObj::Array(a) => 1 + a.iter().map(|o| o.depth()).max().unwrap_or(0),
            AObj::Dict(d) | AObj::Stream(d, _) => 1 + d.iter().map(|(_, o)| o.depth()).max().unwrap_or(0),
            _ => 0,
        }
    }

    pub fn get<'a>(&'a self, key: &str) -> Option<&'a AObj> {
        match self {
            AObj::Dict(d) | AObj::Stream(d, _) => d.iter().rev().find(|(k, _)| k.0 == key.as_bytes()).map(|(_, v)| v),
            _ => None,
        }
    }
}

pub fn adict_to_dict(d: &ADict) -> Dictionary {
    let mut out = Dictionary::new();
    for (k, v) in d {
        out.set(k.0.clone(), v.to_object());
    }
    out
}

pub fn dict_to_adict(d: &Dictionary) -> ADict {
    d.iter().map(|(k, v)| (B(k.clone()), AObj::from_object(v))).collect()
}

/// Abstract document.
#[derive(Clone, Debug, PartialEq, Serialize, Deserialize)]
pub struct ADoc {
    pub version: String,
    pub binary_mark: B,
    /// distinct object numbers
    pub objects: Vec<(u32, u16, AObj)>,
    pub trailer: ADict,
    /// max_id = max object number + slack
    pub max_id_slack: u32,
}

impl ADoc {
    pub fn max_num(&self) -> u32 {
        self.objects.iter().map(|(n, _, _)| *n).max().unwrap_or(0)
    }
    pub fn to_document(&self, xref_stream: bool) -> Document {
        let mut doc = Document::with_version(self.version.clone());
        doc.binary_mark = self.binary_mark.0.clone();
        for (n, g, o) in &self.objects {
            doc.objects.insert((*n, *g), o.to_object());
        }
        doc.trailer = adict_to_dict(&self.trailer);
        doc.max_id = self.max_num() + self.max_id_slack;
        doc.reference_table.cross_reference_type = if xref_stream {
            lopdf::xref::XrefType::CrossReferenceStream
        } else {
            lopdf::xref::XrefType::CrossReferenceTable
        };
        doc
    }
    pub fn get(&self, n: u32, g: u16) -> Option<&AObj> {
        self.objects.iter().find(|(a, b, _)| *a == n && *b == g).map(|(_, _, o)| o)
    }
}
