//! Isolated worker process (DESIGN.md §3.4): child main loop and parent-side client.
//!
//! Protocol: parent → child frames `[u32 le length][u8 entry][payload]`; child → parent lines
//! `BEGIN <n>` and `END <n> <STATUS> <json>` (flushed). STATUS ∈ OK | PANIC | ALLOC.

use crate::alloc;
use serde_json::{json, Value};
use std::io::{BufRead, BufReader, Read, Write};
use std::process::{Child, ChildStdin, Command, Stdio};
use std::sync::mpsc::{channel, Receiver, RecvTimeoutError};
use std::sync::{Arc, Mutex};
use std::time::{Duration, Instant};

pub const STACK: usize = 8 << 20;

/// stack of the thread a case runs on: 8 MiB (a main thread) unless the parent asks for something else
/// (the unoptimised-build worker uses 2 MiB, the default of spawned threads)
fn case_stack() -> usize {
    std::env::var("VERIF_WORKER_STACK").ok().and_then(|v| v.parse().ok()).unwrap_or(STACK)
}

/// which worker binary a case runs in
#[derive(Clone, Copy, Debug, PartialEq, Eq)]
pub enum Flavour {
    /// this binary: optimised, overflow checks on, 8 MiB case stack
    Release,
    /// `VERIF_BIN_DBG`: the same sources compiled without optimisation (what `cargo test` and debug builds of a
    /// caller run), 2 MiB case stack
    Unoptimised,
}

// ---------------------------------------------------------------- child side

static LAST_PANIC: Mutex<Option<Value>> = Mutex::new(None);

fn normalise(msg: &str) -> String {
    let mut out = String::new();
    let mut prev_digit = false;
    for c in msg.chars() {
        if c.is_ascii_digit() {
            if !prev_digit {
                out.push('#');
            }
            prev_digit = true;
        } else {
            prev_digit = false;
            out.push(c);
        }
    }
    crate::engine::truncate(&out, 200)
}

/// innermost lopdf function of a captured backtrace, as `file.rs:function` (no line numbers: robust
/// against drift). Frames are "N: name" followed by "at path:line:col".
fn innermost_lopdf(bt: &str) -> String {
    let lines: Vec<&str> = bt.lines().collect();
    for i in 0..lines.len().saturating_sub(1) {
        let at = lines[i + 1].trim();
        if let Some(path) = at.strip_prefix("at ") {
            if path.starts_with("/repo/src/") {
                let file = path.trim_start_matches("/repo/src/").split(':').next().unwrap_or("");
                let name = lines[i].trim().splitn(2, ": ").nth(1).unwrap_or("?");
                // closures are attributed to the enclosing function of the next lopdf frame with a real name
                let mut fname = name.split('<').next().unwrap_or(name).to_string();
                if fname.starts_with("{closure") {
                    for j in (i + 2..lines.len().saturating_sub(1)).step_by(2) {
                        let at2 = lines[j + 1].trim();
                        let n2 = lines[j].trim().splitn(2, ": ").nth(1).unwrap_or("");
                        if at2.starts_with("at /repo/src/") && !n2.starts_with("{closure") {
                            fname = format!("{}::{{closure}}", n2.split('<').next().unwrap_or(n2));
                            break;
                        }
                    }
                }
                return format!("{}:{}", file, fname);
            }
        }
    }
    "?".into()
}

pub fn install_panic_hook() {
    std::panic::set_hook(Box::new(|info| {
        let msg = if let Some(s) = info.payload().downcast_ref::<&str>() {
            s.to_string()
        } else if let Some(s) = info.payload().downcast_ref::<String>() {
            s.clone()
        } else {
            "non-string panic payload".into()
        };
        let loc = info.location().map(|l| format!("{}:{}", l.file(), l.line())).unwrap_or_default();
        // capturing a backtrace allocates: keep the allocation limits out of the way
        alloc::disarm();
        let bt = std::backtrace::Backtrace::force_capture().to_string();
        let func = innermost_lopdf(&bt);
        if std::env::var("VERIF_BT_DEBUG").is_ok() {
            eprintln!("{}", bt);
        }
        *LAST_PANIC.lock().unwrap_or_else(|e| e.into_inner()) = Some(json!({"msg": normalise(&msg), "raw": crate::engine::truncate(&msg, 300), "loc": loc, "func": func}));
    }));
}

pub type CaseFn = fn(u8, &[u8]) -> String;

/// Run one case on a fresh thread with the reference stack size, under the allocation limits.
pub fn run_guarded(entry: u8, payload: &[u8], f: CaseFn) -> (String, Value) {
    let single = std::cmp::max(256usize << 20, payload.len().saturating_mul(4096));
    let total = std::cmp::max(1usize << 30, payload.len().saturating_mul(16384));
    *LAST_PANIC.lock().unwrap_or_else(|e| e.into_inner()) = None;
    let data = payload.to_vec();
    let t0 = Instant::now();
    let handle = std::thread::Builder::new().stack_size(case_stack()).spawn(move || {
        alloc::arm(single, total);
        let r = std::panic::catch_unwind(move || f(entry, &data));
        alloc::disarm();
        r
    });
    let res = match handle {
        Ok(h) => h.join(),
        Err(e) => return ("OK".into(), json!({"summary": format!("spawn-failed:{}", e)})),
    };
    alloc::disarm();
    let obs = alloc::observed();
    let ms = t0.elapsed().as_secs_f64() * 1000.0;
    let extra = json!({"max_request": obs.max_request, "peak": obs.peak, "ms": (ms * 10.0).round() / 10.0});
    if obs.refused_single > 0 {
        return ("ALLOC".into(), json!({"kind": "alloc-refused", "size": obs.refused_single, "limit": single, "obs": extra}));
    }
    if obs.refused_total > 0 {
        return ("ALLOC".into(), json!({"kind": "alloc-cumulative", "size": obs.refused_total, "limit": total, "obs": extra}));
    }
    match res {
        Ok(Ok(summary)) => ("OK".into(), json!({"summary": summary, "obs": extra})),
        _ => {
            let p = LAST_PANIC.lock().unwrap_or_else(|e| e.into_inner()).take().unwrap_or(json!({"msg": "?", "func": "?", "loc": ""}));
            ("PANIC".into(), p)
        }
    }
}

pub fn worker_main(f: CaseFn) {
    install_panic_hook();
    #[cfg(feature = "par")]
    {
        // rayon's default worker stack (2 MiB), as in an application that does not configure the pool
        let _ = rayon::ThreadPoolBuilder::new().num_threads(4).build_global();
    }
    let stdin = std::io::stdin();
    let mut inp = stdin.lock();
    let stdout = std::io::stdout();
    let mut n = 0u64;
    loop {
        let mut len = [0u8; 4];
        if inp.read_exact(&mut len).is_err() {
            return;
        }
        let len = u32::from_le_bytes(len) as usize;
        let mut buf = vec![0u8; len];
        if inp.read_exact(&mut buf).is_err() || buf.is_empty() {
            return;
        }
        n += 1;
        {
            let mut o = stdout.lock();
            let _ = writeln!(o, "BEGIN {}", n);
            let _ = o.flush();
        }
        let (status, info) = run_guarded(buf[0], &buf[1..], f);
        let mut o = stdout.lock();
        let _ = writeln!(o, "END {} {} {}", n, status, info);
        let _ = o.flush();
    }
}

// ---------------------------------------------------------------- parent side

#[derive(Clone, Debug)]
pub enum Outcome {
    /// returned normally; summary string from the entry point
    Ok { summary: String, ms: f64, max_request: u64 },
    Panic { func: String, msg: String, loc: String, raw: String },
    Alloc { kind: String, size: u64 },
    /// the process died: kind ∈ stack-overflow | alloc-abort | signal-<n> | exit-<n>
    Died { kind: String, stderr: String },
    Hang { seconds: u64 },
    /// infrastructure problem (cannot start the worker, protocol error)
    Infra(String),
}

impl Outcome {
    pub fn is_failure(&self) -> bool {
        !matches!(self, Outcome::Ok { .. } | Outcome::Infra(_))
    }
    pub fn kind(&self) -> String {
        match self {
            Outcome::Ok { .. } => "ok".into(),
            Outcome::Panic { .. } => "panic".into(),
            Outcome::Alloc { kind, .. } => kind.clone(),
            Outcome::Died { kind, .. } => kind.clone(),
            Outcome::Hang { .. } => "hang".into(),
            Outcome::Infra(_) => "infra".into(),
        }
    }
    pub fn func(&self) -> String {
        match self {
            Outcome::Panic { func, .. } => func.clone(),
            _ => String::new(),
        }
    }
    pub fn message(&self) -> String {
        match self {
            Outcome::Panic { msg, .. } => msg.clone(),
            Outcome::Died { stderr, .. } => stderr.clone(),
            Outcome::Alloc { size, .. } => format!("{} bytes", size),
            _ => String::new(),
        }
    }
    pub fn describe(&self) -> String {
        match self {
            Outcome::Ok { summary, .. } => format!("ok ({})", summary),
            Outcome::Panic { func, raw, loc, .. } => format!("panic in {} at {}: {}", func, loc, raw),
            Outcome::Alloc { kind, size } => format!("{}: allocation of {} bytes requested", kind, size),
            Outcome::Died { kind, stderr } => format!("process died ({}): {}", kind, crate::engine::truncate(stderr, 400)),
            Outcome::Hang { seconds } => format!("no answer within {} s when run alone", seconds),
            Outcome::Infra(s) => format!("infrastructure: {}", s),
        }
    }
}

pub struct WorkerClient {
    child: Child,
    stdin: ChildStdin,
    rx: Receiver<String>,
    stderr: Arc<Mutex<Vec<u8>>>,
    sent: u64,
}

impl WorkerClient {
    pub fn spawn(flavour: Flavour) -> Result<WorkerClient, String> {
        let mut cmd = match flavour {
            Flavour::Release => Command::new(std::env::current_exe().map_err(|e| e.to_string())?),
            Flavour::Unoptimised => {
                let bin = std::env::var("VERIF_BIN_DBG").ok().filter(|s| !s.is_empty()).ok_or("VERIF_BIN_DBG not set (run through ./check)")?;
                let mut c = Command::new(bin);
                c.env("VERIF_WORKER_STACK", (2usize << 20).to_string());
                c
            }
        };
        let mut child = cmd
            .arg("worker")
            .env("RUST_BACKTRACE", "0")
            .env("RUST_LOG", "off")
            .stdin(Stdio::piped())
            .stdout(Stdio::piped())
            .stderr(Stdio::piped())
            .spawn()
            .map_err(|e| format!("cannot spawn worker: {}", e))?;
        let stdin = child.stdin.take().unwrap();
        let stdout = child.stdout.take().unwrap();
        let mut stderr = child.stderr.take().unwrap();
        let (tx, rx) = channel();
        std::thread::spawn(move || {
            let r = BufReader::new(stdout);
            for line in r.lines() {
                match line {
                    Ok(l) => {
                        if tx.send(l).is_err() {
                            break;
                        }
                    }
                    Err(_) => break,
                }
            }
        });
        let errbuf = Arc::new(Mutex::new(Vec::new()));
        let eb = errbuf.clone();
        std::thread::spawn(move || {
            let mut buf = [0u8; 4096];
            loop {
                match stderr.read(&mut buf) {
                    Ok(0) | Err(_) => break,
                    Ok(n) => {
                        let mut g = eb.lock().unwrap();
                        if g.len() < 64 * 1024 {
                            g.extend_from_slice(&buf[..n]);
                        }
                    }
                }
            }
        });
        Ok(WorkerClient { child, stdin, rx, stderr: errbuf, sent: 0 })
    }

    fn kill(&mut self) {
        let _ = self.child.kill();
        let _ = self.child.wait();
    }

    /// run one case with a watchdog; `None` = the worker is gone (caller respawns)
    fn run_once(&mut self, entry: u8, payload: &[u8], timeout: Duration) -> Outcome {
        let mut frame = Vec::with_capacity(payload.len() + 5);
        frame.extend_from_slice(&((payload.len() + 1) as u32).to_le_bytes());
        frame.push(entry);
        frame.extend_from_slice(payload);
        self.stderr.lock().unwrap().clear();
        self.sent += 1;
        if self.stdin.write_all(&frame).and_then(|_| self.stdin.flush()).is_err() {
            return self.died();
        }
        let deadline = Instant::now() + timeout;
        loop {
            let left = deadline.saturating_duration_since(Instant::now());
            match self.rx.recv_timeout(left) {
                Ok(line) => {
                    if line.starts_with("BEGIN ") {
                        continue;
                    }
                    if let Some(rest) = line.strip_prefix("END ") {
                        let mut it = rest.splitn(3, ' ');
                        let _n = it.next();
                        let status = it.next().unwrap_or("");
                        let info: Value = serde_json::from_str(it.next().unwrap_or("{}")).unwrap_or(Value::Null);
                        let s = |k: &str| info.get(k).and_then(|v| v.as_str()).unwrap_or("").to_string();
                        return match status {
                            "OK" => Outcome::Ok {
                                summary: s("summary"),
                                ms: info.get("obs").and_then(|o| o.get("ms")).and_then(|v| v.as_f64()).unwrap_or(0.0),
                                max_request: info.get("obs").and_then(|o| o.get("max_request")).and_then(|v| v.as_u64()).unwrap_or(0),
                            },
                            "PANIC" => Outcome::Panic { func: s("func"), msg: s("msg"), loc: s("loc"), raw: s("raw") },
                            "ALLOC" => Outcome::Alloc { kind: s("kind"), size: info.get("size").and_then(|v| v.as_u64()).unwrap_or(0) },
                            other => Outcome::Infra(format!("unknown status {:?}", other)),
                        };
                    }
                    // anything else on stdout (lopdf prints nothing) is ignored
                }
                Err(RecvTimeoutError::Timeout) => {
                    self.kill();
                    return Outcome::Hang { seconds: timeout.as_secs() };
                }
                Err(RecvTimeoutError::Disconnected) => return self.died(),
            }
        }
    }

    fn died(&mut self) -> Outcome {
        let status = self.child.wait().ok();
        std::thread::sleep(Duration::from_millis(20));
        let err = String::from_utf8_lossy(&self.stderr.lock().unwrap()).to_string();
        let kind = if err.contains("has overflowed its stack") {
            "stack-overflow".to_string()
        } else if err.contains("memory allocation of") {
            "alloc-abort".to_string()
        } else {
            #[cfg(unix)]
            {
                use std::os::unix::process::ExitStatusExt;
                match status {
                    Some(s) => match s.signal() {
                        Some(sig) => format!("signal-{}", sig),
                        None => format!("exit-{}", s.code().unwrap_or(-1)),
                    },
                    None => "died".into(),
                }
            }
            #[cfg(not(unix))]
            {
                let _ = status;
                "died".to_string()
            }
        };
        Outcome::Died { kind, stderr: crate::engine::truncate(err.trim(), 600) }
    }
}

thread_local! {
    static CLIENT: std::cell::RefCell<Option<WorkerClient>> = const { std::cell::RefCell::new(None) };
    static CLIENT_DBG: std::cell::RefCell<Option<WorkerClient>> = const { std::cell::RefCell::new(None) };
}

pub static SLOW_CASES: std::sync::atomic::AtomicU64 = std::sync::atomic::AtomicU64::new(0);
pub static RESPAWNS: std::sync::atomic::AtomicU64 = std::sync::atomic::AtomicU64::new(0);

fn with_client<R>(flavour: Flavour, f: impl FnOnce(&mut WorkerClient) -> R) -> Result<R, String> {
    let go = |c: &std::cell::RefCell<Option<WorkerClient>>| {
        let mut c = c.borrow_mut();
        if c.is_none() {
            *c = Some(WorkerClient::spawn(flavour)?);
        }
        Ok(f(c.as_mut().unwrap()))
    };
    match flavour {
        Flavour::Release => CLIENT.with(go),
        Flavour::Unoptimised => CLIENT_DBG.with(go),
    }
}

fn drop_client(flavour: Flavour) {
    let go = |c: &std::cell::RefCell<Option<WorkerClient>>| {
        if let Some(mut w) = c.borrow_mut().take() {
            w.kill();
        }
    };
    match flavour {
        Flavour::Release => CLIENT.with(go),
        Flavour::Unoptimised => CLIENT_DBG.with(go),
    }
    RESPAWNS.fetch_add(1, std::sync::atomic::Ordering::Relaxed);
}

/// Run a case in this thread's worker. A watchdog trip or a death is confirmed by re-running the case
/// alone in a fresh worker (60 s); an unconfirmed trip is counted as "slow", not as a failure.
pub fn run_case(entry: u8, payload: &[u8]) -> Outcome {
    run_case_in(Flavour::Release, entry, payload)
}

pub fn run_case_in(flavour: Flavour, entry: u8, payload: &[u8]) -> Outcome {
    // an unoptimised build is several times slower: scale the watchdog, keep the confirmation rule
    let quick = Duration::from_secs(if flavour == Flavour::Unoptimised { 30 } else { 10 });
    let first = match with_client(flavour, |w| w.run_once(entry, payload, quick)) {
        Ok(o) => o,
        Err(e) => return Outcome::Infra(e),
    };
    match first {
        Outcome::Hang { .. } | Outcome::Died { .. } => {
            drop_client(flavour);
            let second = match with_client(flavour, |w| w.run_once(entry, payload, Duration::from_secs(if flavour == Flavour::Unoptimised { 180 } else { 60 }))) {
                Ok(o) => o,
                Err(e) => return Outcome::Infra(e),
            };
            match (&first, &second) {
                (Outcome::Hang { .. }, Outcome::Ok { .. }) => {
                    SLOW_CASES.fetch_add(1, std::sync::atomic::Ordering::Relaxed);
                    second
                }
                (_, Outcome::Hang { .. }) | (_, Outcome::Died { .. }) => {
                    drop_client(flavour);
                    second
                }
                _ => second,
            }
        }
        other => other,
    }
}

/// Does an outcome match a known crash signature?
pub fn matches_sig(o: &Outcome, entry_name: &str, sig: &crate::engine::known::CrashSig) -> bool {
    if let Some(e) = &sig.entry {
        if e != entry_name {
            return false;
        }
    }
    if sig.failure != o.kind() {
        return false;
    }
    if let Some(f) = &sig.lopdf_fn {
        if !o.func().contains(f.as_str()) {
            return false;
        }
    }
    if let Some(m) = &sig.message {
        if !o.message().contains(m.as_str()) {
            return false;
        }
    }
    true
}
