pub mod objects;
pub mod chaos;
