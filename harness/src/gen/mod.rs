pub mod objects;
