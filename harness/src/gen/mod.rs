pub mod objects;
pub mod chaos;
pub mod mutate;
