//! Structure-aware mutation of valid files (C04).

use crate::model::{ADoc, B};
use crate::refimpl::writer::{self, WFile};
use proptest::collection::vec;
use proptest::prelude::*;
use serde::{Deserialize, Serialize};

pub const ASSETS: &[(&str, &[u8])] = &[
    ("example.pdf", include_bytes!("../../assets/example.pdf")),
    ("Incremental.pdf", include_bytes!("../../assets/Incremental.pdf")),
    ("unicode.pdf", include_bytes!("../../assets/unicode.pdf")),
];

#[derive(Clone, Debug, Serialize, Deserialize)]
pub enum Base {
    /// rendered by the reference writer
    W(WFile),
    /// saved by lopdf itself
    L(ADoc, bool),
    Asset(u8),
    Raw(B),
}

impl Base {
    pub fn render(&self) -> Vec<u8> {
        match self {
            Base::W(f) => writer::write(f).bytes,
            Base::L(d, xs) => {
                let mut doc = d.to_document(*xs);
                let mut out = vec![];
                let _ = doc.save_to(&mut out);
                out
            }
            Base::Asset(i) => ASSETS[*i as usize % ASSETS.len()].1.to_vec(),
            Base::Raw(b) => b.0.clone(),
        }
    }
}

pub const NUM_EXTREMES: &[&str] = &[
    "0", "1", "-1", "2", "255", "256", "32767", "32768", "65535", "65536", "2147483647", "2147483648", "4294967295", "4294967296",
    "9223372036854775807", "-9223372036854775808", "9223372036854775808", "18446744073709551615", "99999999999999999999", "1000000",
    "100000000", "-2147483648", "0000000000", "1.5", "-0", "+7",
];

pub const KEYWORDS: &[&[u8]] = &[
    b"obj", b"endobj", b"stream", b"endstream", b"xref", b"trailer", b"startxref", b"R", b"null", b"true", b"false", b"<<", b">>", b"[", b"]",
    b"(", b")", b"<", b">", b"/", b"%%EOF", b"%PDF-", b"/Length", b"/Type", b"/Prev", b"/Size", b"/W", b"/Index", b"/Filter", b"/N", b"/First",
    b"/Root", b"/XRef", b"/ObjStm", b"/FlateDecode", b"/DecodeParms", b"/Predictor", b"/Columns", b"/Kids", b"/Encrypt", b"f", b"n",
];

#[derive(Clone, Debug, Serialize, Deserialize)]
pub enum Mut {
    FlipBit(u16, u8),
    SetByte(u16, u8),
    Truncate(u16),
    Delete(u16, u8),
    Insert(u16, B),
    /// copy `len` bytes from `from` to position `to` (self-splice)
    Dup(u16, u16, u8),
    /// replace the idx-th number token by an extreme
    Number(u16, u8),
    /// replace the idx-th keyword occurrence by another keyword
    Keyword(u16, u8),
    /// make the idx-th number equal to the value of another number in the file (offset → another object, itself …)
    NumberCopy(u16, u16),
    /// cross-reference links (the numbers after /Prev, /XRefStm and startxref): the a-th link gets the value of the
    /// b-th one — or 0 / the file length / its own position — which produces Prev rings, self loops and wild offsets
    XrefLink(u16, u16, u8),
    /// the a-th indirect reference `n g R` is pointed at the object number of the b-th `n g obj` header (or of
    /// another reference): Length -> itself, Kids/Parent rings, references into object streams
    RefRetarget(u16, u16),
    /// the idx-th number becomes the length of the file plus a small delta: lengths, offsets and counts that are just
    /// inside / just outside the buffer (boundary arithmetic of `start + length` against the file size)
    NumberNearLen(u16, i8),
}

fn pos(p: u16, len: usize) -> usize {
    (p as usize * (len + 1)) >> 16
}

fn number_tokens(b: &[u8]) -> Vec<(usize, usize)> {
    let mut out = vec![];
    let mut i = 0;
    while i < b.len() {
        if b[i].is_ascii_digit() && (i == 0 || !b[i - 1].is_ascii_alphanumeric()) {
            let s = i;
            while i < b.len() && b[i].is_ascii_digit() {
                i += 1;
            }
            out.push((s, i));
        } else {
            i += 1;
        }
    }
    out
}

fn keyword_occurrences(b: &[u8]) -> Vec<(usize, usize)> {
    let mut out = vec![];
    for k in KEYWORDS {
        let mut i = 0;
        while i + k.len() <= b.len() {
            if &b[i..i + k.len()] == *k {
                out.push((i, i + k.len()));
                i += k.len();
            } else {
                i += 1;
            }
        }
    }
    out.sort();
    out
}

/// (start, end) of the number that follows each /Prev, /XRefStm or startxref keyword
fn link_numbers(b: &[u8]) -> Vec<(usize, usize)> {
    let mut out = vec![];
    for kw in [&b"/Prev"[..], b"/XRefStm", b"startxref"] {
        let mut i = 0;
        while i + kw.len() <= b.len() {
            if &b[i..i + kw.len()] == kw {
                let mut j = i + kw.len();
                while j < b.len() && (b[j] == b' ' || b[j] == b'\n' || b[j] == b'\r' || b[j] == b'\t') {
                    j += 1;
                }
                let s = j;
                while j < b.len() && b[j].is_ascii_digit() {
                    j += 1;
                }
                if j > s {
                    out.push((s, j));
                }
                i = j.max(i + 1);
            } else {
                i += 1;
            }
        }
    }
    out.sort();
    out
}

/// (start, end) of the object number of every `n g R` reference and of every `n g obj` header
fn ref_numbers(b: &[u8]) -> (Vec<(usize, usize)>, Vec<(usize, usize)>) {
    let toks = number_tokens(b);
    let mut refs = vec![];
    let mut heads = vec![];
    for w in toks.windows(2) {
        let (a, c) = (w[0], w[1]);
        // "n<ws>g<ws>R" / "n<ws>g<ws>obj"
        if b[a.1..c.0].iter().all(|x| *x == b' ' || *x == b'\n' || *x == b'\r') && c.0 > a.1 {
            let mut j = c.1;
            while j < b.len() && (b[j] == b' ' || b[j] == b'\n' || b[j] == b'\r') {
                j += 1;
            }
            if j > c.1 && b[j..].starts_with(b"R") && !b.get(j + 1).map(|x| x.is_ascii_alphanumeric()).unwrap_or(false) {
                refs.push(a);
            } else if j > c.1 && b[j..].starts_with(b"obj") {
                heads.push(a);
            }
        }
    }
    (refs, heads)
}

pub fn apply(mut b: Vec<u8>, muts: &[Mut]) -> Vec<u8> {
    for m in muts {
        match m {
            Mut::FlipBit(p, bit) => {
                if !b.is_empty() {
                    let i = pos(*p, b.len() - 1);
                    b[i] ^= 1 << (bit % 8);
                }
            }
            Mut::SetByte(p, v) => {
                if !b.is_empty() {
                    let i = pos(*p, b.len() - 1);
                    b[i] = *v;
                }
            }
            Mut::Truncate(p) => {
                let i = pos(*p, b.len());
                b.truncate(i);
            }
            Mut::Delete(p, l) => {
                let i = pos(*p, b.len());
                let e = (i + *l as usize).min(b.len());
                b.drain(i..e);
            }
            Mut::Insert(p, bytes) => {
                let i = pos(*p, b.len());
                let tail = b.split_off(i);
                b.extend_from_slice(&bytes.0);
                b.extend(tail);
            }
            Mut::Dup(from, to, l) => {
                let f = pos(*from, b.len());
                let e = (f + *l as usize * 4).min(b.len());
                let chunk = b[f..e].to_vec();
                let t = pos(*to, b.len());
                let tail = b.split_off(t);
                b.extend(chunk);
                b.extend(tail);
            }
            Mut::Number(idx, v) => {
                let toks = number_tokens(&b);
                if !toks.is_empty() {
                    let (s, e) = toks[(*idx as usize * toks.len()) >> 16];
                    let rep = NUM_EXTREMES[*v as usize % NUM_EXTREMES.len()].as_bytes();
                    b.splice(s..e, rep.iter().cloned());
                }
            }
            Mut::NumberNearLen(idx, delta) => {
                let toks = number_tokens(&b);
                if !toks.is_empty() {
                    let (s, e) = toks[(*idx as usize * toks.len()) >> 16];
                    let v = (b.len() as i64 + *delta as i64).max(0);
                    b.splice(s..e, v.to_string().into_bytes());
                }
            }
            Mut::NumberCopy(idx, src) => {
                let toks = number_tokens(&b);
                if !toks.is_empty() {
                    let (s, e) = toks[(*idx as usize * toks.len()) >> 16];
                    let (s2, e2) = toks[(*src as usize * toks.len()) >> 16];
                    let rep = b[s2..e2].to_vec();
                    b.splice(s..e, rep);
                }
            }
            Mut::XrefLink(a, src, mode) => {
                let links = link_numbers(&b);
                if !links.is_empty() {
                    let (s, e) = links[(*a as usize * links.len()) >> 16];
                    let rep: Vec<u8> = match mode % 6 {
                        0 | 1 | 2 => {
                            let (s2, e2) = links[(*src as usize * links.len()) >> 16];
                            b[s2..e2].to_vec()
                        }
                        3 => b"0".to_vec(),
                        4 => b.len().to_string().into_bytes(),
                        _ => {
                            // the offset of the section this link sits in: search backwards for "xref" / an object header
                            let sec = b[..s].windows(4).rposition(|w| w == b"xref").unwrap_or(0);
                            sec.to_string().into_bytes()
                        }
                    };
                    b.splice(s..e, rep);
                }
            }
            Mut::RefRetarget(a, src) => {
                let (refs, heads) = ref_numbers(&b);
                if !refs.is_empty() {
                    let (s, e) = refs[(*a as usize * refs.len()) >> 16];
                    let pool: Vec<(usize, usize)> = heads.iter().chain(refs.iter()).cloned().collect();
                    let (s2, e2) = pool[(*src as usize * pool.len()) >> 16];
                    let rep = b[s2..e2].to_vec();
                    b.splice(s..e, rep);
                }
            }
            Mut::Keyword(idx, k) => {
                let occ = keyword_occurrences(&b);
                if !occ.is_empty() {
                    let (s, e) = occ[(*idx as usize * occ.len()) >> 16];
                    let rep = KEYWORDS[*k as usize % KEYWORDS.len()];
                    b.splice(s..e, rep.iter().cloned());
                }
            }
        }
        if b.len() > 65536 {
            b.truncate(65536);
        }
    }
    b
}

pub fn mut_strategy() -> BoxedStrategy<Mut> {
    prop_oneof![
        2 => (any::<u16>(), 0u8..8).prop_map(|(p, b)| Mut::FlipBit(p, b)),
        2 => (any::<u16>(), any::<u8>()).prop_map(|(p, b)| Mut::SetByte(p, b)),
        1 => any::<u16>().prop_map(Mut::Truncate),
        1 => (any::<u16>(), 1u8..40).prop_map(|(p, l)| Mut::Delete(p, l)),
        1 => (any::<u16>(), vec(any::<u8>(), 1..8)).prop_map(|(p, v)| Mut::Insert(p, B(v))),
        1 => (any::<u16>(), any::<u16>(), 1u8..60).prop_map(|(f, t, l)| Mut::Dup(f, t, l)),
        6 => (any::<u16>(), any::<u8>()).prop_map(|(i, v)| Mut::Number(i, v)),
        3 => (any::<u16>(), any::<u16>()).prop_map(|(i, s)| Mut::NumberCopy(i, s)),
        3 => (any::<u16>(), prop_oneof![4 => -20i8..=2, 1 => any::<i8>()]).prop_map(|(i, d)| Mut::NumberNearLen(i, d)),
        3 => (any::<u16>(), any::<u8>()).prop_map(|(i, k)| Mut::Keyword(i, k)),
        4 => (any::<u16>(), any::<u16>(), any::<u8>()).prop_map(|(a, b, m)| Mut::XrefLink(a, b, m)),
        3 => (any::<u16>(), any::<u16>()).prop_map(|(a, b)| Mut::RefRetarget(a, b)),
    ]
    .boxed()
}
