//! G-OBJ / G-DOC — strategies for objects and documents (DESIGN.md §4).

use crate::model::{ADict, ADoc, AObj, B};
use proptest::collection::vec;
use proptest::prelude::*;
use proptest::strategy::Union;

/// bytes that the lexers treat specially — weighted up in names/strings/keys
pub const SPECIAL: &[u8] = b"()\\#/%<>[]{}\x00\r\n\t\x0c 0123789nrtbf~!\x7f\x80\xfe\xff";

pub fn special_byte() -> impl Strategy<Value = u8> + Clone {
    (0usize..SPECIAL.len()).prop_map(|i| SPECIAL[i])
}

pub fn hostile_byte() -> impl Strategy<Value = u8> + Clone {
    prop_oneof![
        4 => special_byte(),
        3 => any::<u8>(),
        2 => 0x21u8..0x7f,
    ]
}

pub fn hostile_bytes(max: usize) -> impl Strategy<Value = Vec<u8>> + Clone {
    vec(hostile_byte(), 0..=max)
}

/// literal-string oriented content: adds balanced / unbalanced / nested parenthesis shapes
pub fn string_bytes(max: usize, deep_parens: bool) -> BoxedStrategy<Vec<u8>> {
    let plain = hostile_bytes(max);
    let balanced = (1usize..6, hostile_bytes(6)).prop_map(|(d, inner)| {
        let mut v = vec![b'('; d];
        v.extend(inner.into_iter().filter(|c| *c != b'(' && *c != b')'));
        v.extend(vec![b')'; d]);
        v
    });
    let crlf = vec(prop_oneof![Just(&b"\r\n"[..]), Just(&b"\r"[..]), Just(&b"\n"[..]), Just(&b"\\"[..]), Just(&b"a"[..]), Just(&b"\\\r\n"[..]), Just(&b"7"[..]), Just(&b"\\0"[..])], 0..8)
        .prop_map(|parts| parts.concat());
    let long = vec(hostile_byte(), 64..=4096);
    if deep_parens {
        let deep = (90usize..130, any::<bool>()).prop_map(|(d, bal)| {
            let mut v = vec![b'('; d];
            v.push(b'x');
            if bal {
                v.extend(vec![b')'; d]);
            }
            v
        });
        prop_oneof![60 => plain, 12 => balanced, 12 => crlf, 2 => long, 3 => deep].boxed()
    } else {
        prop_oneof![60 => plain, 12 => balanced, 12 => crlf, 2 => long].boxed()
    }
}

pub const VOCAB: &[&str] = &[
    "Type", "Subtype", "Length", "Filter", "DecodeParms", "Kids", "Parent", "Count", "Contents", "Resources", "Font", "Root",
    "Info", "ID", "Pages", "Page", "Catalog", "First", "N", "W", "Index", "Size", "Prev", "XRef", "ObjStm", "Linearized",
    "FlateDecode", "Encrypt", "Metadata", "R", "obj", "endobj", "stream", "endstream", "null", "true", "false", "A", "F1",
];

pub fn name_bytes() -> BoxedStrategy<Vec<u8>> {
    prop_oneof![
        5 => hostile_bytes(10),
        3 => (0usize..VOCAB.len()).prop_map(|i| VOCAB[i].as_bytes().to_vec()),
        2 => "[A-Za-z][A-Za-z0-9]{0,7}".prop_map(|s| s.into_bytes()),
    ]
    .boxed()
}

pub fn int_strategy() -> BoxedStrategy<i64> {
    prop_oneof![
        5 => -10i64..1000,
        3 => any::<i64>(),
        2 => prop_oneof![
            Just(i64::MIN), Just(i64::MAX), Just(0), Just(-1), Just(1<<31), Just((1<<31)-1), Just(1<<32), Just(-(1<<31)),
            Just(1<<53), Just(65535), Just(65536), Just(i64::MIN+1), Just(i64::MAX-1)
        ],
    ]
    .boxed()
}

#[derive(Clone, Copy, Debug)]
pub struct RealOpts {
    /// allow integral reals with |v| >= 2^63
    pub huge_integral: bool,
}

pub fn real_strategy(opts: RealOpts) -> BoxedStrategy<f32> {
    let finite_bits = any::<u32>().prop_map(|b| {
        let f = f32::from_bits(b);
        if f.is_finite() {
            f
        } else {
            f32::from_bits(b & 0x7f7f_ffff)
        }
    });
    let mut options: Vec<(u32, BoxedStrategy<f32>)> = vec![
        (30, finite_bits.boxed()),
        (20, (-100000i32..100000).prop_map(|n| n as f32 / 100.0).boxed()),
        (12, (-70000i32..70000).prop_map(|n| n as f32).boxed()),
        (6, (0u32..0x0080_0000, any::<bool>()).prop_map(|(m, s)| f32::from_bits(m | if s { 0x8000_0000 } else { 0 })).boxed()),
        (4, prop_oneof![Just(0.0f32), Just(-0.0f32), Just(f32::MAX), Just(f32::MIN), Just(f32::MIN_POSITIVE), Just(1e-10f32), Just(16777216.0f32), Just(0.1f32)].boxed()),
        (8, (24u32..62, 1u32..0x00ff_ffff, any::<bool>()).prop_map(|(e, m, s)| { let v = (m as f32) * 2f32.powi(e as i32 - 23); if s { -v } else { v } }).boxed()),
    ];
    if opts.huge_integral {
        options.push((10, (63u32..127, 0u32..0x007f_ffff, any::<bool>()).prop_map(|(e, m, s)| {
            let bits = ((e + 127) << 23) | m | if s { 0x8000_0000 } else { 0 };
            f32::from_bits(bits)
        }).boxed()));
    }
    Union::new_weighted(options).boxed()
}

pub fn is_huge_integral(v: f32) -> bool {
    v.is_finite() && v.fract() == 0.0 && v.abs() >= 9.2233720368547758e18
}

#[derive(Clone, Copy, Debug)]
pub struct ObjOpts {
    pub real: RealOpts,
    pub deep_parens: bool,
    pub max_str: usize,
    pub allow_refs: bool,
    pub allow_nul_in_names: bool,
}

impl Default for ObjOpts {
    fn default() -> Self {
        ObjOpts {
            real: RealOpts { huge_integral: true },
            deep_parens: true,
            max_str: 64,
            allow_refs: true,
            allow_nul_in_names: true,
        }
    }
}

/// A reference placeholder: (slot, dangling?) — resolved by the document generator.
pub fn leaf(opts: ObjOpts) -> BoxedStrategy<AObj> {
    let nm = if opts.allow_nul_in_names {
        name_bytes()
    } else {
        name_bytes().prop_map(|v| v.into_iter().filter(|c| *c != 0).collect()).boxed()
    };
    let mut options: Vec<(u32, BoxedStrategy<AObj>)> = vec![
        (4, Just(AObj::Null).boxed()),
        (6, any::<bool>().prop_map(AObj::Bool).boxed()),
        (16, int_strategy().prop_map(AObj::Int).boxed()),
        (16, real_strategy(opts.real).prop_map(AObj::real).boxed()),
        (16, nm.prop_map(|n| AObj::Name(B(n))).boxed()),
        (20, (string_bytes(opts.max_str, opts.deep_parens), any::<bool>()).prop_map(|(s, h)| AObj::Str(B(s), h)).boxed()),
    ];
    if opts.allow_refs {
        options.push((12, (any::<u16>(), prop_oneof![9 => Just(0u16), 1 => any::<u16>()]).prop_map(|(slot, g)| AObj::Ref(slot as u32 | 0x8000_0000, g)).boxed()));
    }
    Union::new_weighted(options).boxed()
}

pub fn key_bytes(allow_nul: bool) -> BoxedStrategy<Vec<u8>> {
    if allow_nul {
        name_bytes()
    } else {
        name_bytes().prop_map(|v| v.into_iter().filter(|c| *c != 0).collect()).boxed()
    }
}

fn dedup_dict(entries: Vec<(Vec<u8>, AObj)>) -> ADict {
    let mut out: ADict = vec![];
    for (k, v) in entries {
        if !out.iter().any(|(k2, _)| k2.0 == k) {
            out.push((B(k), v));
        }
    }
    out
}

/// direct object (no stream), nested
pub fn direct_object(opts: ObjOpts, depth: u32, fan: usize) -> BoxedStrategy<AObj> {
    let nul = opts.allow_nul_in_names;
    leaf(opts)
        .prop_recursive(depth, 48, fan as u32, move |inner| {
            prop_oneof![
                vec(inner.clone(), 0..=fan).prop_map(AObj::Array),
                vec((key_bytes(nul), inner), 0..=fan).prop_map(|e| AObj::Dict(dedup_dict(e))),
            ]
        })
        .boxed()
}

pub fn stream_content() -> BoxedStrategy<Vec<u8>> {
    prop_oneof![
        5 => vec(any::<u8>(), 0..200),
        2 => Just(vec![]),
        3 => vec(prop_oneof![Just(&b"endstream"[..]), Just(&b"endobj"[..]), Just(&b"\r\n"[..]), Just(&b"\n"[..]), Just(&b"\r"[..]), Just(&b"stream\n"[..]), Just(&b"xyz"[..]), Just(&b"1 0 obj"[..]), Just(&b"%%EOF"[..]), Just(&b"startxref\n0\n"[..])], 0..6).prop_map(|p| p.concat()),
        1 => vec(any::<u8>(), 200..3000),
    ]
    .boxed()
}

/// top-level object: direct object or stream
pub fn top_object(opts: ObjOpts) -> BoxedStrategy<AObj> {
    let nul = opts.allow_nul_in_names;
    prop_oneof![
        7 => direct_object(opts, 5, 6),
        3 => (vec((key_bytes(nul), direct_object(opts, 2, 4)), 0..4), stream_content())
            .prop_map(|(d, c)| AObj::Stream(dedup_dict(d), B(c))),
    ]
    .boxed()
}

/// keys a generated trailer must not carry (cross-reference bookkeeping / handled elsewhere)
pub const TRAILER_EXCLUDED: &[&[u8]] = &[
    b"Size", b"Prev", b"XRefStm", b"Encrypt", b"Type", b"W", b"Index", b"Length", b"Filter", b"DecodeParms",
];

#[derive(Clone, Copy, Debug)]
pub struct DocOpts {
    pub obj: ObjOpts,
    pub max_objects: usize,
    pub sparse: bool,
    pub generations: bool,
    pub weird_version: bool,
}

impl Default for DocOpts {
    fn default() -> Self {
        DocOpts {
            obj: ObjOpts::default(),
            max_objects: 40,
            sparse: true,
            generations: true,
            weird_version: true,
        }
    }
}

pub fn version_strategy(weird: bool) -> BoxedStrategy<String> {
    if weird {
        prop_oneof![
            6 => prop_oneof![Just("1.4"), Just("1.5"), Just("1.7"), Just("2.0"), Just("1.0")].prop_map(|s| s.to_string()),
            3 => "[ -~]{0,12}",
            1 => "\\PC{0,8}".prop_map(|s: String| s.chars().filter(|c| *c != '\r' && *c != '\n').collect()),
        ]
        .boxed()
    } else {
        prop_oneof![Just("1.4"), Just("1.5"), Just("1.7"), Just("2.0")].prop_map(|s| s.to_string()).boxed()
    }
}

pub fn binary_mark_strategy() -> BoxedStrategy<Vec<u8>> {
    prop_oneof![
        5 => Just(vec![0xBB, 0xAD, 0xC0, 0xDE]),
        4 => vec(0x80u8..=0xff, 0..8),
        1 => Just(vec![]),
    ]
    .boxed()
}

/// Object-number gaps: dense, small gaps and a few large jumps (the writer's xref loop is O(max number)).
pub fn gap_strategy(sparse: bool) -> BoxedStrategy<u32> {
    if sparse {
        prop_oneof![70 => Just(1u32), 20 => 2u32..10, 9 => 10u32..300, 1 => 300u32..5000].boxed()
    } else {
        Just(1u32).boxed()
    }
}

pub fn gen_strategy(on: bool) -> BoxedStrategy<u16> {
    if on {
        prop_oneof![72 => Just(0u16), 18 => 1u16..10, 4 => any::<u16>(), 3 => Just(65535u16), 2 => Just(65534u16), 1 => Just(256u16)].boxed()
    } else {
        Just(0u16).boxed()
    }
}

/// Replace reference placeholders (number has bit 31 set) by real ids: mostly existing objects, sometimes dangling.
pub fn resolve_refs(o: &mut AObj, ids: &[(u32, u16)], max_num: u32) {
    o.visit_mut(&mut |x| {
        if let AObj::Ref(n, g) = x {
            if *n & 0x8000_0000 != 0 {
                let slot = (*n & 0xffff) as usize;
                // 1/8 of the slots dangle
                if ids.is_empty() || slot % 8 == 7 {
                    let num = max_num + 1 + (slot as u32 % 50);
                    *x = AObj::Ref(num, *g);
                } else {
                    let idx = ((slot / 8) * ids.len()) >> 13;
                    let (num, gen) = ids[idx.min(ids.len() - 1)];
                    // mostly the right generation; a generated non-zero g makes it a generation mismatch (dangling)
                    *x = AObj::Ref(num, if *g == 0 { gen } else { *g });
                }
            }
        }
    });
}

pub fn document(opts: DocOpts) -> BoxedStrategy<ADoc> {
    let objs = vec((gap_strategy(opts.sparse), gen_strategy(opts.generations), top_object(opts.obj)), 0..=opts.max_objects);
    let trailer_extra = vec((key_bytes(opts.obj.allow_nul_in_names), direct_object(opts.obj, 2, 3)), 0..3);
    (
        version_strategy(opts.weird_version),
        binary_mark_strategy(),
        1u32..60,
        objs,
        trailer_extra,
        any::<u16>(),
        any::<u16>(),
        prop_oneof![3 => Just(0u32), 1 => 0u32..20],
        any::<u8>(),
    )
        .prop_map(|(version, mark, first, objs, textra, root_slot, info_slot, slack, tflags)| {
            let mut num = first;
            let mut objects = vec![];
            for (i, (gap, g, o)) in objs.into_iter().enumerate() {
                if i > 0 {
                    num += gap;
                }
                objects.push((num, g, o));
            }
            let ids: Vec<(u32, u16)> = objects.iter().map(|(n, g, _)| (*n, *g)).collect();
            let max_num = ids.iter().map(|i| i.0).max().unwrap_or(0);
            for (_, _, o) in objects.iter_mut() {
                resolve_refs(o, &ids, max_num);
            }
            let mut trailer: ADict = vec![];
            if !ids.is_empty() {
                if tflags & 1 != 0 {
                    let (n, g) = ids[(root_slot as usize * ids.len()) >> 16];
                    trailer.push((B::from("Root"), AObj::Ref(n, g)));
                }
                if tflags & 2 != 0 {
                    let (n, g) = ids[(info_slot as usize * ids.len()) >> 16];
                    trailer.push((B::from("Info"), AObj::Ref(n, g)));
                }
            }
            if tflags & 4 != 0 {
                trailer.push((
                    B::from("ID"),
                    AObj::Array(vec![AObj::Str(B(vec![root_slot as u8; 16]), true), AObj::Str(B(vec![info_slot as u8; 16]), true)]),
                ));
            }
            for (k, mut v) in textra {
                if TRAILER_EXCLUDED.contains(&k.as_slice()) || trailer.iter().any(|(k2, _)| k2.0 == k) {
                    continue;
                }
                resolve_refs(&mut v, &ids, max_num);
                trailer.push((B(k), v));
            }
            ADoc {
                version,
                binary_mark: B(mark),
                objects,
                trailer,
                max_id_slack: slack,
            }
        })
        .boxed()
}
