//! Typed-chaos object graphs (C13) and page trees (C12).

use crate::model::{ADict, AObj, B};
use crate::props::entries::GraphSpec;
use proptest::collection::vec;
use proptest::prelude::*;

pub const KEYS: &[&str] = &[
    "Type", "Kids", "Parent", "Count", "Contents", "Resources", "Font", "XObject", "ColorSpace", "Annots", "Outlines", "First", "Next",
    "Last", "Prev", "Dest", "A", "D", "S", "Title", "Names", "Dests", "Encoding", "ToUnicode", "Filter", "DecodeParms", "Length",
    "Subtype", "Width", "Height", "BitsPerComponent", "Pages", "Root", "ExtGState", "Encrypt", "CF", "CFM", "StmF", "StrF", "V", "R",
    "O", "U", "P", "BaseFont", "N", "W", "Index", "Size", "Predictor", "Columns", "Colors", "EarlyChange", "F1", "X1", "Im1",
];

pub const NAMES: &[&str] = &[
    "Page", "Pages", "Catalog", "Font", "XObject", "Image", "Form", "GoTo", "GoToR", "Fit", "XYZ", "Identity-H", "Identity-V",
    "WinAnsiEncoding", "MacRomanEncoding", "MacExpertEncoding", "StandardEncoding", "PDFDocEncoding", "UniGB-UCS2-H", "UniGB-UTF16-H",
    "FlateDecode", "LZWDecode", "ASCII85Decode", "DCTDecode", "Crypt", "Outlines", "ObjStm", "XRef", "Annot", "Link", "DeviceRGB",
    "DeviceGray", "Indexed", "Standard", "V2", "AESV2", "AESV3", "Identity", "None", "CryptFilter", "StdCF", "Metadata", "Type1",
    "Type0", "F1", "X1",
];

fn int_chaos() -> BoxedStrategy<i64> {
    prop_oneof![
        4 => -2i64..6,
        2 => prop_oneof![Just(i64::MAX), Just(i64::MIN), Just(1i64 << 62), Just(u32::MAX as i64), Just(u32::MAX as i64 + 1), Just(i32::MAX as i64), Just(65536), Just(-1), Just(255), Just(256), Just(1 << 31), Just(1 << 40)],
        1 => any::<i64>(),
    ]
    .boxed()
}

fn string_chaos() -> BoxedStrategy<Vec<u8>> {
    prop_oneof![
        3 => vec(any::<u8>(), 0..12),
        1 => Just(vec![0xfe, 0xff]),
        1 => Just(vec![0xfe, 0xff, 0x00]),
        1 => Just(vec![0xfe, 0xff, 0xd8, 0x00]),
        1 => Just(vec![0xfe, 0xff, 0xd8, 0x00, 0x00, 0x41]),
        1 => Just(vec![0xff, 0xfe, 0x41]),
        1 => Just(vec![0xef, 0xbb, 0xbf, 0xff]),
        1 => Just(b"D:20240230250000+99'99'".to_vec()),
        1 => Just(b"D:2024".to_vec()),
        1 => Just(b"dest1".to_vec()),
        1 => "[ -~]{0,10}".prop_map(|s| s.into_bytes()),
    ]
    .boxed()
}

/// reference placeholder: resolved against the object list afterwards
fn ref_chaos() -> BoxedStrategy<AObj> {
    (any::<u16>(), prop_oneof![9 => Just(0u16), 1 => 1u16..3]).prop_map(|(slot, g)| AObj::Ref(slot as u32 | 0x8000_0000, g)).boxed()
}

pub fn chaos_leaf() -> BoxedStrategy<AObj> {
    prop_oneof![
        8 => ref_chaos(),
        3 => int_chaos().prop_map(AObj::Int),
        4 => (0usize..NAMES.len()).prop_map(|i| AObj::name(NAMES[i])),
        3 => (string_chaos(), any::<bool>()).prop_map(|(s, h)| AObj::Str(B(s), h)),
        1 => Just(AObj::Null),
        1 => any::<bool>().prop_map(AObj::Bool),
        1 => prop_oneof![Just(0.0f32), Just(-1.5f32), Just(1e30f32)].prop_map(AObj::real),
    ]
    .boxed()
}

pub fn chaos_value() -> BoxedStrategy<AObj> {
    chaos_leaf()
        .prop_recursive(3, 24, 4, |inner| {
            prop_oneof![
                3 => vec(inner.clone(), 0..=3).prop_map(AObj::Array),
                2 => vec(((0usize..KEYS.len()), inner), 0..=3).prop_map(|e| {
                    let mut d: ADict = vec![];
                    for (k, v) in e {
                        if !d.iter().any(|(k2, _)| k2.0 == KEYS[k].as_bytes()) {
                            d.push((B::from(KEYS[k]), v));
                        }
                    }
                    AObj::Dict(d)
                }),
            ]
        })
        .boxed()
}

fn set(d: &mut ADict, k: &str, v: AObj) {
    if let Some(e) = d.iter_mut().find(|(k2, _)| k2.0 == k.as_bytes()) {
        e.1 = v;
    } else {
        d.push((B::from(k), v));
    }
}

fn r(n: u32) -> AObj {
    AObj::Ref(n, 0)
}

#[derive(Clone, Debug)]
pub struct Mutation {
    pub obj_slot: u16,
    pub key: u8,
    pub value: AObj,
    /// 0 = set key, 1 = remove key, 2 = replace whole object, 3 = focused: a key the outline / table-of-contents code
    /// reads, on an outline item, bound to a value of the kind it expects there (title strings with byte-order marks
    /// and odd lengths, links to other outline items, destinations that resolve to a page)
    pub mode: u8,
    pub aux: u16,
}

const OUTLINE_KEYS: &[&str] = &["Title", "Title", "Next", "Next", "First", "Dest", "A", "Prev", "Last", "Parent"];

/// skeleton: a plausible document (catalog, two-level page tree, fonts, outline chain, name tree) whose
/// entries are then overwritten by chaos values
pub fn graph_strategy() -> BoxedStrategy<GraphSpec> {
    let mutation = (any::<u16>(), 0u8..(KEYS.len() as u8), chaos_value(), prop_oneof![6 => Just(0u8), 1 => Just(1u8), 1 => Just(2u8), 3 => Just(3u8)], any::<u16>(), string_chaos())
        .prop_map(|(obj_slot, key, value, mode, aux, text)| Mutation { obj_slot, key, value: if mode == 3 { AObj::Str(B(text), aux & 1 == 1) } else { value }, mode, aux });
    (1usize..4, 0usize..6, vec(mutation, 0..12), vec((chaos_value(), any::<bool>()), 0..5), any::<u8>(), string_chaos())
        .prop_map(|(n_pages, n_outline, muts, extras, flags, content)| {
            let mut objs: Vec<AObj> = vec![];
            // 1 catalog, 2 pages root, 3 intermediate pages node, 4 resources, 5 font, 6 outlines, 7 names tree, 8 content stream, 9 ToUnicode stream
            let first_page = 10u32;
            let outline0 = first_page + n_pages as u32;
            let mut cat: ADict = vec![];
            set(&mut cat, "Type", AObj::name("Catalog"));
            set(&mut cat, "Pages", r(2));
            set(&mut cat, "Outlines", r(6));
            if flags & 1 != 0 {
                set(&mut cat, "Names", AObj::dict(vec![("Dests", r(7))]));
            } else {
                set(&mut cat, "Dests", r(7));
            }
            objs.push(AObj::Dict(cat));
            objs.push(AObj::dict(vec![("Type", AObj::name("Pages")), ("Kids", AObj::Array(vec![r(3)])), ("Count", AObj::Int(n_pages as i64)), ("Resources", r(4))]));
            objs.push(AObj::dict(vec![
                ("Type", AObj::name("Pages")),
                ("Parent", r(2)),
                ("Kids", AObj::Array((0..n_pages as u32).map(|i| r(first_page + i)).collect())),
                ("Count", AObj::Int(n_pages as i64)),
            ]));
            objs.push(AObj::dict(vec![
                ("Font", AObj::dict(vec![("F1", r(5))])),
                ("XObject", AObj::dict(vec![("X1", r(8))])),
                ("ColorSpace", AObj::dict(vec![("CS0", AObj::Array(vec![AObj::name("Indexed")]))])),
            ]));
            objs.push(AObj::dict(vec![("Type", AObj::name("Font")), ("Subtype", AObj::name("Type0")), ("Encoding", AObj::name("Identity-H")), ("ToUnicode", r(9))]));
            objs.push(AObj::dict(vec![("Type", AObj::name("Outlines")), ("First", r(outline0)), ("Last", r(outline0 + n_outline.saturating_sub(1) as u32)), ("Count", AObj::Int(n_outline as i64))]));
            objs.push(AObj::dict(vec![
                ("Names", AObj::Array(vec![AObj::lit(b"dest1"), AObj::Array(vec![r(first_page), AObj::name("Fit")]), AObj::lit(b"dest2"), AObj::dict(vec![("D", AObj::Array(vec![r(first_page + n_pages as u32 - 1), AObj::name("Fit")]))])])),
            ]));
            let mut img: ADict = vec![];
            set(&mut img, "Type", AObj::name("XObject"));
            set(&mut img, "Subtype", AObj::name("Image"));
            set(&mut img, "Width", AObj::Int(1));
            set(&mut img, "Height", AObj::Int(1));
            set(&mut img, "ColorSpace", AObj::Array(vec![AObj::name("DeviceRGB")]));
            set(&mut img, "BitsPerComponent", AObj::Int(8));
            set(&mut img, "Length", AObj::Int(3));
            objs.push(AObj::Stream(img, B(b"BT /F1 12 Tf (ab) Tj ET".to_vec())));
            let mut tu: ADict = vec![];
            set(&mut tu, "Length", AObj::Int(content.len() as i64));
            objs.push(AObj::Stream(tu, B(b"/CIDInit /ProcSet findresource begin 12 dict begin begincmap 1 begincodespacerange <00> <FF> endcodespacerange 1 beginbfchar <41> <0042> endbfchar endcmap end end".to_vec())));
            for i in 0..n_pages as u32 {
                objs.push(AObj::dict(vec![
                    ("Type", AObj::name("Page")),
                    ("Parent", r(3)),
                    ("Contents", if i % 2 == 0 { r(8) } else { AObj::Array(vec![r(8), r(8)]) }),
                    ("Annots", AObj::Array(vec![r(outline0)])),
                ]));
            }
            for i in 0..n_outline as u32 {
                let mut d: ADict = vec![];
                set(&mut d, "Title", AObj::lit(format!("t{}", i).as_bytes()));
                set(&mut d, "Parent", r(6));
                if i + 1 < n_outline as u32 {
                    set(&mut d, "Next", r(outline0 + i + 1));
                }
                match i % 4 {
                    0 => set(&mut d, "A", AObj::dict(vec![("S", AObj::name("GoTo")), ("D", AObj::Array(vec![r(first_page), AObj::name("Fit")]))])),
                    1 => set(&mut d, "Dest", AObj::lit(b"dest1")),
                    2 => set(&mut d, "Dest", AObj::Array(vec![r(first_page + (i % n_pages as u32)), AObj::name("XYZ"), AObj::Int(0), AObj::Int(0), AObj::Null])),
                    _ => set(&mut d, "Dest", AObj::name("dest2")),
                }
                objs.push(AObj::Dict(d));
            }
            // destination holders: a valid wrapped destination, one whose /D points back at itself, and a pair pointing
            // at each other (reached when a focused mutation binds /Dest or /A /D to one of them)
            let holder0 = objs.len() as u32 + 1;
            objs.push(AObj::dict(vec![("D", AObj::Array(vec![r(first_page), AObj::name("Fit")]))]));
            objs.push(AObj::dict(vec![("D", r(holder0 + 1))]));
            objs.push(AObj::dict(vec![("D", r(holder0 + 3))]));
            objs.push(AObj::dict(vec![("D", r(holder0 + 2))]));
            for (v, _) in &extras {
                objs.push(v.clone());
            }
            // chaos
            let n = objs.len();
            for m in &muts {
                let idx = (m.obj_slot as usize * n) >> 16;
                let key = KEYS[m.key as usize % KEYS.len()];
                match m.mode {
                    3 => {
                        if n_outline == 0 {
                            continue;
                        }
                        let item = outline0 as usize - 1 + ((m.obj_slot as usize * n_outline) >> 16);
                        let key = OUTLINE_KEYS[m.key as usize % OUTLINE_KEYS.len()];
                        let other = r(outline0 + ((m.aux as usize * n_outline) >> 16) as u32);
                        let value = match key {
                            "Title" => m.value.clone(),
                            "Next" | "First" | "Prev" | "Last" => other,
                            "Parent" => if m.aux & 1 == 0 { r(6) } else { other },
                            "Dest" => match m.aux % 4 {
                                0 => AObj::Array(vec![r(first_page + (m.aux as u32 >> 2) % n_pages as u32), AObj::name("Fit")]),
                                1 => AObj::lit(if m.aux & 4 == 0 { b"dest1" } else { b"dest2" }),
                                2 => r(holder0 + (m.aux as u32 >> 2) % 4),
                                _ => m.value.clone(),
                            },
                            _ => AObj::dict(vec![
                                ("S", AObj::name(if m.aux & 8 == 0 { "GoTo" } else { "GoToR" })),
                                ("D", if m.aux & 16 == 0 { AObj::Array(vec![r(first_page), AObj::name("Fit")]) } else { r(holder0 + (m.aux as u32 >> 5) % 4) }),
                            ]),
                        };
                        if let AObj::Dict(d) = &mut objs[item] {
                            if key == "Dest" {
                                d.retain(|(k, _)| k.0 != b"A");
                            }
                            set(d, key, value);
                        }
                    }
                    2 => objs[idx] = m.value.clone(),
                    mode => {
                        if let AObj::Dict(d) | AObj::Stream(d, _) = &mut objs[idx] {
                            if mode == 1 {
                                d.retain(|(k, _)| k.0 != key.as_bytes());
                            } else {
                                set(d, key, m.value.clone());
                            }
                        }
                    }
                }
            }
            let ids: Vec<(u32, u16)> = (1..=n as u32).map(|i| (i, 0)).collect();
            let mut objects: Vec<(u32, u16, AObj)> = objs.into_iter().enumerate().map(|(i, o)| (i as u32 + 1, 0u16, o)).collect();
            for (_, _, o) in objects.iter_mut() {
                crate::gen::objects::resolve_refs(o, &ids, n as u32);
            }
            let mut trailer: ADict = vec![(B::from("Root"), r(1))];
            if flags & 2 != 0 {
                trailer.push((B::from("Info"), r(5)));
            }
            if flags & 4 != 0 {
                trailer.push((B::from("Encrypt"), r(4)));
            }
            if flags & 8 != 0 {
                trailer = vec![(B::from("Root"), AObj::Int(1))];
            }
            GraphSpec { objects, trailer }
        })
        .boxed()
}

/// Long chains (C13): a small valid skeleton plus `n` objects linked through ONE key that some walker follows, so
/// that the depth a walker reaches is a generated quantity (the chaos graphs above have at most a few dozen objects).
/// kind 0: /Parent chain above a page (resource inheritance), 1: nested /Pages nodes through /Kids, 2: outline siblings
/// through /Next, 3: outline nesting through /First, 4: name-tree nesting through /Kids. `end`: 0 = ends properly,
/// 1 = dangling, 2 = links back to the first chain node (cycle), 3 = links to itself.
/// Ladders: `levels` levels of two nodes each, every node linking to BOTH nodes of the next level (shared nodes, no
/// cycle). A walker that remembers visited nodes does 2 x levels visits; one that only guards the current path does
/// 2^levels. kind 0: name tree through /Kids, 1: outline items through /First and /Next, 2: page tree through /Kids.
pub fn ladder_strategy() -> BoxedStrategy<GraphSpec> {
    (0u8..3, 4usize..70)
        .prop_map(|(kind, levels)| {
            let first = 10u32;
            let node = |level: usize, side: u32| r(first + 2 * level as u32 + side);
            let page = 5u32;
            let dest = AObj::Array(vec![r(page), AObj::name("Fit")]);
            let mut objs: Vec<(u32, AObj)> = vec![];
            objs.push((1, AObj::dict(vec![("Type", AObj::name("Catalog")), ("Pages", r(2)), ("Outlines", r(3)), ("Names", AObj::dict(vec![("Dests", r(4))]))])));
            objs.push((2, AObj::dict(vec![("Type", AObj::name("Pages")), ("Kids", AObj::Array(if kind == 2 { vec![node(0, 0), node(0, 1)] } else { vec![r(page)] })), ("Count", AObj::Int(1))])));
            objs.push((3, AObj::dict(vec![("Type", AObj::name("Outlines")), ("First", if kind == 1 { node(0, 0) } else { r(6) }), ("Count", AObj::Int(1))])));
            objs.push((4, if kind == 0 { AObj::dict(vec![("Kids", AObj::Array(vec![node(0, 0), node(0, 1)]))]) } else { AObj::dict(vec![("Names", AObj::Array(vec![AObj::lit(b"d"), dest.clone()]))]) }));
            objs.push((page, AObj::dict(vec![("Type", AObj::name("Page")), ("Parent", r(2)), ("Contents", r(7))])));
            objs.push((6, AObj::dict(vec![("Title", AObj::lit(b"t")), ("Parent", r(3)), ("Dest", dest.clone())])));
            objs.push((7, AObj::Stream(vec![], B(b"BT /F1 9 Tf (x) Tj ET".to_vec()))));
            for l in 0..levels {
                for side in 0..2u32 {
                    let last = l + 1 == levels;
                    let d = match kind {
                        0 => {
                            if last {
                                AObj::dict(vec![("Names", AObj::Array(vec![AObj::lit(format!("n{}", side).as_bytes()), dest.clone()]))])
                            } else {
                                AObj::dict(vec![("Kids", AObj::Array(vec![node(l + 1, 0), node(l + 1, 1)]))])
                            }
                        }
                        1 => {
                            let mut v = vec![("Title", AObj::lit(format!("o{}-{}", l, side).as_bytes())), ("Parent", r(3)), ("Dest", dest.clone())];
                            if !last {
                                v.push(("First", node(l + 1, 0)));
                                v.push(("Next", node(l + 1, 1)));
                            }
                            AObj::dict(v)
                        }
                        _ => {
                            if last {
                                AObj::dict(vec![("Type", AObj::name("Pages")), ("Parent", r(2)), ("Count", AObj::Int(1)), ("Kids", AObj::Array(vec![r(page)]))])
                            } else {
                                AObj::dict(vec![("Type", AObj::name("Pages")), ("Parent", r(2)), ("Count", AObj::Int(1)), ("Kids", AObj::Array(vec![node(l + 1, 0), node(l + 1, 1)]))])
                            }
                        }
                    };
                    objs.push((first + 2 * l as u32 + side, d));
                }
            }
            GraphSpec { objects: objs.into_iter().map(|(n, o)| (n, 0u16, o)).collect(), trailer: vec![(B::from("Root"), r(1))] }
        })
        .boxed()
}

pub fn chain_strategy() -> BoxedStrategy<GraphSpec> {
    (0u8..5, prop_oneof![3 => 1usize..50, 3 => 50usize..400, 2 => 400usize..3000], 0u8..4, any::<bool>())
        .prop_map(|(kind, n, end, with_resources)| {
            let first = 10u32;
            let node = |i: usize| r(first + i as u32);
            let last_link = |i: usize, proper: AObj| -> AObj {
                if i + 1 < n {
                    node(i + 1)
                } else {
                    match end {
                        0 => proper,
                        1 => r(9_000_000),
                        2 => node(0),
                        _ => node(i),
                    }
                }
            };
            let page = 5u32;
            let mut objs: Vec<(u32, AObj)> = vec![];
            objs.push((1, AObj::dict(vec![("Type", AObj::name("Catalog")), ("Pages", r(2)), ("Outlines", r(3)), ("Names", AObj::dict(vec![("Dests", r(4))]))])));
            let root_kids = if kind == 1 { vec![node(0)] } else { vec![r(page)] };
            let mut root = vec![("Type", AObj::name("Pages")), ("Kids", AObj::Array(root_kids)), ("Count", AObj::Int(1))];
            if with_resources {
                root.push(("Resources", AObj::dict(vec![("Font", AObj::dict(vec![]))])));
            }
            objs.push((2, AObj::dict(root)));
            objs.push((3, AObj::dict(vec![("Type", AObj::name("Outlines")), ("First", if kind == 2 || kind == 3 { node(0) } else { r(6) }), ("Count", AObj::Int(1))])));
            objs.push((4, if kind == 4 { AObj::dict(vec![("Kids", AObj::Array(vec![node(0)]))]) } else { AObj::dict(vec![("Names", AObj::Array(vec![AObj::lit(b"d"), AObj::Array(vec![r(page), AObj::name("Fit")])]))]) }));
            let page_parent = match kind {
                0 => node(0),
                1 => node(n - 1),
                _ => r(2),
            };
            objs.push((page, AObj::dict(vec![("Type", AObj::name("Page")), ("Parent", page_parent), ("Contents", r(7))])));
            objs.push((6, AObj::dict(vec![("Title", AObj::lit(b"t")), ("Parent", r(3)), ("Dest", AObj::Array(vec![r(page), AObj::name("Fit")]))])));
            objs.push((7, AObj::Stream(vec![], B(b"BT /F1 9 Tf (x) Tj ET".to_vec()))));
            for i in 0..n {
                let d = match kind {
                    0 => AObj::dict(vec![("Type", AObj::name("Pages")), ("Parent", last_link(i, r(2)))]),
                    1 => AObj::dict(vec![("Type", AObj::name("Pages")), ("Parent", if i == 0 { r(2) } else { node(i - 1) }), ("Count", AObj::Int(1)), ("Kids", AObj::Array(vec![last_link(i, r(page))]))]),
                    2 => {
                        let mut v = vec![("Title", AObj::lit(b"s")), ("Parent", r(3)), ("Dest", AObj::Array(vec![r(page), AObj::name("Fit")]))];
                        if i + 1 < n || end != 0 {
                            v.push(("Next", last_link(i, AObj::Null)));
                        }
                        AObj::dict(v)
                    }
                    3 => {
                        let mut v = vec![("Title", AObj::lit(b"n")), ("Parent", if i == 0 { r(3) } else { node(i - 1) }), ("Dest", AObj::Array(vec![r(page), AObj::name("Fit")]))];
                        if i + 1 < n || end != 0 {
                            v.push(("First", last_link(i, AObj::Null)));
                        }
                        AObj::dict(v)
                    }
                    _ => {
                        if i + 1 < n || end != 0 {
                            AObj::dict(vec![("Kids", AObj::Array(vec![last_link(i, AObj::Null)]))])
                        } else {
                            AObj::dict(vec![("Names", AObj::Array(vec![AObj::lit(b"d"), AObj::Array(vec![r(page), AObj::name("Fit")])]))])
                        }
                    }
                };
                objs.push((first + i as u32, d));
            }
            GraphSpec { objects: objs.into_iter().map(|(n, o)| (n, 0u16, o)).collect(), trailer: vec![(B::from("Root"), r(1))] }
        })
        .boxed()
}
