//! CANON — canonical comparator and digest (DESIGN.md §4).

use crate::engine::fnv64;
use lopdf::{Dictionary, Document, Object};

#[derive(Clone, Copy, Debug)]
pub struct Opts {
    /// expected Real with integral value may be an Integer of the same value in `actual`
    pub real_as_int: bool,
    /// a dictionary entry whose value is Null is equivalent to an absent entry (C02, ISO 32000-1 §7.3.7)
    pub null_entry_absent: bool,
    /// stream /Length may be a reference in expected and the content length in actual (C02)
    pub length_normalised: bool,
}

impl Opts {
    pub const STRICT: Opts = Opts {
        real_as_int: false,
        null_entry_absent: false,
        length_normalised: false,
    };
    pub const ROUNDTRIP: Opts = Opts {
        real_as_int: true,
        null_entry_absent: false,
        length_normalised: false,
    };
    pub const FOREIGN: Opts = Opts {
        real_as_int: false,
        null_entry_absent: true,
        length_normalised: true,
    };
}

fn show(o: &Object) -> String {
    let s = format!("{:?}", o);
    crate::engine::truncate(&s, 200)
}

/// expected vs actual
pub fn obj_eq(exp: &Object, act: &Object, opts: Opts, path: &str) -> Result<(), String> {
    match (exp, act) {
        (Object::Null, Object::Null) => Ok(()),
        (Object::Boolean(a), Object::Boolean(b)) if a == b => Ok(()),
        (Object::Integer(a), Object::Integer(b)) if a == b => Ok(()),
        (Object::Real(a), Object::Real(b)) if a == b => Ok(()),
        (Object::Real(a), Object::Integer(b))
            if opts.real_as_int && a.is_finite() && a.fract() == 0.0 && (*b as f32) == *a =>
        {
            Ok(())
        }
        (Object::Name(a), Object::Name(b)) if a == b => Ok(()),
        (Object::String(a, fa), Object::String(b, fb)) if a == b && fa == fb => Ok(()),
        (Object::Reference(a), Object::Reference(b)) if a == b => Ok(()),
        (Object::Array(a), Object::Array(b)) => {
            if a.len() != b.len() {
                return Err(format!("{}: array length {} vs {}: expected {} got {}", path, a.len(), b.len(), show(exp), show(act)));
            }
            for (i, (x, y)) in a.iter().zip(b.iter()).enumerate() {
                obj_eq(x, y, opts, &format!("{}[{}]", path, i))?;
            }
            Ok(())
        }
        (Object::Dictionary(a), Object::Dictionary(b)) => dict_eq(a, b, opts, path, false),
        (Object::Stream(a), Object::Stream(b)) => {
            dict_eq(&a.dict, &b.dict, opts, &format!("{}.streamdict", path), true)?;
            if a.content != b.content {
                return Err(format!(
                    "{}: stream content differs: expected {} bytes {:?} got {} bytes {:?}",
                    path,
                    a.content.len(),
                    crate::model::B(a.content.iter().take(48).cloned().collect()),
                    b.content.len(),
                    crate::model::B(b.content.iter().take(48).cloned().collect())
                ));
            }
            Ok(())
        }
        _ => Err(format!("{}: expected {} got {}", path, show(exp), show(act))),
    }
}

pub fn dict_eq(a: &Dictionary, b: &Dictionary, opts: Opts, path: &str, is_stream: bool) -> Result<(), String> {
    for (k, v) in a.iter() {
        let p = format!("{}/{}", path, String::from_utf8_lossy(k));
        match b.get(k) {
            Ok(w) => {
                if is_stream && opts.length_normalised && k == b"Length" {
                    if let (Object::Reference(_), Object::Integer(_)) = (v, w) {
                        continue;
                    }
                }
                obj_eq(v, w, opts, &p)?
            }
            Err(_) => {
                if opts.null_entry_absent && matches!(v, Object::Null) {
                    continue;
                }
                return Err(format!("{}: key missing in actual (expected value {})", p, show(v)));
            }
        }
    }
    for (k, w) in b.iter() {
        if a.get(k).is_err() {
            if opts.null_entry_absent && matches!(w, Object::Null) {
                continue;
            }
            return Err(format!(
                "{}/{}: unexpected key in actual (value {})",
                path,
                String::from_utf8_lossy(k),
                show(w)
            ));
        }
    }
    Ok(())
}

pub const XREF_BOOKKEEPING: &[&[u8]] = &[b"Size", b"Prev", b"XRefStm"];
pub const XREF_STREAM_KEYS: &[&[u8]] = &[b"Type", b"W", b"Index", b"Length", b"Filter", b"DecodeParms"];

pub fn strip_trailer(t: &Dictionary, xref_stream: bool) -> Dictionary {
    let mut out = Dictionary::new();
    for (k, v) in t.iter() {
        if XREF_BOOKKEEPING.contains(&k.as_slice()) {
            continue;
        }
        if xref_stream && XREF_STREAM_KEYS.contains(&k.as_slice()) {
            continue;
        }
        out.set(k.clone(), v.clone());
    }
    out
}

fn ser(o: &Object, out: &mut Vec<u8>) {
    match o {
        Object::Null => out.push(b'n'),
        Object::Boolean(b) => out.extend_from_slice(if *b { b"t" } else { b"f" }),
        Object::Integer(i) => {
            out.push(b'i');
            out.extend_from_slice(&i.to_le_bytes())
        }
        Object::Real(r) => {
            out.push(b'r');
            let v = if *r == 0.0 { 0.0f32 } else { *r };
            out.extend_from_slice(&v.to_bits().to_le_bytes())
        }
        Object::Name(n) => {
            out.push(b'N');
            out.extend_from_slice(&(n.len() as u32).to_le_bytes());
            out.extend_from_slice(n)
        }
        Object::String(s, f) => {
            out.push(if matches!(f, lopdf::StringFormat::Literal) { b'S' } else { b'H' });
            out.extend_from_slice(&(s.len() as u32).to_le_bytes());
            out.extend_from_slice(s)
        }
        Object::Array(a) => {
            out.push(b'[');
            out.extend_from_slice(&(a.len() as u32).to_le_bytes());
            for x in a {
                ser(x, out)
            }
        }
        Object::Dictionary(d) => ser_dict(d, out),
        Object::Stream(s) => {
            out.push(b'X');
            ser_dict(&s.dict, out);
            out.extend_from_slice(&(s.content.len() as u32).to_le_bytes());
            out.extend_from_slice(&s.content)
        }
        Object::Reference((n, g)) => {
            out.push(b'R');
            out.extend_from_slice(&n.to_le_bytes());
            out.extend_from_slice(&g.to_le_bytes())
        }
    }
}

fn ser_dict(d: &Dictionary, out: &mut Vec<u8>) {
    out.push(b'D');
    let mut entries: Vec<(&Vec<u8>, &Object)> = d.iter().collect();
    entries.sort_by(|a, b| a.0.cmp(b.0));
    out.extend_from_slice(&(entries.len() as u32).to_le_bytes());
    for (k, v) in entries {
        out.extend_from_slice(&(k.len() as u32).to_le_bytes());
        out.extend_from_slice(k);
        ser(v, out);
    }
}

pub fn object_bytes(o: &Object) -> Vec<u8> {
    let mut v = vec![];
    ser(o, &mut v);
    v
}

/// digest of a whole document (objects, trailer, max_id, version) — order independent for dictionaries
pub fn digest(doc: &Document) -> u64 {
    let mut out = Vec::new();
    out.extend_from_slice(doc.version.as_bytes());
    out.push(0);
    out.extend_from_slice(&doc.max_id.to_le_bytes());
    ser_dict(&doc.trailer, &mut out);
    for ((n, g), o) in &doc.objects {
        out.extend_from_slice(&n.to_le_bytes());
        out.extend_from_slice(&g.to_le_bytes());
        ser(o, &mut out);
    }
    fnv64(&out)
}

/// Human-readable difference between two documents' digests (first differing object).
pub fn doc_diff(a: &Document, b: &Document) -> String {
    if a.version != b.version {
        return format!("version {:?} vs {:?}", a.version, b.version);
    }
    if a.max_id != b.max_id {
        return format!("max_id {} vs {}", a.max_id, b.max_id);
    }
    if let Err(e) = dict_eq(&a.trailer, &b.trailer, Opts::STRICT, "trailer", false) {
        return e;
    }
    for (id, o) in &a.objects {
        match b.objects.get(id) {
            None => return format!("object {:?} missing in second", id),
            Some(p) => {
                if let Err(e) = obj_eq(o, p, Opts::STRICT, &format!("obj {:?}", id)) {
                    return e;
                }
            }
        }
    }
    for id in b.objects.keys() {
        if !a.objects.contains_key(id) {
            return format!("object {:?} only in second", id);
        }
    }
    "no difference found by comparator (digest-only difference)".into()
}
