#![no_main]
//! C04: stream-level entry points. The bytes are decoded into (entry, dictionary, content) so that the fuzzer
//! reaches the decoders instead of dying in argument validation: byte 0 selects the entry, then a small
//! table-driven dictionary (filter chain, decode parameters, N/First/W/Index/Size from 8-byte integers), the
//! rest is the stream content.
use libfuzzer_sys::fuzz_target;
use lv::model::{AObj, B};
use lv::props::entries::{dispatch, StreamSpec, E_FILTER, E_OBJSTM, E_XREF};

struct Un<'a>(&'a [u8]);
impl Un<'_> {
    fn byte(&mut self) -> u8 {
        if let Some((b, rest)) = self.0.split_first() {
            self.0 = rest;
            *b
        } else {
            0
        }
    }
    fn int(&mut self) -> i64 {
        match self.byte() % 6 {
            0 => self.byte() as i64,
            1 => -(self.byte() as i64),
            2 => (self.byte() as i64) << 8 | self.byte() as i64,
            3 => [i64::MAX, i64::MIN, 1 << 32, (1 << 32) - 1, 1 << 31, 1 << 62, 65536, 4294967296][self.byte() as usize % 8],
            4 => {
                let mut v = 0i64;
                for _ in 0..8 {
                    v = v << 8 | self.byte() as i64;
                }
                v
            }
            _ => (self.byte() % 16) as i64,
        }
    }
}

fuzz_target!(|data: &[u8]| {
    if data.len() > 65536 || data.is_empty() {
        return;
    }
    let mut u = Un(data);
    let entry = [E_FILTER, E_OBJSTM, E_XREF][u.byte() as usize % 3];
    let mut dict: Vec<(B, AObj)> = vec![];
    let names = ["FlateDecode", "LZWDecode", "ASCII85Decode", "ASCIIHexDecode", "Crypt", "DCTDecode"];
    let nf = u.byte() % 4;
    if nf == 1 {
        dict.push((B::from("Filter"), AObj::name(names[u.byte() as usize % names.len()])));
    } else if nf > 1 {
        dict.push((B::from("Filter"), AObj::Array((0..nf).map(|_| AObj::name(names[u.byte() as usize % names.len()])).collect())));
    }
    let parms = |u: &mut Un| {
        let mut d: Vec<(B, AObj)> = vec![];
        let mask = u.byte();
        for (i, k) in ["Predictor", "Colors", "Columns", "BitsPerComponent", "EarlyChange"].iter().enumerate() {
            if mask & (1 << i) != 0 {
                let v = if i == 0 && mask & 0x80 != 0 { 10 + (u.byte() % 6) as i64 } else { u.int() };
                d.push((B::from(*k), AObj::Int(v)));
            }
        }
        AObj::Dict(d)
    };
    match u.byte() % 3 {
        0 => {}
        1 => dict.push((B::from("DecodeParms"), parms(&mut u))),
        _ => {
            let n = u.byte() % 4;
            dict.push((B::from("DecodeParms"), AObj::Array((0..n).map(|_| parms(&mut u)).collect())));
        }
    }
    match entry {
        E_OBJSTM => {
            dict.push((B::from("Type"), AObj::name("ObjStm")));
            dict.push((B::from("N"), AObj::Int(u.int())));
            dict.push((B::from("First"), AObj::Int(u.int())));
        }
        E_XREF => {
            dict.push((B::from("Type"), AObj::name("XRef")));
            dict.push((B::from("Size"), AObj::Int(u.int())));
            let nw = u.byte() % 5;
            dict.push((B::from("W"), AObj::Array((0..nw).map(|_| AObj::Int(u.int())).collect())));
            if u.byte() % 2 == 0 {
                let ni = u.byte() % 6;
                dict.push((B::from("Index"), AObj::Array((0..ni).map(|_| AObj::Int(u.int())).collect())));
            }
        }
        _ => {}
    }
    let content = u.0.to_vec();
    dict.push((B::from("Length"), AObj::Int(content.len() as i64)));
    let spec = StreamSpec { dict, content: B(content) };
    let payload = serde_json::to_vec(&spec).unwrap();
    let _ = dispatch(entry, &payload);
});
