#![no_main]
//! C04: ToUnicode CMap parsing + decode_text. Byte 0: flags (encoding name, compression, envelope), bytes 1..9: the
//! codes to decode, the rest: the CMap body (wrapped in the Adobe template unless the flag says raw).
use libfuzzer_sys::fuzz_target;
use lv::model::B;
use lv::props::entries::{dispatch, CMapSpec, E_CMAP};

fuzz_target!(|data: &[u8]| {
    if data.len() > 65536 || data.len() < 10 {
        return;
    }
    let flags = data[0];
    let codes = data[1..9].to_vec();
    let body = &data[9..];
    let cmap = if flags & 1 == 0 {
        let mut v = b"/CIDInit /ProcSet findresource begin\n12 dict begin\nbegincmap\n/CMapType 2 def\n1 begincodespacerange\n<0000> <FFFF>\nendcodespacerange\n".to_vec();
        v.extend_from_slice(body);
        v.extend_from_slice(b"\nendcmap\nCMapName currentdict /CMap defineresource pop\nend\nend\n");
        v
    } else {
        body.to_vec()
    };
    let encoding = match (flags >> 1) % 4 {
        0 => None,
        1 => Some(B::from("Identity-H")),
        2 => Some(B::from("Identity-V")),
        _ => Some(B::from("WinAnsiEncoding")),
    };
    let spec = CMapSpec { cmap: B(cmap), codes: B(codes), encoding, compress: flags & 0x10 != 0 };
    let payload = serde_json::to_vec(&spec).unwrap();
    let _ = dispatch(E_CMAP, &payload);
});
