#![no_main]
//! C13: whatever load_mem accepts is handed to every read-only query.
use libfuzzer_sys::fuzz_target;
use lv::props::entries::run_queries;

fuzz_target!(|data: &[u8]| {
    if data.len() > 65536 {
        return;
    }
    if let Ok(doc) = lopdf_load(data) {
        let _ = run_queries(&doc);
    }
});

fn lopdf_load(data: &[u8]) -> Result<lv::LopdfDocument, ()> {
    lv::load_for_fuzz(data)
}
