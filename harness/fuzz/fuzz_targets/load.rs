#![no_main]
//! C04: Document::load_mem / IncrementalDocument::load_from on raw bytes. Any panic (overflow checks are on in
//! cargo-fuzz builds), abort, stack overflow, timeout or out-of-memory is a libFuzzer crash.
use libfuzzer_sys::fuzz_target;
use lv::props::entries::{dispatch, E_INCLOAD, E_LOAD};

fuzz_target!(|data: &[u8]| {
    if data.len() > 65536 {
        return;
    }
    let _ = dispatch(E_LOAD, data);
    let _ = dispatch(E_INCLOAD, data);
});
