#![no_main]
//! libFuzzer front end of the 'load' target; the decoding of the bytes into worker calls lives in lv::props::fuzzdec
//! (shared with the confirmation step of the thorough tier). Any panic (overflow checks are on), abort, stack
//! overflow, timeout or out-of-memory is a libFuzzer artifact, which the check re-runs in the isolated worker.
use libfuzzer_sys::fuzz_target;

fuzz_target!(|data: &[u8]| {
    lv::props::fuzzdec::fuzz_one("load", data);
});
