#![no_main]
//! C04: Content::decode (+ re-encode) and decode_text_string on raw bytes.
use libfuzzer_sys::fuzz_target;
use lv::props::entries::{dispatch, E_CONTENT, E_TEXTSTRING};

fuzz_target!(|data: &[u8]| {
    if data.len() > 65536 {
        return;
    }
    let _ = dispatch(E_CONTENT, data);
    let _ = dispatch(E_TEXTSTRING, data);
});
